#!/bin/bash
# Rebuilds bin/dfscheck from /verif/checker when missing or stale. Offline.
set -e
cd "$(dirname "$0")"
export PATH=/opt/veriftools/go1.26.8/bin:$PATH GOFLAGS=-mod=mod GOPROXY=off GOTOOLCHAIN=local
unset GOWORK
if [ ! -x bin/dfscheck ] || [ -n "$(find checker -newer bin/dfscheck -name '*.go' -o -newer bin/dfscheck -name 'go.*' | head -1)" ]; then
  mkdir -p bin
  (cd checker && go build -o ../bin/dfscheck.tmp . ) && mv bin/dfscheck.tmp bin/dfscheck
fi

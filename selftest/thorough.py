#!/usr/bin/env python3
"""Thorough tier for one property.

1. the property's rules on /repo (linux/amd64)            -> verdict + evidence
2. the same rules for the other build configurations       -> verdict (build-tagged files)
3. the property's seeded edits (both-ways test of the checker): each edit is applied to a
   scratch copy of /repo outside /repo and /verif, the rules are run on the copy and must
   report a violation naming the expected construct; the copy is removed afterwards.

Exit status: 1 iff a rule reports a violation on /repo's tree (any configuration); a seeded edit
that is not detected is reported as SELFTEST-MISS and recorded in the evidence file (it says the
checker is weaker than claimed, not that /repo violates the property). With --strict a miss exits 3.
Nothing of go-diskfs is executed; the scratch copies are only type-checked and analysed.
"""
import json, os, shutil, subprocess, sys, tempfile, time, random
from concurrent.futures import ThreadPoolExecutor

VERIF = os.path.dirname(os.path.dirname(os.path.abspath(__file__)))
REPO = os.environ.get("DFS_REPO", "/repo")
BIN = os.path.join(VERIF, "bin", "dfscheck")
# linux/386 is not a configuration the repository itself type-checks in (sync/time_other.go), so it is not analysed.
CONFIGS = [("darwin", "amd64"), ("windows", "amd64"), ("linux", "arm64")]


def run_checker(prop, repo, verif, env_extra=None, evidence=False, tier="thorough"):
    env = dict(os.environ)
    env.pop("GOOS", None)
    env.pop("GOARCH", None)
    if not evidence:
        env["DFS_NO_EVIDENCE"] = "1"
    if env_extra:
        env.update(env_extra)
    p = subprocess.run([BIN, "-property", prop, "-tier", tier, "-repo", repo, "-verif", verif],
                       env=env, stdout=subprocess.PIPE, stderr=subprocess.PIPE, text=True)
    return p.returncode, p.stdout, p.stderr


def load_seeds(prop):
    d = os.path.join(VERIF, "selftest", "seeds")
    seeds = []
    for fn in sorted(os.listdir(d)):
        if not fn.endswith(".py"):
            continue
        ns = {}
        exec(compile(open(os.path.join(d, fn)).read(), fn, "exec"), ns)
        for s in ns["SEEDS"]:
            if prop in s["properties"]:
                seeds.append(s)
    # behaviour-preserving refactors written by sub-agents: the check must stay silent on them
    rdir = os.path.join(VERIF, "refactors")
    mp = os.path.join(rdir, "MAP.json")
    if os.path.exists(mp):
        for rid, props in sorted(json.load(open(mp)).items()):
            if prop in props and os.path.exists(os.path.join(rdir, rid, "patch.diff")):
                seeds.append({"name": "refactor-" + rid, "properties": props, "silent": True, "expect": "", "patch": os.path.join(rdir, rid, "patch.diff")})
    return seeds


def apply_patch(root, patch):
    p = subprocess.run("patch -p1 -F3 -s < %s" % patch, shell=True, cwd=root, stdout=subprocess.PIPE, stderr=subprocess.STDOUT, text=True)
    if p.returncode != 0:
        return "patch does not apply: " + p.stdout[-200:]
    return None


def apply_edits(root, edits):
    for e in edits:
        path = os.path.join(root, e["file"])
        if not os.path.exists(path):
            return "file missing: " + e["file"]
        src = open(path).read()
        n = src.count(e["find"])
        want = e.get("count", 1)
        if n != want:
            return "pattern occurs %d times (want %d) in %s" % (n, want, e["file"])
        src = src.replace(e["find"], e["replace"])
        open(path, "w").write(src)
    return None


def run_seed(prop, seed, scratch_root):
    name = seed["name"]
    d = tempfile.mkdtemp(prefix="seed-", dir=scratch_root)
    try:
        repo = os.path.join(d, "repo")
        shutil.copytree(REPO, repo, ignore=shutil.ignore_patterns(".git"), symlinks=True)
        vd = os.path.join(d, "verif")
        os.makedirs(vd)
        kf = os.path.join(VERIF, "known_findings.json")
        if os.path.exists(kf):
            shutil.copy(kf, vd)
        if seed.get("patch"):
            err = apply_patch(repo, seed["patch"])
        else:
            err = apply_edits(repo, seed["edits"])
        if err:
            return {"name": name, "status": "skipped", "why": err}
        env = {"GOCACHE": os.path.join(d, "gocache")} if os.environ.get("DFS_PRIVATE_GOCACHE") else None
        rc, out, errtxt = run_checker(prop, repo, vd, env)
        if rc == 2:
            return {"name": name, "status": "broken-seed", "why": (errtxt or out)[-400:]}
        keys = []
        od = os.path.join(vd, "out", prop)
        if os.path.isdir(od):
            for fn in sorted(os.listdir(od)):
                o = json.load(open(os.path.join(od, fn)))["obligation"]
                keys.append(o["rule"] + "|" + o["function"] + "|" + o["construct"])
        if seed.get("silent"):
            # a behaviour-preserving refactor: the checker must stay quiet on it
            if rc == 0:
                return {"name": name, "status": "silent", "expect": "(no violation)", "reported": [], "all_reported": 0}
            return {"name": name, "status": "false-alarm", "expect": "(no violation)", "reported": keys[:6], "rc": rc}
        exp = seed["expect"]
        hit = [k for k in keys if exp in k]
        if rc == 1 and hit:
            return {"name": name, "status": "fired", "expect": exp, "reported": hit[:3], "all_reported": len(keys)}
        return {"name": name, "status": "missed", "expect": exp, "reported": keys[:6], "rc": rc}
    finally:
        shutil.rmtree(d, ignore_errors=True)


def main():
    args = [a for a in sys.argv[1:] if not a.startswith("--")]
    strict = "--strict" in sys.argv
    seeds_only = "--seeds-only" in sys.argv
    only = [a.split("=", 1)[1] for a in sys.argv if a.startswith("--seed=")]
    prop = args[0]
    t0 = time.time()
    rc_total = 0
    if not seeds_only:
        rc, out, err = run_checker(prop, REPO, VERIF, evidence=True)
        sys.stdout.write(out)
        sys.stderr.write(err)
        if rc == 2:
            sys.exit(2)
        rc_total = rc
    cfg_results = []
    if not seeds_only:
        def one(cfg):
            goos, goarch = cfg
            vd = os.path.join(VERIF, "out", "cfg-%s-%s" % (goos, goarch))
            os.makedirs(vd, exist_ok=True)
            kf = os.path.join(VERIF, "known_findings.json")
            if os.path.exists(kf):
                shutil.copy(kf, vd)
            rc, out, err = run_checker(prop, REPO, vd, {"GOOS": goos, "GOARCH": goarch, "CGO_ENABLED": "0"})
            return cfg, rc, out, err
        with ThreadPoolExecutor(max_workers=2) as ex:
            for cfg, rc, out, err in ex.map(one, CONFIGS):
                tag = "%s/%s" % cfg
                if rc == 1:
                    rc_total = 1
                    sys.stdout.write("[%s] " % tag + out)
                elif rc == 2:
                    sys.stderr.write("[%s] analysis could not run: %s\n" % (tag, err[-300:]))
                last = [l for l in out.splitlines() if l.startswith(prop + " ")]
                cfg_results.append({"config": tag, "exit": rc, "summary": last[-1] if last else ""})
    seed_results = []
    if rc_total == 0:
        seeds = load_seeds(prop)
        if only:
            seeds = [s for s in seeds if s["name"] in only]
        rnd = random.Random(int(os.environ.get("VERIF_SEED", "0") or 0))
        rnd.shuffle(seeds)
        scratch_root = tempfile.mkdtemp(prefix="dfs-selftest-", dir="/var/tmp")
        try:
            with ThreadPoolExecutor(max_workers=4) as ex:
                seed_results = list(ex.map(lambda s: run_seed(prop, s, scratch_root), seeds))
        finally:
            shutil.rmtree(scratch_root, ignore_errors=True)
        for r in sorted(seed_results, key=lambda r: r["name"]):
            if r["status"] == "fired":
                print("selftest %-40s fired: %s" % (r["name"], r["reported"][0]))
            elif r["status"] == "silent":
                print("selftest %-40s silent (behaviour-preserving refactor, no alarm)" % r["name"])
            elif r["status"] == "false-alarm":
                print("SELFTEST-FALSE-ALARM %s: a behaviour-preserving refactor was reported: %s" % (r["name"], r["reported"]))
            elif r["status"] == "skipped":
                print("selftest %-40s skipped (%s)" % (r["name"], r["why"]))
            elif r["status"] == "missed":
                print("SELFTEST-MISS %s: expected a violation matching %r, got %s" % (r["name"], r["expect"], r["reported"]))
            else:
                print("SELFTEST-BROKEN %s: %s" % (r["name"], r["why"]))
    # patch the evidence
    evp = os.path.join(VERIF, "evidence", prop + ".json")
    if not seeds_only and os.path.exists(evp):
        ev = json.load(open(evp))
        cov = ev["coverage"]
        cov["extra_configurations"] = cfg_results
        cov["seeded_edits"] = {
            "run": len([r for r in seed_results if r["status"] != "skipped"]),
            "fired": len([r for r in seed_results if r["status"] == "fired"]),
            "missed": [r["name"] for r in seed_results if r["status"] == "missed"],
            "silent_refactors": [r["name"] for r in seed_results if r["status"] == "silent"],
            "false_alarms": [r["name"] for r in seed_results if r["status"] == "false-alarm"],
            "skipped": [r["name"] for r in seed_results if r["status"] == "skipped"],
            "broken": [r["name"] for r in seed_results if r["status"] == "broken-seed"],
            "detail": sorted(seed_results, key=lambda r: r["name"]),
        }
        ev["wall_s"] = time.time() - t0
        json.dump(ev, open(evp, "w"), indent=1)
    missed = [r for r in seed_results if r["status"] in ("missed", "broken-seed", "false-alarm")]
    print("%s thorough: exit %d; configs %s; seeded edits: %d fired, %d missed, %d skipped" % (
        prop, rc_total, [c["exit"] for c in cfg_results],
        len([r for r in seed_results if r["status"] in ("fired", "silent")]), len(missed),
        len([r for r in seed_results if r["status"] == "skipped"])))
    if rc_total:
        sys.exit(rc_total)
    if strict and missed:
        sys.exit(3)
    sys.exit(0)


if __name__ == "__main__":
    main()

# Seeded semantic edits for C14 (reproducible mode yields byte-identical images).
def e(file, find, replace, count=1):
    return {"file": file, "find": find, "replace": replace, "count": count}

SEEDS = [
 {"name": "c14-createentry-wallclock", "properties": ["C14"], "expect": "C14-a|",
  "edits": [e("filesystem/fat12/directory.go", "			entry.modifyTime = timestamp.GetTime()\n", "			entry.modifyTime = time.Now()\n"),
            e("filesystem/fat12/directory.go", '	"fmt"\n', '	"fmt"\n	"time"\n')]},
 {"name": "c14-fat32-volid-unguarded", "properties": ["C14"], "expect": "C14-",
  "edits": [e("filesystem/fat32/fat32.go", '''	if !reproducible {
		now := time.Now()
		volid = uint32(now.Unix()<<20 | (now.UnixNano() / 1000000))
	}''', '''	{
		now := time.Now()
		volid = uint32(now.Unix()<<20 | (now.UnixNano() / 1000000))
	}
	_ = reproducible''')]},
 {"name": "c14-fat16-volid-pid", "properties": ["C14"], "expect": "C14-",
  "edits": [e("filesystem/fat16/fat16.go", '''	var volid uint32
	if !reproducible {''', '''	volid := uint32(os.Getpid())
	if !reproducible {'''),
            e("filesystem/fat16/fat16.go", 'import (\n', 'import (\n\t"os"\n')]},
 {"name": "c14-gpt-header-random-guid", "properties": ["C14"], "expect": "C14-a|",
  "edits": [e("partition/gpt/table.go", '''	var guid uuid.UUID
	if t.GUID == "" {
		guid, _ = uuid.NewRandom()
	} else {
		var err error
		guid, err = uuid.Parse(t.GUID)
		if err != nil {
			return nil, fmt.Errorf("invalid UUID: %s", t.GUID)
		}
	}
	copy(b[56:72], bytesToUUIDBytes(guid[0:16]))''', '''	guid, _ := uuid.NewRandom()
	copy(b[56:72], bytesToUUIDBytes(guid[0:16]))''')]},
 {"name": "c14-gpt-array-by-map-range", "properties": ["C14"], "expect": "C14-b|",
  "edits": [e("partition/gpt/table.go", '''	for i := 0; i < t.partitionArraySize; i++ {
		p, ok := partMap[i+1]
		if !ok {
			// unused partition
			continue
		}''', '''	for idx, p := range partMap {
		i := idx - 1''')]},
 {"name": "c14-gettime-ignores-epoch", "properties": ["C14"], "expect": "C14-a|",
  "edits": [e("util/timestamp/timestamp.go", "			return time.Unix(timestamp, 0).UTC()", "			return time.Now().Add(time.Duration(timestamp)).UTC()")]},
 {"name": "c14-gettime-wrong-variable", "properties": ["C14"], "expect": "C14-a|",
  "edits": [e("util/timestamp/timestamp.go", 'os.Getenv("SOURCE_DATE_EPOCH")', 'os.Getenv("SOURCE_DATE")')]},
 {"name": "c14-start-in-volume-serial", "properties": ["C14"], "expect": "C14-c|",
  "edits": [e("filesystem/fat32/fat32.go", "		volumeSerialNumber:    volid,", "		volumeSerialNumber:    volid ^ uint32(start),")]},
 {"name": "c14-disk-drops-reproducible", "properties": ["C14"], "expect": "C14-d|",
  "edits": [e("disk/disk.go", "return fat16.Create(d.Backend, size, start, d.LogicalBlocksize, spec.VolumeLabel, spec.Reproducible)", "return fat16.Create(d.Backend, size, start, d.LogicalBlocksize, spec.VolumeLabel, false)")]},
 {"name": "c14-mbr-write-stamps-time", "properties": ["C14"], "expect": "C14-a|",
  "edits": [e("partition/mbr/table.go", "func (t *Table) Write(f backend.WritableFile, size int64) error {\n", "func (t *Table) Write(f backend.WritableFile, size int64) error {\n\tif time.Now().Unix()%2 == 0 {\n\t\tt.LogicalSectorSize = 512\n\t}\n"),
            e("partition/mbr/table.go", 'import (\n', 'import (\n\t"time"\n')]},
]

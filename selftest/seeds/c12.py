# Seeded semantic edits for C12 (recognition of filesystems and tables).
def e(file, find, replace, count=1):
    return {"file": file, "find": find, "replace": replace, "count": count}

SEEDS = [
 {"name": "c12-mbr-before-gpt", "properties": ["C12"], "expect": "C12-a|",
  "edits": [e("partition/partition.go", '''	gptTable, err := gpt.Read(f, logicalBlocksize, physicalBlocksize)
	if err == nil {
		return gptTable, nil
	}
	mbrTable, err := mbr.Read(f, logicalBlocksize, physicalBlocksize)
	if err == nil {
		return mbrTable, nil
	}''', '''	mbrTable, err := mbr.Read(f, logicalBlocksize, physicalBlocksize)
	if err == nil {
		return mbrTable, nil
	}
	gptTable, err := gpt.Read(f, logicalBlocksize, physicalBlocksize)
	if err == nil {
		return gptTable, nil
	}''')]},
 {"name": "c12-gpt-result-dropped", "properties": ["C12"], "expect": "C12-a|",
  "edits": [e("partition/partition.go", '''	if err == nil {
		return gptTable, nil
	}
	mbrTable, err := mbr.Read(''', '''	_ = gptTable
	mbrTable, err := mbr.Read(''')]},
 {"name": "c12-squashfs-probe-removed", "properties": ["C12"], "expect": "C12-b|",
  "edits": [e("disk/disk.go", '''	squashFS, err := squashfs.Read(d.Backend, size, start, d.LogicalBlocksize)
	if err == nil {
		return squashFS, nil
	}
''', '''	if squashFS, err := squashfs.Read(d.Backend, size, start, d.LogicalBlocksize); err == nil {
		_ = squashFS
	}
''')]},
 {"name": "c12-iso-probe-returns-on-error", "properties": ["C12"], "expect": "C12-b|",
  "edits": [e("disk/disk.go", '''	iso9660FS, err := iso9660.Read(d.Backend, size, start, pbs)
	if err == nil {
		return iso9660FS, nil
	}''', '''	iso9660FS, err := iso9660.Read(d.Backend, size, start, pbs)
	if iso9660FS != nil {
		return iso9660FS, nil
	}''')]},
 {"name": "c12-unknown-returns-last-probe", "properties": ["C12"], "expect": "C12-b|",
  "edits": [e("disk/disk.go", '''	log.Debugf("ext4 failed: %v", err)
	return nil, NewUnknownFilesystemError(partIndex)''', '''	log.Debugf("ext4 failed: %v", err)
	return ext4FS, nil''')]},
 {"name": "c12-squashfs-magic-unchecked", "properties": ["C12"], "expect": "C12-c|",
  "edits": [e("filesystem/squashfs/superblock.go", '''	if magic != superblockMagic {
		return nil, fmt.Errorf("superblock had magic of %d instead of expected %d", magic, superblockMagic)
	}''', '''	_ = magic''')]},
 {"name": "c12-ext4-signature-only-logged", "properties": ["C12"], "expect": "C12-c|",
  "edits": [e("filesystem/ext4/superblock.go", '''	if actualSignature != superblockSignature {
		return nil, fmt.Errorf("erroneous signature at location 0x38 was %x instead of expected %x", actualSignature, superblockSignature)
	}''', '''	if actualSignature != superblockSignature {
		fmt.Printf("erroneous signature at location 0x38 was %x instead of expected %x", actualSignature, superblockSignature)
	}''')]},
 {"name": "c12-fat12-bootsector-error-ignored", "properties": ["C12"], "expect": "C12-c|",
  "edits": [e("filesystem/fat12/fat12.go", '''	bs, err := msDosBootSectorFromBytes(raw)
	if err != nil {
		return nil, fmt.Errorf("not a FAT12/16 filesystem (boot sector parse failed): %w", err)
	}
''', '''	bs, err := msDosBootSectorFromBytes(raw)
	if err != nil && bs == nil {
		bs = &msDosBootSector{biosParameterBlock: &Dos40EBPB{}}
	}
''')]},
 {"name": "c12-iso-identifier-wrong-constant", "properties": ["C12"], "expect": "C12-c|",
  "edits": [e("filesystem/iso9660/volume_descriptor.go", "	isoIdentifier        uint64 = 0x4344303031 // string \"CD001\"", "	isoIdentifier        uint64 = 0x4344303032 // string \"CD002\"")]},
 {"name": "c12-fat16-read-threshold-off", "properties": ["C12"], "expect": "C12-d|",
  "edits": [e("filesystem/fat16/fat16.go", '''	if numClusters < 4085 {
		return nil, fmt.Errorf("not a FAT16 filesystem: cluster count %d < 4085", numClusters)''', '''	if numClusters < 4086 {
		return nil, fmt.Errorf("not a FAT16 filesystem: cluster count %d < 4085", numClusters)''')]},
 {"name": "c12-fat12-read-accepts-everything", "properties": ["C12"], "expect": "C12-d|",
  "edits": [e("filesystem/fat12/fat12.go", '''	if numClusters >= 4085 {
		return nil, fmt.Errorf("not a FAT12 filesystem: cluster count %d >= 4085", numClusters)
	}
''', '''	_ = numClusters
''')]},
]

# --- third session: stale signatures, stale GPT, FAT-area thresholds
SEEDS += [
 {"name": "c12-create-without-erasing-signatures", "properties": ["C12"], "expect": "C12-g|",
  "edits": [e("disk/disk.go", "		if err := d.eraseSignatures(start, size); err != nil {\n			return nil, err\n		}\n", "")]},
 {"name": "c12-erase-only-first-sector", "properties": ["C12"], "expect": "C12-g|",
  "edits": [e("disk/disk.go", "const signatureArea = 36 * 1024", "const signatureArea = 512")]},
 {"name": "c12-mbr-over-gpt-keeps-gpt-header", "properties": ["C12"], "expect": "C12-h|",
  "edits": [e("disk/disk.go", "	if err := d.eraseStaleGPT(table, rwBackingFile); err != nil {\n		return err\n	}\n", "")]},
]

# Seeded semantic edits for C10 (Read/Seek contract of file handles).
def e(file, find, replace, count=1):
    return {"file": file, "find": find, "replace": replace, "count": count}

SEEDS = [
 {"name": "c10-iso-seekend-subtracts", "properties": ["C10"], "expect": "C10-a|",
  "edits": [e("filesystem/iso9660/file.go", "		newOffset = int64(fl.size) + offset", "		newOffset = int64(fl.size) - offset")]},
 {"name": "c10-fat-arms-swapped", "properties": ["C10"], "expect": "C10-a|",
  "edits": [e("filesystem/fat12/file.go", '''	case io.SeekStart:
		newOffset = offset
	case io.SeekEnd:
		newOffset = int64(fl.fileSize) + offset
	case io.SeekCurrent:
		newOffset = fl.offset + offset''', '''	case io.SeekCurrent:
		newOffset = offset
	case io.SeekEnd:
		newOffset = int64(fl.fileSize) + offset
	case io.SeekStart:
		newOffset = fl.offset + offset''')]},
 {"name": "c10-ext4-seekend-from-cursor", "properties": ["C10"], "expect": "C10-a|",
  "edits": [e("filesystem/ext4/file.go", "		newOffset = int64(fl.size) + offset", "		newOffset = fl.offset + int64(fl.size) + offset")]},
 {"name": "c10-squashfs-negative-allowed", "properties": ["C10"], "expect": "C10-b|",
  "edits": [e("filesystem/squashfs/file.go", '''	if newOffset < 0 {
		return fl.offset, fmt.Errorf("cannot set offset %d before start of file", offset)
	}
	fl.offset = newOffset
	return fl.offset, nil
}

// Close close the file
func (fl *File) Close() error {
	fl.filesystem = nil''', '''	fl.offset = newOffset
	if newOffset < 0 {
		return fl.offset, fmt.Errorf("cannot set offset %d before start of file", offset)
	}
	return fl.offset, nil
}

// Close close the file
func (fl *File) Close() error {
	fl.filesystem = nil''')]},
 {"name": "c10-iso-read-no-closed-test", "properties": ["C10"], "expect": "C10-c|",
  "edits": [e("filesystem/iso9660/file.go", '''func (fl *File) Read(b []byte) (int, error) {
	if fl == nil || fl.closed {
		return 0, os.ErrClosed
	}''', '''func (fl *File) Read(b []byte) (int, error) {
	if fl == nil {
		return 0, os.ErrClosed
	}''')]},
 {"name": "c10-fat-close-keeps-handle", "properties": ["C10"], "expect": "C10-c|",
  "edits": [e("filesystem/fat12/file.go", '''func (fl *File) Close() error {
	fl.filesystem = nil
	return nil''', '''func (fl *File) Close() error {
	return nil''')]},
 {"name": "c10-ext4-guard-wrong-field", "properties": ["C10"], "expect": "C10-c|",
  "edits": [e("filesystem/ext4/file.go", '''func (fl *File) Close() error {
	*fl = File{}
	return nil''', '''func (fl *File) Close() error {
	fl.extents = nil
	return nil''')]},
 {"name": "c10-fat-main-loop-clamped-by-len", "properties": ["C10"], "expect": "C10-d|",
  "edits": [e("filesystem/fat12/file.go", "		left := maxRead - totalRead\n", "		left := len(b) - totalRead\n")]},
 {"name": "c10-iso-no-size-clamp", "properties": ["C10"], "expect": "C10-d|",
  "edits": [e("filesystem/iso9660/file.go", '''	if len(b) < maxRead {
		maxRead = len(b)
	}''', '''	maxRead = len(b)''')]},
 {"name": "c10-ext4-no-size-clamp", "properties": ["C10"], "expect": "C10-d|",
  "edits": [e("filesystem/ext4/file.go", '''	if fl.offset+bytesToRead > fileSize {
		bytesToRead = fileSize - fl.offset
	}
''', '')]},
 {"name": "c10-fat-partial-unclamped-again", "properties": ["C10"], "expect": "C10-d|",
  "edits": [e("filesystem/fat12/file.go", '''			if toRead > int64(maxRead) {
				toRead = int64(maxRead)
			}''', '''			if toRead > int64(len(b)) {
				toRead = int64(len(b))
			}''')]},
 {"name": "c10-iso-cursor-advances-by-len", "properties": ["C10"], "expect": "C10-e|",
  "edits": [e("filesystem/iso9660/file.go", "	fl.offset += int64(maxRead)\n", "	fl.offset += int64(len(b))\n")]},
 {"name": "c10-fat-eof-never", "properties": ["C10"], "expect": "C10-e|",
  "edits": [e("filesystem/fat12/file.go", '''	if fl.offset >= int64(fl.fileSize) {
		retErr = io.EOF
	}
	return totalRead, retErr''', '''	if totalRead == 0 {
		retErr = io.EOF
	}
	return totalRead, retErr'''), e("filesystem/fat12/file.go", '''	if size <= 0 {
		return totalRead, io.EOF
	}''', '''	if size <= 0 {
		return totalRead, nil
	}''')]},
 {"name": "c10-ext4-position-taken-before-extent-loop", "properties": ["C10"], "expect": "C10-f|",
  "edits": [e("filesystem/ext4/file.go", """	readStartBlock := uint64(fl.offset) / blocksize
	for _, e := range fl.extents {""", """	readStart := fl.offset
	readStartBlock := uint64(fl.offset) / blocksize
	for _, e := range fl.extents {"""),
            e("filesystem/ext4/file.go", """		startPositionInExtent := fl.offset - int64(e.fileBlock)*int64(blocksize)
		leftInExtent := extentSize - startPositionInExtent
		// how many bytes are left to read""", """		startPositionInExtent := readStart - int64(e.fileBlock)*int64(blocksize)
		leftInExtent := extentSize - startPositionInExtent
		// how many bytes are left to read""")]},
 {"name": "c10-refactor-ext4-position-from-start-plus-progress", "properties": ["C10"], "silent": True, "expect": "",
  "edits": [e("filesystem/ext4/file.go", """	readStartBlock := uint64(fl.offset) / blocksize
	for _, e := range fl.extents {""", """	readStart := fl.offset
	readStartBlock := uint64(fl.offset) / blocksize
	for _, e := range fl.extents {"""),
            e("filesystem/ext4/file.go", """		startPositionInExtent := fl.offset - int64(e.fileBlock)*int64(blocksize)
		leftInExtent := extentSize - startPositionInExtent
		// how many bytes are left to read""", """		startPositionInExtent := readStart + readBytes - int64(e.fileBlock)*int64(blocksize)
		leftInExtent := extentSize - startPositionInExtent
		// how many bytes are left to read""")]},
]

SEEDS += [
 {"name": "c10-fat-chain-test-before-eof", "properties": ["C10"], "expect": "C10-e|",
  "edits": [e("filesystem/fat12/file.go", """	clusterIndex := 0

	// if there is nothing left to read, just return EOF
	if size <= 0 {
		return totalRead, io.EOF
	}
""", """	clusterIndex := 0
	if int(fl.offset/int64(bytesPerCluster)) >= len(clusters) {
		return totalRead, fmt.Errorf("cursor beyond the cluster chain")
	}

	// if there is nothing left to read, just return EOF
	if size <= 0 {
		return totalRead, io.EOF
	}
""")]},
]

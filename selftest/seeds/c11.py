# Seeded semantic edits for C11 (read-only access never modifies the image).
def e(file, find, replace, count=1):
    return {"file": file, "find": find, "replace": replace, "count": count}

FAT12 = "filesystem/fat12/fat12.go"
SEEDS = [
 {"name": "c11-bypass-gate-by-assertion", "properties": ["C11"], "expect": "C11-a|",
  "edits": [e(FAT12, '''	writableFile, err := fs.backend.Writable()
	if err != nil {
		return err
	}
	if _, err := writableFile.WriteAt(fatBytes, int64(fs.fatPrimaryStart)+fs.start); err != nil {''',
  '''	writableFile, ok := fs.backend.(interface {
		WriteAt([]byte, int64) (int, error)
	})
	if !ok {
		return fmt.Errorf("not writable")
	}
	if _, err := writableFile.WriteAt(fatBytes, int64(fs.fatPrimaryStart)+fs.start); err != nil {''')]},
 {"name": "c11-gate-ignores-readonly", "properties": ["C11"], "expect": "C11-b|",
  "edits": [e("backend/file/file.go", '''		if !f.readOnly {
			return rwFile, nil
		}

		return nil, backend.ErrIncorrectOpenMode''', '''		return rwFile, nil''')]},
 {"name": "c11-readonly-maps-to-rdwr", "properties": ["C11"], "expect": "C11-c|",
  "edits": [e("diskfs.go", "	ReadOnly:           os.O_RDONLY,", "	ReadOnly:           os.O_RDWR,")]},
 {"name": "c11-open-always-writable", "properties": ["C11"], "expect": "C11-c|",
  "edits": [e("diskfs.go", "file.New(f, !writableMode(opt.mode))", "file.New(f, writableMode(opt.mode) && false)")]},
 {"name": "c11-writablemode-true", "properties": ["C11"], "expect": "C11-c|",
  "edits": [e("diskfs.go", "		if m&os.O_RDWR != 0 || m&os.O_WRONLY != 0 {", "		if m&os.O_RDWR != 0 || m&os.O_WRONLY != 0 || m&os.O_EXCL == 0 {")]},
 {"name": "c11-frompath-rdwr-always", "properties": ["C11"], "expect": "C11-c|",
  "edits": [e("backend/file/file.go", "	openMode := os.O_RDONLY\n", "	openMode := os.O_RDWR\n")]},
 {"name": "c11-frompath-forgets-flag", "properties": ["C11"], "expect": "C11-c|",
  "edits": [e("backend/file/file.go", '''	return rawBackend{
		storage:  f,
		readOnly: readOnly,
		path:     pathName,
	}, nil''', '''	return rawBackend{
		storage:  f,
		readOnly: false,
		path:     pathName,
	}, nil''')]},
 {"name": "c11-ignore-writable-error", "properties": ["C11"], "expect": "C11-d|",
  "edits": [e(FAT12, '''	writableFile, err := fs.backend.Writable()
	if err != nil {
		return err
	}
	if _, err := writableFile.WriteAt(fatBytes, int64(fs.fatPrimaryStart)+fs.start); err != nil {''',
  '''	writableFile, _ := fs.backend.Writable()
	if writableFile == nil {
		return nil
	}
	if _, err := writableFile.WriteAt(fatBytes, int64(fs.fatPrimaryStart)+fs.start); err != nil {''')]},
 {"name": "c11-squashfs-chmod-unguarded", "properties": ["C11"], "expect": "C11-e|",
  "edits": [e("filesystem/squashfs/squashfs.go", '''	if fs.workspace == "" {
		return filesystem.ErrReadonlyFilesystem
	}

	return os.Chmod(workspacePath(fs.workspace, name), mode)''', '''	return os.Chmod(workspacePath(fs.workspace, name), mode)''')]},
 {"name": "c11-iso-remove-unguarded", "properties": ["C11"], "expect": "C11-e|",
  "edits": [e("filesystem/iso9660/iso9660.go", '''	if fsm.workspace == "" {
		return filesystem.ErrReadonlyFilesystem
	}
	return os.Remove(path.Join(fsm.workspace, p))''', '''	return os.Remove(path.Join(fsm.workspace, p))''')]},
 {"name": "c11-iso-openfile-trunc-allowed", "properties": ["C11"], "expect": "C11-e|",
  "edits": [e("filesystem/iso9660/iso9660.go", "flag&os.O_CREATE != 0 || flag&os.O_TRUNC != 0 || flag&os.O_EXCL != 0", "flag&os.O_CREATE != 0 || flag&os.O_EXCL != 0")]},
 {"name": "c11-squashfs-mkdir-returns-nil", "properties": ["C11"], "expect": "C11-e|",
  "edits": [e("filesystem/squashfs/squashfs.go", '''	if fs.workspace == "" {
		return filesystem.ErrReadonlyFilesystem
	}
	err := os.MkdirAll(''', '''	if fs.workspace == "" {
		return nil
	}
	err := os.MkdirAll(''')]},
 {"name": "c11-iso-finalize-unguarded", "properties": ["C11"], "expect": "C11-e|",
  "edits": [e("filesystem/iso9660/finalize.go", '''	if fsm.workspace == "" {
		return fmt.Errorf("cannot finalize an already finalized filesystem")
	}
''', '')]},
 {"name": "c11-fat-readdir-flushes-fat", "properties": ["C11"], "expect": "C11-f|",
  "edits": [e(FAT12, '''	_, entries, err := fs.readDirWithMkdir(p, false)
	if err != nil {
		return nil, fmt.Errorf("error reading directory %s: %w", p, err)
	}
	ret := make([]iofs.DirEntry, 0, len(entries))''', '''	_, entries, err := fs.readDirWithMkdir(p, false)
	if err != nil {
		return nil, fmt.Errorf("error reading directory %s: %w", p, err)
	}
	_ = fs.WriteFat()
	ret := make([]iofs.DirEntry, 0, len(entries))''')]},
 {"name": "c11-fat-readdir-makes-dirs", "properties": ["C11"], "expect": "C11-f|",
  "edits": [e(FAT12, '''	_, entries, err := fs.readDirWithMkdir(p, false)
	if err != nil {
		return nil, fmt.Errorf("error reading directory %s: %w", p, err)
	}
	ret := make([]iofs.DirEntry, 0, len(entries))''', '''	_, entries, err := fs.readDirWithMkdir(p, true)
	if err != nil {
		return nil, fmt.Errorf("error reading directory %s: %w", p, err)
	}
	ret := make([]iofs.DirEntry, 0, len(entries))''')]},
 {"name": "c11-ext4-stat-writes-superblock", "properties": ["C11"], "expect": "C11-f|",
  "edits": [e("filesystem/ext4/ext4.go", '''	if entry == nil {
		return nil, fmt.Errorf("file does not exist: %s", p)
	}
	in, err := fs.readInode(entry.inode)
	if err != nil {
		return nil, fmt.Errorf("could not read inode %d in directory: %v", entry.inode, err)''', '''	if entry == nil {
		return nil, fmt.Errorf("file does not exist: %s", p)
	}
	_ = fs.writeSuperblock()
	in, err := fs.readInode(entry.inode)
	if err != nil {
		return nil, fmt.Errorf("could not read inode %d in directory: %v", entry.inode, err)''')]},
 {"name": "c11-squashfs-create-skips-gate", "properties": ["C11"], "expect": "C11-g|",
  "edits": [e("filesystem/squashfs/squashfs.go", '''	if _, err := b.Writable(); err != nil {
		return nil, err
	}

	// create a temporary working area''', '''	// create a temporary working area''')]},
 {"name": "c11-sys-file-written", "properties": ["C11"], "expect": "C11-a|",
  "edits": [e("disk/disk_unix.go", '''	osFile, err := d.Backend.Sys()''', '''	osFile, err := d.Backend.Sys()
	if err == nil {
		_, _ = osFile.WriteAt([]byte{0}, 0)
	}''')]},
]

# Seeded semantic edits for C01 (FAT reference model clauses) and C08 (FAT on-disk soundness clauses).
def e(file, find, replace, count=1):
    return {"file": file, "find": find, "replace": replace, "count": count}

F = "filesystem/fat12/fat12.go"
SEEDS = [
 {"name": "c01-remove-keeps-chain", "properties": ["C01", "C08"], "expect": "removed entry's chain is released",
  "edits": [e(F, '''	// the entry is gone from the directory: give its clusters back
	return fs.freeClusterChain(targetEntry.clusterLocation)''', '''	return nil''')]},
 {"name": "c01-remove-frees-parent-chain", "properties": ["C01", "C08"], "expect": "removed entry's chain is released",
  "edits": [e(F, '''	return fs.freeClusterChain(targetEntry.clusterLocation)''', '''	return fs.freeClusterChain(parentDir.clusterLocation)''')]},
 {"name": "c01-rename-over-keeps-chain", "properties": ["C01", "C08"], "expect": "replaced entry's chain is released",
  "edits": [e(F, '''	if replaced != nil {
		return fs.freeClusterChain(replaced.clusterLocation)
	}
	return nil''', '''	_ = replaced
	return nil''')]},
 {"name": "c01-truncate-keeps-chain", "properties": ["C01", "C08"], "expect": "truncated file's surplus chain is released",
  "edits": [e(F, '''			fs.table.SetCluster(cl, fs.table.UnusedMarker())
		}
	}

	if err := fs.WriteFat(); err != nil {''', '''			_ = cl
		}
	}

	if err := fs.WriteFat(); err != nil {''')]},
 {"name": "c01-write-size-not-persisted", "properties": ["C01"], "expect": "C01-b|",
  "edits": [e("filesystem/fat12/file.go", '''	// update the parent that we have changed the file size
	err = fs.writeDirectoryEntries(fl.parent)
	if err != nil {
		return 0, fmt.Errorf("error writing directory entries to disk: %v", err)
	}
''', '''	if oldSize == newSize {
		return totalWritten, nil
	}
	// update the parent that we have changed the file size
	err = fs.writeDirectoryEntries(fl.parent)
	if err != nil {
		return 0, fmt.Errorf("error writing directory entries to disk: %v", err)
	}
''')]},
 {"name": "c01-chtimes-not-persisted", "properties": ["C01"], "expect": "C01-b|",
  "edits": [e(F, '''	entry.accessTime = atime
	entry.modifyTime = mtime
	entry.createTime = ctime
	return fs.writeDirectoryEntries(parentDir)''', '''	entry.accessTime = atime
	entry.modifyTime = mtime
	entry.createTime = ctime
	if ctime.IsZero() {
		return nil
	}
	return fs.writeDirectoryEntries(parentDir)''')]},
 {"name": "c01-mkdir-parent-not-written", "properties": ["C01"], "expect": "C01-b|",
  "edits": [e(F, '''				if err = fs.writeDirectoryEntries(currentDir); err != nil {
					return nil, nil, fmt.Errorf("error writing directory entries: %w", err)
				}
''', '')]},
 {"name": "c01-nospace-after-link", "properties": ["C01"], "expect": "C01-c|",
  "edits": [e(F, '''		if len(allocated) < extraCount {
			return nil, errors.New("no space left on device")
		}
		lastAlloc := len(allocated) - 1
		if previous > 0 {
			fs.table.SetCluster(previous, allocated[0])
		}''', '''		if previous > 0 && len(allocated) > 0 {
			fs.table.SetCluster(previous, allocated[0])
		}
		if len(allocated) < extraCount {
			return nil, errors.New("no space left on device")
		}
		lastAlloc := len(allocated) - 1''')]},
 {"name": "c08-secondary-fat-fresh-buffer", "properties": ["C08"], "expect": "C08-a|",
  "edits": [e(F, '''	if _, err := writableFile.WriteAt(fatBytes, int64(fs.fatSecondaryStart)+fs.start); err != nil {''', '''	if _, err := writableFile.WriteAt(make([]byte, len(fatBytes)), int64(fs.fatSecondaryStart)+fs.start); err != nil {''')]},
 {"name": "c08-backup-boot-sector-stale", "properties": ["C08"], "expect": "C08-a|",
  "edits": [e("filesystem/fat32/fat32.go", '''		count, err = writableFile.WriteAt(b,
			int64(fs.bpbFat32.backupBootSector)*bps+fs.Start())''', '''		count, err = writableFile.WriteAt(b[:len(b):len(b)],
			int64(fs.bpbFat32.backupBootSector)*bps+fs.Start())''')]},
 {"name": "c08-shrink-returns-before-flush", "properties": ["C08"], "expect": "C08-b|",
  "edits": [e(F, '''			fs.table.SetCluster(cl, fs.table.UnusedMarker())
		}
	}
''', '''			fs.table.SetCluster(cl, fs.table.UnusedMarker())
		}
		return clusters[:lastAlloc+1], nil
	}
''')]},
 {"name": "c08-free-chain-no-flush", "properties": ["C08"], "expect": "C08-b|",
  "edits": [e(F, '''		fs.table.SetCluster(cl, fs.table.UnusedMarker())
	}
	return fs.WriteFat()''', '''		fs.table.SetCluster(cl, fs.table.UnusedMarker())
	}
	return nil''')]},
 {"name": "c08-fat32-read-forgets-fsinfo-hook", "properties": ["C08"], "expect": "C08-c|",
  "edits": [e("filesystem/fat32/fat32.go", '''	base.WriteBootSectorFn = fs.writeBootSector
	base.AfterWriteFAT = fs.writeFsis

	return fs, nil
}

// ── FAT32-specific internal helpers''', '''	base.WriteBootSectorFn = fs.writeBootSector

	return fs, nil
}

// ── FAT32-specific internal helpers''')]},
 {"name": "c08-writefat-skips-hook", "properties": ["C08"], "expect": "C08-c|",
  "edits": [e(F, '''	if fs.AfterWriteFAT != nil {
		return fs.AfterWriteFAT()
	}
	return nil
}''', '''	return nil
}''')]},
 {"name": "c08-last-cluster-zero", "properties": ["C08"], "expect": "C08-f|",
  "edits": [e(F, '''		fs.table.SetCluster(allocated[lastAlloc], fs.table.EOCMarker())
	} else {''', '''		fs.table.SetCluster(allocated[lastAlloc], 0)
	} else {''')]},
 {"name": "c08-last-cluster-unterminated", "properties": ["C08"], "expect": "C08-f|",
  "edits": [e(F, '''		fs.table.SetCluster(allocated[lastAlloc], fs.table.EOCMarker())
	} else {''', '''		if lastAlloc == 0 {
			fs.table.SetCluster(allocated[lastAlloc], fs.table.EOCMarker())
		}
	} else {''')]},
 {"name": "c08-fsinfo-free-count-written-at-last-allocated", "properties": ["C08"], "expect": "C08-e|",
  "edits": [e("filesystem/fat32/fsinfosector.go", "binary.LittleEndian.PutUint32(b[488:492], fsis.freeDataClustersCount)", "binary.LittleEndian.PutUint32(b[492:496], fsis.freeDataClustersCount)"),
            e("filesystem/fat32/fsinfosector.go", "binary.LittleEndian.PutUint32(b[492:496], fsis.lastAllocatedCluster)", "binary.LittleEndian.PutUint32(b[488:492], fsis.lastAllocatedCluster)")]},
 {"name": "c08-ebpb-backup-boot-sector-read-from-fsinfo-field", "properties": ["C08"], "expect": "C08-e|",
  "edits": [e("filesystem/fat32/dos71bpb.go", "bpb.backupBootSector = binary.LittleEndian.Uint16(b[39:41])", "bpb.backupBootSector = binary.LittleEndian.Uint16(b[37:39])")]},
 {"name": "c08-ebpb-root-cluster-written-big-endian", "properties": ["C08"], "expect": "C08-e|",
  "edits": [e("filesystem/fat32/dos71bpb.go", "binary.LittleEndian.PutUint32(b[33:37], bpb.rootDirectoryCluster)", "binary.BigEndian.PutUint32(b[33:37], bpb.rootDirectoryCluster)")]},
 {"name": "c01-dir-rewrite-stops-at-listing-end", "properties": ["C01"], "expect": "C01-e|",
  "edits": [e(F, """		bStart := i * fs.bytesPerCluster
		written, err := writableFile.WriteAt(b[bStart:bStart+fs.bytesPerCluster], clusterStart)""", """		bStart := i * fs.bytesPerCluster
		if bStart >= len(b) {
			break
		}
		written, err := writableFile.WriteAt(b[bStart:bStart+fs.bytesPerCluster], clusterStart)""")]},
 {"name": "c01-refactor-dir-rewrite-zeroes-unreached-clusters", "properties": ["C01"], "silent": True, "expect": "",
  "edits": [e(F, """		bStart := i * fs.bytesPerCluster
		written, err := writableFile.WriteAt(b[bStart:bStart+fs.bytesPerCluster], clusterStart)""", """		bStart := i * fs.bytesPerCluster
		if bStart >= len(b) {
			if _, err := writableFile.WriteAt(make([]byte, fs.bytesPerCluster), clusterStart); err != nil {
				return fmt.Errorf("error clearing directory cluster: %w", err)
			}
			continue
		}
		written, err := writableFile.WriteAt(b[bStart:bStart+fs.bytesPerCluster], clusterStart)""")]},
 {"name": "c01-scan-hint-not-rewound-on-free", "properties": ["C01"], "expect": "C01-d|",
  "edits": [e(F, """		for i := uint32(2); i < maxCluster && len(allocated) < extraCount; i++ {""", """		if fs.fatSecondaryStart == 0 {
			fs.fatSecondaryStart = 2
		}
		for i := uint32(fs.fatSecondaryStart >> 40) + 2; i < maxCluster && len(allocated) < extraCount; i++ {""")]},
]

# --- third session
SEEDS += [
 {"name": "c01-scan-starts-after-chain-end", "properties": ["C01"], "expect": "C01-d|",
  "edits": [e(F, "		for i := uint32(2); i < maxCluster && len(allocated) < extraCount; i++ {", "		for i := previous + 2; i < maxCluster && len(allocated) < extraCount; i++ {")]},
 {"name": "c08-refused-create-keeps-cluster", "properties": ["C08"], "expect": "C08-i|",
  "edits": [e(F, "			if ferr := fs.freeClusterChain(targetEntry.clusterLocation); ferr != nil {\n				return nil, fmt.Errorf(\"error writing directory file %s to disk: %w (releasing its cluster failed as well: %v)\", p, err, ferr)\n			}\n", "")]},
 {"name": "c08-fat12-bytes-reuses-buffer", "properties": ["C08"], "expect": "C08-h|",
  "edits": [e("filesystem/fat12/table.go", "func (t *fat12Table) Bytes() []byte {\n	b := make([]byte, t.size)", "var fat12Scratch []byte\n\nfunc (t *fat12Table) Bytes() []byte {\n	if uint32(len(fat12Scratch)) != t.size {\n		fat12Scratch = make([]byte, t.size)\n	}\n	b := fat12Scratch")]},
 {"name": "c08-fsinfo-offset-literal-512", "properties": ["C08"], "expect": "C08-g|",
  "edits": [e("filesystem/fat32/fat32.go", "	fsisPrimary := int64(bpb.fsInformationSector) * bps", "	fsisPrimary := int64(bpb.fsInformationSector) * 512")]},
]

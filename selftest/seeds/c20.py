# Seeded semantic edits for C20 (reference-made ext4 volumes): unsupported block-mapped inodes must fail, not crash.
def e(file, find, replace, count=1):
    return {"file": file, "find": find, "replace": replace, "count": count}

X = "filesystem/ext4/ext4.go"

SEEDS = [
 {"name": "c20-readdirectory-assumes-extent-tree", "properties": ["C20"], "expect": "C20-a|",
  "edits": [e(X, '''	if in.extents == nil {
		return nil, fmt.Errorf("directory inode %d has no extent tree, which is not supported", inodeNumber)
	}
''', '')]},
 {"name": "c20-slow-symlink-assumes-extent-tree", "properties": ["C20"], "expect": "C20-a|",
  "edits": [e(X, '''		if inode.extents == nil {
			return nil, fmt.Errorf("symlink inode %d has no extent tree, which is not supported", inodeNumber)
		}
''', '')]},
 {"name": "c20-openfile-guard-after-use", "properties": ["C20"], "expect": "C20-a|",
  "edits": [e(X, '''	if inode.extents == nil {
		return nil, fmt.Errorf("cannot open special file %s (inode %d): no extent tree", p, inodeNumber)
	}
''', '')]},
 {"name": "c20-refactor-guard-inverted-form", "properties": ["C20"], "silent": True, "expect": "",
  "edits": [e(X, '''	if in.extents == nil {
		return nil, fmt.Errorf("directory inode %d has no extent tree, which is not supported", inodeNumber)
	}
	extents, err := in.extents.blocks(fs)
	if err != nil {
		return nil, fmt.Errorf("unable to get blocks for inode %d: %w", in.number, err)
	}''', '''	var extents extents
	if in.extents != nil {
		extents, err = in.extents.blocks(fs)
		if err != nil {
			return nil, fmt.Errorf("unable to get blocks for inode %d: %w", in.number, err)
		}
	} else {
		return nil, fmt.Errorf("directory inode %d has no extent tree, which is not supported", inodeNumber)
	}''')]},
]

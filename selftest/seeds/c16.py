# Seeded semantic edits for C16 (CopyFileSystem / CompareFS).
def e(file, find, replace, count=1):
    return {"file": file, "find": find, "replace": replace, "count": count}

SEEDS = [
 {"name": "c16-mkdir-error-ignored", "properties": ["C16"], "expect": "C16-a|",
  "edits": [e("sync/copy.go", '''			if err := dst.Mkdir(p); err != nil {
				return fmt.Errorf("create dir %s: %w", p, err)
			}''', '''			_ = dst.Mkdir(p)''')]},
 {"name": "c16-write-error-ignored", "properties": ["C16"], "expect": "C16-a|",
  "edits": [e("sync/copy.go", '''		n, err := out.Write(data)
		if err != nil {
			return err
		}
		if n != len(data) {
			return io.ErrShortWrite
		}''', '''		if n, _ := out.Write(data); n != len(data) && n > 0 {
			return io.ErrShortWrite
		}''')]},
 {"name": "c16-subdir-copy-error-logged", "properties": ["C16"], "expect": "C16-a|",
  "edits": [e("sync/copy.go", '''			if err := copyDir(src, dst, p); err != nil {
				return fmt.Errorf("copy dir %s: %w", p, err)
			}''', '''			if err := copyDir(src, dst, p); err != nil {
				log.Printf("copy dir %s: %v", p, err)
			}''')]},
 {"name": "c16-size-mismatch-tolerated", "properties": ["C16"], "expect": "C16-b|",
  "edits": [e("sync/verify.go", '''		if od.Size() != td.Size() {
			return fmt.Errorf("size mismatch at %q", p)
		}''', '''		if od.Size() > td.Size() {
			return fmt.Errorf("size mismatch at %q", p)
		}''')]},
 {"name": "c16-kind-mismatch-skipped", "properties": ["C16"], "expect": "C16-b|",
  "edits": [e("sync/verify.go", '''		if d.IsDir() != td.IsDir() {
			return fmt.Errorf("type mismatch at %q", p)
		}
''', '')]},
 {"name": "c16-no-second-walk", "properties": ["C16"], "expect": "C16-",
  "edits": [e("sync/verify.go", '''		if _, ok := seen[p]; !ok {
			return fmt.Errorf("extra path %q in target FS", p)
		}
		return nil''', '''		return nil''')]},
 {"name": "c16-content-result-dropped", "properties": ["C16"], "expect": "C16-b|",
  "edits": [e("sync/verify.go", '''		// Compare file contents
		return compareFileContents(origFS, targetFS, p)''', '''		// Compare file contents
		_ = compareFileContents(origFS, targetFS, p)
		return nil''')]},
 {"name": "c16-compare-only-counts", "properties": ["C16"], "expect": "C16-b|",
  "edits": [e("sync/verify.go", '''		if na != nb || !bytes.Equal(bufA[:na], bufB[:nb]) {''', '''		if na != nb {''')]},
 {"name": "c16-compare-fixed-window", "properties": ["C16"], "expect": "C16-b|",
  "edits": [e("sync/verify.go", '''!bytes.Equal(bufA[:na], bufB[:nb])''', '''!bytes.Equal(bufA[:16], bufB[:16])''')]},
 {"name": "c16-second-walk-ignores-exclusions", "properties": ["C16"], "expect": "C16-c|",
  "edits": [e("sync/verify.go", '''		if excludedPaths[path.Base(p)] {
			if d.IsDir() {
				return fs.SkipDir
			}
			return nil
		}
		if _, ok := seen[p]; !ok {''', '''		if _, ok := seen[p]; !ok {''')]},
 {"name": "c16-copy-writes-fresh-buffer", "properties": ["C16"], "expect": "C16-d|",
  "edits": [e("sync/copy.go", '''		n, err := out.Write(data)''', '''		n, err := out.Write(make([]byte, len(data)))''')]},
 {"name": "c16-copy-skips-subdirs", "properties": ["C16"], "expect": "C16-d|",
  "edits": [e("sync/copy.go", '''			if err := copyDir(src, dst, p); err != nil {
				return fmt.Errorf("copy dir %s: %w", p, err)
			}
			continue''', '''			continue''')]},
 {"name": "c16-refactor-exclusion-helper", "properties": ["C16"], "silent": True, "expect": "",
  "edits": [e("sync/copy.go", "const maxCopyAllSize = 64 * 1024 * 1024", """// isExcluded reports whether an entry with this base name is skipped by the copy.
func isExcluded(name string) bool {
	return excludedPaths[name]
}

const maxCopyAllSize = 64 * 1024 * 1024"""),
            e("sync/copy.go", "		if excludedPaths[name] {", "		if isExcluded(name) {"),
            e("sync/verify.go", "		if excludedPaths[path.Base(p)] {", "		if isExcluded(path.Base(p)) {", 2)]},
 {"name": "c16-exclusion-helper-given-full-path", "properties": ["C16"], "expect": "C16-c|",
  "edits": [e("sync/copy.go", "const maxCopyAllSize = 64 * 1024 * 1024", """func isExcluded(name string) bool {
	return excludedPaths[name]
}

const maxCopyAllSize = 64 * 1024 * 1024"""),
            e("sync/copy.go", "		if excludedPaths[name] {", "		if isExcluded(name) {"),
            e("sync/verify.go", "		if excludedPaths[path.Base(p)] {", "		if isExcluded(p) {", 2)]},
 {"name": "c16-exclusion-suffix-match", "properties": ["C16"], "expect": "C16-c|",
  "edits": [e("sync/copy.go", "const maxCopyAllSize = 64 * 1024 * 1024", """func isExcluded(p string) bool {
	for name := range excludedPaths {
		if len(p) >= len(name) && p[len(p)-len(name):] == name {
			return true
		}
	}
	return false
}

const maxCopyAllSize = 64 * 1024 * 1024"""),
            e("sync/copy.go", "		if excludedPaths[name] {", "		if isExcluded(name) {")]},
 {"name": "c16-eof-chunk-dropped", "properties": ["C16"], "expect": "C16-d|",
  "edits": [e("sync/copy.go", """			n, rerr := in.Read(buf)
			if n > 0 {""", """			n, rerr := in.Read(buf)
			if n > 0 && rerr == nil {""")]},
 {"name": "c16-refactor-eof-test-after-write-loop", "properties": ["C16"], "silent": True, "expect": "",
  "edits": [e("sync/copy.go", """			n, rerr := in.Read(buf)
			if n > 0 {
				written := 0
				for written < n {""", """			n, rerr := in.Read(buf)
			{
				written := 0
				for written < n {""")]},
]

SEEDS += [
 {"name": "c16-equal-verdict-before-last-compare", "properties": ["C16"], "expect": "C16-e|",
  "edits": [e("sync/verify.go", """		if na != nb || !bytes.Equal(bufA[:na], bufB[:nb]) {
			return fmt.Errorf("content mismatch at %q", path.Clean(name))
		}

		if ea == io.EOF && eb == io.EOF {
			return nil
		}""", """		if ea == io.EOF && eb == io.EOF {
			return nil
		}
		if na != nb || !bytes.Equal(bufA[:na], bufB[:nb]) {
			return fmt.Errorf("content mismatch at %q", path.Clean(name))
		}
""")]},
]

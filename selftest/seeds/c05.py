# Seeded semantic edits for C04 (ext4 tree behaviour) and C05 (e2fsck cleanliness). Several re-introduce defects that were repaired.
def e(file, find, replace, count=1):
    return {"file": file, "find": find, "replace": replace, "count": count}

X = "filesystem/ext4/ext4.go"

SEEDS = [
 {"name": "c05-remove-inode-bit-off-by-one", "properties": ["C05", "C04"], "expect": "-c|",
  "edits": [e(X, "inodeInBG := int(entry.inode) - int(fs.superblock.inodesPerGroup)*inodeBG - 1", "inodeInBG := int(entry.inode) - int(fs.superblock.inodesPerGroup)*inodeBG")]},
 {"name": "c05-blockgroup-ignores-first-data-block", "properties": ["C05", "C04"], "expect": "-c|",
  "edits": [e(X, "return (blockNumber - int(firstDataBlock)) / int(blocksPerGroup)", "return (blockNumber - 1) / int(blocksPerGroup)")]},
 {"name": "c05-dealloc-index-without-first-data-block", "properties": ["C05", "C04"], "expect": "-c|",
  "edits": [e(X, "blockInGroup := block - (uint64(fs.superblock.firstDataBlock) + uint64(bg)*uint64(fs.superblock.blocksPerGroup))", "blockInGroup := block - uint64(bg)*uint64(fs.superblock.blocksPerGroup)")]},
 {"name": "c05-allocinode-index-without-minus-one", "properties": ["C05", "C04"], "expect": "-c|",
  "edits": [e(X, "inodeInBG := inodeNumber - int(fs.superblock.inodesPerGroup)*bg - 1", "inodeInBG := inodeNumber - int(fs.superblock.inodesPerGroup)*bg")]},
 {"name": "c05-remove-adds-inode-blocks-to-free-count", "properties": ["C05"], "expect": "C05-d|",
  "edits": [e(X, '''	fs.superblock.freeInodes++
	return fs.writeSuperblock()''', '''	fs.superblock.freeInodes++
	fs.superblock.freeBlocks += removedInode.blocks
	return fs.writeSuperblock()''')]},
 {"name": "c05-remove-leaves-inode-live", "properties": ["C05"], "expect": "C05-f|",
  "edits": [e(X, '''	removedInode.hardLinks = 0
	removedInode.deletionTime = uint32(time.Now().Unix())
''', '''	removedInode.accessTime = time.Now()
''')]},
 {"name": "c05-remove-marks-deleted-but-does-not-write", "properties": ["C05"], "expect": "C05-f|",
  "edits": [e(X, '''	if err := fs.writeInode(removedInode); err != nil {
		return fmt.Errorf("could not write deleted inode %d: %v", entry.inode, err)
	}
''', '')]},
 {"name": "c05-remove-no-gdt-flush-after-inode-release", "properties": ["C05"], "expect": "C05-a|",
  "edits": [e(X, '''	if err := fs.writeGDT(); err != nil {
		return fmt.Errorf("could not write GDT after inode deallocation: %v", err)
	}
''', '')]},
 {"name": "c05-allocinode-skips-superblock-write", "properties": ["C05"], "expect": "C05-a|",
  "edits": [e(X, '''	fs.superblock.freeInodes--
	if err := fs.writeSuperblock(); err != nil {
		return 0, err
	}
''', '''	fs.superblock.freeInodes--
''')]},
 {"name": "c05-incrgd-free-blocks-returns-before-flush", "properties": ["C05"], "expect": "C05-a|",
  "edits": [e(X, '''	case count > 0:
		gd.freeBlocks += uint32(count)
	case count < 0:''', '''	case count > 0:
		gd.freeBlocks += uint32(count)
		return nil
	case count < 0:''')]},
 {"name": "c05-alloc-fast-path-no-gd-update", "properties": ["C05"], "expect": "C05-a|",
  "edits": [e(X, '''				if err := fs.incrGDFreeBlocks(int(i), -int32(extentToAdd.count)); err != nil {
					return nil, fmt.Errorf("could not update free block count in GDT for block group %d: %v", i, err)
				}
				fs.superblock.freeBlocks -= extraBlockCount''', '''				fs.superblock.freeBlocks -= extraBlockCount''')]},
 {"name": "c05-setlabel-not-written", "properties": ["C05"], "expect": "C05-a|",
  "edits": [e(X, '''	fs.superblock.volumeLabel = label
	return fs.writeSuperblock()''', '''	fs.superblock.volumeLabel = label
	return nil''')]},
 {"name": "c05-inode-size-high-stored-after-checksum", "properties": ["C05"], "expect": "C05-b|",
  "edits": [e("filesystem/ext4/inode.go", '''	copy(b[0x6c:0x70], fileSize[4:8])
''', ''), e("filesystem/ext4/inode.go", '''	copy(b[0x82:0x84], checksum[2:4])
''', '''	copy(b[0x82:0x84], checksum[2:4])
	copy(b[0x6c:0x70], fileSize[4:8])
''')]},
 {"name": "c05-gd-flags-stored-after-checksum", "properties": ["C05"], "expect": "C05-b|",
  "edits": [e("filesystem/ext4/groupdescriptors.go", '''	binary.LittleEndian.PutUint16(b[0x12:0x14], gd.flags.toInt())
''', ''), e("filesystem/ext4/groupdescriptors.go", '''	binary.LittleEndian.PutUint16(b[0x1e:0x20], checksum)
''', '''	binary.LittleEndian.PutUint16(b[0x1e:0x20], checksum)
	binary.LittleEndian.PutUint16(b[0x12:0x14], gd.flags.toInt())
''')]},
 {"name": "c05-superblock-orphan-stored-after-checksum", "properties": ["C05"], "expect": "C05-b|",
  "edits": [e("filesystem/ext4/superblock.go", '''	binary.LittleEndian.PutUint32(b[0x280:0x284], sb.orphanedInodeInodeNumber)
''', ''), e("filesystem/ext4/superblock.go", '''		binary.LittleEndian.PutUint32(b[0x3fc:0x400], actualChecksum)
	}
''', '''		binary.LittleEndian.PutUint32(b[0x3fc:0x400], actualChecksum)
	}
	binary.LittleEndian.PutUint32(b[0x280:0x284], sb.orphanedInodeInodeNumber)
''')]},
 {"name": "c05-superblock-free-inodes-read-from-free-blocks", "properties": ["C05"], "expect": "C05-e|",
  "edits": [e("filesystem/ext4/superblock.go", "sb.freeInodes = binary.LittleEndian.Uint32(b[0x10:0x14])", "sb.freeInodes = binary.LittleEndian.Uint32(b[0xc:0x10])")]},
 {"name": "c05-gd-free-inodes-high-written-at-free-blocks-high", "properties": ["C05"], "expect": "C05-e|",
  "edits": [e("filesystem/ext4/groupdescriptors.go", "copy(b[0x2e:0x30], freeInodes[2:4])", "copy(b[0x2c:0x2e], freeInodes[2:4])"),
            e("filesystem/ext4/groupdescriptors.go", "copy(b[0x2c:0x2e], freeBlocks[2:4])", "copy(b[0x2e:0x30], freeBlocks[2:4])")]},
 {"name": "c04-chmod-not-written-back", "properties": ["C04"], "expect": "C04-a|",
  "edits": [e(X, '''	if mode&os.ModeSticky != 0 {
		inode.permissionsOther.special = true
	}

	return fs.writeInode(inode)''', '''	if mode&os.ModeSticky != 0 {
		inode.permissionsOther.special = true
	}

	return nil''')]},
 {"name": "c04-truncate-not-written-back", "properties": ["C04"], "expect": "C04-a|",
  "edits": [e(X, '''	// write the inode back
	return fs.writeInode(inode)''', '''	// write the inode back
	_ = inode
	return nil''')]},
 {"name": "c04-file-write-flush-only-on-size-change", "properties": ["C04"], "expect": "C04-a|",
  "edits": [e("filesystem/ext4/file.go", '''	if originalFileSize != int64(fl.size) || originalBlockCount != fl.blocks {
		err := fl.filesystem.writeInode(fl.inode)
		if err != nil {
			return 0, fmt.Errorf("could not write inode: %w", err)
		}
	}
''', '''	_, _ = originalFileSize, originalBlockCount
''')]},
 {"name": "c04-remove-assumes-extent-tree", "properties": ["C04"], "expect": "C04-d|",
  "edits": [e(X, '''	if removedInode.extents != nil {
		extents, err = removedInode.extents.blocks(fs)
		if err != nil {
			return fmt.Errorf("could not read extents for inode %d for %s: %v", entry.inode, p, err)
		}
	}''', '''	extents, err = removedInode.extents.blocks(fs)
	if err != nil {
		return fmt.Errorf("could not read extents for inode %d for %s: %v", entry.inode, p, err)
	}''')]},
 {"name": "c04-remove-stops-at-end-of-listing", "properties": ["C04"], "expect": "C04-e|",
  "edits": [e(X, '''				if _, err := writableFile.WriteAt(emptyBlock, fileOff); err != nil {
					return fmt.Errorf("could not write empty directory block: %w", err)
				}
				continue''', '''				_, _ = fileOff, emptyBlock
				break''')]},
 {"name": "c04-chown-touches-mode", "properties": ["C04"], "expect": "C04-b|",
  "edits": [e(X, '''	if uid != -1 {
		inode.owner = uint32(uid)
	}''', '''	if uid != -1 {
		inode.owner = uint32(uid)
		inode.permissionsOwner.special = false
	}''')]},
 {"name": "c04-read-processes-extent-ending-at-start-block", "properties": ["C04"], "expect": "C04-f|",
  "edits": [e("filesystem/ext4/file.go", "if uint64(e.fileBlock)+uint64(e.count) <= readStartBlock {", "if uint64(e.fileBlock)+uint64(e.count) < readStartBlock {")]},
 {"name": "c04-refactor-extent-skip-inverted", "properties": ["C04"], "silent": True, "expect": "",
  "edits": [e("filesystem/ext4/file.go", """		if uint64(e.fileBlock)+uint64(e.count) <= writeStartBlock {
			continue
		}""", """		if extentEnd := uint64(e.fileBlock) + uint64(e.count); !(extentEnd > writeStartBlock) {
			continue
		}""")]},
 {"name": "c05-writedirectory-size-from-listing-only", "properties": ["C05"], "expect": "C05-g|",
  "edits": [e(X, """	if allocatedBlocks := int(extents.blockCount()); allocatedBlocks > requiredBlocks {
		emptyBlock := fs.emptyDirectoryBlock(parentInode.number, parentInode.nfsFileVersion)
		for i := requiredBlocks; i < allocatedBlocks; i++ {
			dirBytes = append(dirBytes, emptyBlock...)
		}
		requiredBlocks = allocatedBlocks
	}
""", "")]},
 {"name": "c05-fast-symlink-limit-inclusive-in-symlink", "properties": ["C05"], "expect": "C05-h|",
  "edits": [e(X, "	if len(oldpath) >= 60 {", "	if len(oldpath) > 60 {", 2)]},
 {"name": "c05-fast-symlink-limit-inclusive-in-decoder", "properties": ["C05"], "expect": "C05-h|",
  "edits": [e("filesystem/ext4/inode.go", "if fileType == fileTypeSymbolicLink && fileSizeNum < 60 {", "if fileType == fileTypeSymbolicLink && fileSizeNum <= 60 {")]},
 {"name": "c05-refactor-symlink-limit-named-constant", "properties": ["C05"], "silent": True, "expect": "",
  "edits": [e(X, "	if len(oldpath) >= 60 {", "	if len(oldpath) > 59 {", 2)]},
 {"name": "c04-new-extent-fileblock-from-request-only", "properties": ["C04"], "expect": "C04-h|",
  "edits": [e(X, "			extentToAdd.fileBlock = uint32(allocated)", "			extentToAdd.fileBlock = uint32(newBlocks - extraBlockCount)")]},
]

# --- third session
SEEDS += [
 {"name": "c05-inode-table-blocks-floor", "properties": ["C05"], "expect": "C05-j|",
  "edits": [e(X, "	inodeTableBlocks := (uint64(inodesPerGroup)*uint64(sb.inodeSize) + uint64(sb.blockSize) - 1) / uint64(sb.blockSize)", "	inodeTableBlocks := uint64(inodesPerGroup) * uint64(sb.inodeSize) / uint64(sb.blockSize)")]},
 {"name": "c05-bitmap-written-after-descriptor-flush", "properties": ["C05"], "expect": "C05-a|",
  "edits": [e(X, "		if err := fs.writeBlockBitmap(bs, bg); err != nil {\n			return nil, fmt.Errorf(\"could not write block bitmap for block group %d: %v\", bg, err)\n		}\n		if err := fs.incrGDFreeBlocks(bg, gdBlockDelta[bg]); err != nil {\n			return nil, fmt.Errorf(\"could not update free block count in GDT for block group %d: %v\", bg, err)\n		}\n", "		if err := fs.incrGDFreeBlocks(bg, gdBlockDelta[bg]); err != nil {\n			return nil, fmt.Errorf(\"could not update free block count in GDT for block group %d: %v\", bg, err)\n		}\n		if err := fs.writeBlockBitmap(bs, bg); err != nil {\n			return nil, fmt.Errorf(\"could not write block bitmap for block group %d: %v\", bg, err)\n		}\n")]},
 {"name": "c04-symlink-inline-limit-inclusive", "properties": ["C04", "C20", "C05"], "expect": "symlink target is kept in the inode",
  "edits": [e("filesystem/ext4/inode.go", "	if fileType == fileTypeSymbolicLink && fileSizeNum < 60 {", "	if fileType == fileTypeSymbolicLink && fileSizeNum <= 60 {")]},
]

# Seeded semantic edits for C03 (writes stay inside the given range) and C13 (partition streaming).
def e(file, find, replace, count=1):
    return {"file": file, "find": find, "replace": replace, "count": count}

SEEDS = [
 {"name": "c03-fat-write-drops-start", "properties": ["C03"], "expect": "C03-a|",
  "edits": [e("filesystem/fat12/file.go", "		_, err := writableFile.WriteAt(p[totalWritten:totalWritten+toWrite], offset+fs.start)", "		_, err := writableFile.WriteAt(p[totalWritten:totalWritten+toWrite], offset)")]},
 {"name": "c03-fat-dir-start-twice", "properties": ["C03"], "expect": "C03-a|",
  "edits": [e("filesystem/fat12/fat12.go", "		written, err := writableFile.WriteAt(b[bStart:bStart+fs.bytesPerCluster], clusterStart)", "		written, err := writableFile.WriteAt(b[bStart:bStart+fs.bytesPerCluster], clusterStart+fs.start)")]},
 {"name": "c03-fat32-backup-boot-no-start", "properties": ["C03"], "expect": "C03-a|",
  "edits": [e("filesystem/fat32/fat32.go", "	count, err := writableFile.WriteAt(b, fs.Start())", "	count, err := writableFile.WriteAt(b, 0)")]},
 {"name": "c03-ext4-reads-raw-backend", "properties": ["C03"], "expect": "C03-a|",
  "edits": [e("filesystem/ext4/ext4.go", "	n, err := fsBackend.ReadAt(bs, 0)", "	n, err := b.ReadAt(bs, 0)")]},
 {"name": "c03-ext4-keeps-raw-backend", "properties": ["C03"], "expect": "C03-a|",
  "edits": [e("filesystem/ext4/ext4.go", "		backend:           fsBackend,", "		backend:           b,", count=2)]},
 {"name": "c03-squashfs-wrap-inverted", "properties": ["C03"], "expect": "C03-a|",
  "edits": [e("filesystem/squashfs/squashfs.go", '''	if start != 0 {
		b = backend.Sub(b, start, size)
	}

	// create root directory''', '''	if start == 0 {
		b = backend.Sub(b, start, size)
	}

	// create root directory''')]},
 {"name": "c03-iso-unwrapped-again", "properties": ["C03", "C06"], "expect": "-a|",
  "edits": [e("filesystem/iso9660/iso9660.go", '''	if start != 0 {
		b = backend.Sub(b, start, size)
	}

	var workdir string''', '''	var workdir string''')]},
 {"name": "c03-mbr-table-at-zero", "properties": ["C03"], "expect": "C03-b|",
  "edits": [e("partition/mbr/table.go", "	written, err := f.WriteAt(b, partitionEntriesStart)", "	full := make([]byte, partitionEntriesStart, mbrSize)\n	b = append(full, b...)\n	written, err := f.WriteAt(b, 0)")]},
 {"name": "c03-gpt-protective-mbr-full-sector", "properties": ["C03"], "expect": "C03-b|",
  "edits": [e("partition/gpt/table.go", '''		protectiveMBR := fullMBR[mbrPartitionEntriesStart:]
		if err := writeAtWithSync(protectiveMBR, mbrPartitionEntriesStart, "protective MBR"); err != nil {''', '''		protectiveMBR := fullMBR
		if err := writeAtWithSync(protectiveMBR, 0, "protective MBR"); err != nil {''')]},
 {"name": "c03-gpt-write-bound-after-write", "properties": ["C03", "C13"], "expect": "size test dominates",
  "edits": [e("partition/gpt/partition.go", '''		tmpTotal := uint64(read) + total
		if tmpTotal > p.Size {
			return total, fmt.Errorf("requested to write at least %d bytes to partition but maximum size is %d", tmpTotal, p.Size)
		}
''', ''), e("partition/gpt/partition.go", '''			total += uint64(written)
		}
		// increment our total''', '''			total += uint64(written)
		}
		if total > p.Size {
			return total, fmt.Errorf("requested to write at least %d bytes to partition but maximum size is %d", total, p.Size)
		}
		// increment our total''')]},
 {"name": "c03-mbr-write-offset-no-total", "properties": ["C03", "C13"], "expect": "offset = partition start",
  "edits": [e("partition/mbr/partition.go", "			written, err = f.WriteAt(b[:read], int64(start)+int64(total))", "			written, err = f.WriteAt(b[:read], int64(start))")]},
 {"name": "c03-sub-readat-no-offset", "properties": ["C03"], "expect": "C03-e|",
  "edits": [e("backend/substorage.go", "	return sw.underlying.WriteAt(p, sw.offset+off)", "	return sw.underlying.WriteAt(p, off)")]},
 {"name": "c03-sub-swaps-args", "properties": ["C03"], "expect": "C03-e|",
  "edits": [e("backend/substorage.go", '''		offset:     offset,
		size:       size,
		path:       u.Path(),''', '''		offset:     size,
		size:       offset,
		path:       u.Path(),''')]},
 {"name": "c13-mbr-uint32-again", "properties": ["C13"], "expect": "C13-a|",
  "edits": [e("partition/mbr/partition.go", '''	start := uint64(p.Start) * uint64(lss)
	size := uint64(p.Size) * uint64(lss)''', '''	start := p.Start * uint32(lss)
	size := p.Size * uint32(lss)''', count=2)]},
 {"name": "c13-gpt-getstart-int32", "properties": ["C13"], "expect": "C13-a|",
  "edits": [e("partition/gpt/partition.go", "	return int64(p.Start) * int64(lss)", "	return int64(uint32(p.Start) * uint32(lss))")]},
 {"name": "c13-gpt-read-unclamped", "properties": ["C13"], "expect": "C13-c|",
  "edits": [e("partition/gpt/partition.go", '''		if remaining := size - total; size > 0 && int64(read) > remaining {
			read = int(remaining)
		}
''', '')]},
 {"name": "c13-incomplete-write-succeeds", "properties": ["C13"], "expect": "C13-b|",
  "edits": [e("partition/mbr/partition.go", '''	if total != uint64(size) {
		return total, part.NewIncompletePartitionWriteError(total, uint64(size))
	}''', '''	if total > uint64(size) {
		return total, part.NewIncompletePartitionWriteError(total, uint64(size))
	}''')]},
 {"name": "c13-verify-ignores-mismatch", "properties": ["C13"], "expect": "C13-e|",
  "edits": [e("sync/verify.go", "	if !bytes.Equal(origResult, targetResult) {", "	if !bytes.Equal(origResult, targetResult) && false {")]},
 {"name": "c13-copy-ignores-verify", "properties": ["C13"], "expect": "C13-e|",
  "edits": [e("sync/copy.go", '''	if err := verifyBlockCopy(d, from, to, readData.count); err != nil {
		return fmt.Errorf("verification failed for partition %d: %v", from, err)
	}''', '''	if err := verifyBlockCopy(d, from, to, readData.count); err != nil {
		log.Printf("verification failed for partition %d: %v", from, err)
	}''')]},
 {"name": "c13-verify-compares-whole-chunks-only", "properties": ["C13"], "expect": "C13-e|",
  "edits": [e("sync/verify.go", """	if got := targetPart.GetSize(); got < expectedSize {""", """	if expectedSize/4096 == 0 {
		return nil
	}
	if got := targetPart.GetSize(); got < expectedSize {""")]},
 {"name": "c13-refactor-verify-chunk-count-rounded-up", "properties": ["C13"], "silent": True, "expect": "",
  "edits": [e("sync/verify.go", """	if got := targetPart.GetSize(); got < expectedSize {""", """	if (expectedSize+4096-1)/4096 == 0 {
		return nil
	}
	if got := targetPart.GetSize(); got < expectedSize {""")]},
 {"name": "c13-refactor-mbr-sector-maths-through-getters", "properties": ["C13", "C02"], "silent": True, "expect": "",
  "edits": [e("partition/mbr/partition.go", """func (p *Partition) GetSize() int64 {
	_, lss := p.sectorSizes()
	return int64(p.Size) * int64(lss)
}
func (p *Partition) GetStart() int64 {
	_, lss := p.sectorSizes()
	return int64(p.Start) * int64(lss)
}""", """func (p *Partition) GetSize() int64 {
	return p.sectorsToBytes(p.Size)
}
func (p *Partition) GetStart() int64 {
	return p.sectorsToBytes(p.Start)
}

// sectorsToBytes converts a count of logical sectors, as stored in the partition entry, to bytes
func (p *Partition) sectorsToBytes(sectors uint32) int64 {
	_, lss := p.sectorSizes()
	return int64(sectors) * int64(lss)
}"""),
            e("partition/mbr/partition.go", """	start := uint64(p.Start) * uint64(lss)
	size := uint64(p.Size) * uint64(lss)
""", """	_ = lss
	start := uint64(p.GetStart())
	size := uint64(p.GetSize())
""", 2)]},
 {"name": "c13-mbr-sector-maths-helper-wraps", "properties": ["C13", "C02"], "expect": "|(*mbr.Partition).Get",
  "edits": [e("partition/mbr/partition.go", """func (p *Partition) GetSize() int64 {
	_, lss := p.sectorSizes()
	return int64(p.Size) * int64(lss)
}
func (p *Partition) GetStart() int64 {
	_, lss := p.sectorSizes()
	return int64(p.Start) * int64(lss)
}""", """func (p *Partition) GetSize() int64 {
	return p.sectorsToBytes(p.Size)
}
func (p *Partition) GetStart() int64 {
	return p.sectorsToBytes(p.Start)
}

func (p *Partition) sectorsToBytes(sectors uint32) int64 {
	_, lss := p.sectorSizes()
	return int64(sectors * uint32(lss))
}"""),
            e("partition/mbr/partition.go", """	start := uint64(p.Start) * uint64(lss)
	size := uint64(p.Size) * uint64(lss)
""", """	_ = lss
	start := uint64(p.GetStart())
	size := uint64(p.GetSize())
""", 2)]},
]

# --- third session
SEEDS += [
 {"name": "c13-mbr-bound-compared-in-sectors", "properties": ["C13", "C03"], "expect": "|size test dominates WriteAt",
  "edits": [e("partition/mbr/partition.go", "		if tmpTotal > uint64(size) {", "		if tmpTotal/uint64(lss) > uint64(p.Size) {")]},
 {"name": "c13-gpt-zero-chunk-counted-not-written", "properties": ["C13"], "expect": "C13-b|",
  "edits": [e("partition/gpt/partition.go", "		if read > 0 {\n			var written int", "		if read > 0 && b[0] == 0 && b[read-1] == 0 {\n			total += uint64(read)\n		} else if read > 0 {\n			var written int")]},
]

# Seeded semantic edits for C02 (GPT/MBR table round trip): layout, CRC discipline.
def e(file, find, replace, count=1):
    return {"file": file, "find": find, "replace": replace, "count": count}

SEEDS = [
 {"name": "c02-gpt-header-first-last-swapped-in-writer", "properties": ["C02"], "expect": "C02-a|",
  "edits": [e("partition/gpt/table.go", '''	binary.LittleEndian.PutUint64(b[40:48], t.firstDataSector)
	binary.LittleEndian.PutUint64(b[48:56], t.lastDataSector)''', '''	binary.LittleEndian.PutUint64(b[48:56], t.firstDataSector)
	binary.LittleEndian.PutUint64(b[40:48], t.lastDataSector)''')]},
 {"name": "c02-gpt-entry-attributes-big-endian-in-reader", "properties": ["C02"], "expect": "C02-a|",
  "edits": [e("partition/gpt/partition.go", "attribs := binary.LittleEndian.Uint64(b[48:56])", "attribs := binary.BigEndian.Uint64(b[48:56])")]},
 {"name": "c02-gpt-entry-end-offset-shifted", "properties": ["C02"], "expect": "C02-a|",
  "edits": [e("partition/gpt/partition.go", "lastLBA := binary.LittleEndian.Uint64(b[40:48])", "lastLBA := binary.LittleEndian.Uint64(b[32:40])")]},
 {"name": "c02-mbr-size-read-from-start-field", "properties": ["C02"], "expect": "C02-a|",
  "edits": [e("partition/mbr/partition.go", "Size:               binary.LittleEndian.Uint32(b[12:16]),", "Size:               binary.LittleEndian.Uint32(b[8:12]),")]},
 {"name": "c02-mbr-start-big-endian-in-writer", "properties": ["C02"], "expect": "C02-a|",
  "edits": [e("partition/mbr/partition.go", "binary.LittleEndian.PutUint32(b[8:12], p.Start)", "binary.BigEndian.PutUint32(b[8:12], p.Start)")]},
 {"name": "c02-gpt-header-crc-short-range-in-writer", "properties": ["C02"], "expect": "C02-b|",
  "edits": [e("partition/gpt/table.go", '''	checksum = crc32.ChecksumIEEE(b[0:92])
	binary.LittleEndian.PutUint32(b[16:20], checksum)''', '''	checksum = crc32.ChecksumIEEE(b[0:88])
	binary.LittleEndian.PutUint32(b[16:20], checksum)''')]},
 {"name": "c02-gpt-header-crc-before-array-crc", "properties": ["C02"], "expect": "C02-b|",
  "edits": [e("partition/gpt/table.go", '''	checksum := crc32.ChecksumIEEE(bpart)
	binary.LittleEndian.PutUint32(b[88:92], checksum)

	// calculate checksum of entire header and place 4 bytes of offset 16 = 0x10
	checksum = crc32.ChecksumIEEE(b[0:92])
	binary.LittleEndian.PutUint32(b[16:20], checksum)''', '''	checksum := crc32.ChecksumIEEE(b[0:92])
	binary.LittleEndian.PutUint32(b[16:20], checksum)
	checksum = crc32.ChecksumIEEE(bpart)
	binary.LittleEndian.PutUint32(b[88:92], checksum)''')]},
 {"name": "c02-gpt-reader-verifies-short-range", "properties": ["C02"], "expect": "C02-b|",
  "edits": [e("partition/gpt/table.go", "checksum := crc32.ChecksumIEEE(gpt[0:92])", "checksum := crc32.ChecksumIEEE(gpt[0:88])")]},
 {"name": "c02-drawn-guid-not-kept", "properties": ["C02"], "expect": "C02-f|",
  "edits": [e("partition/gpt/table.go", """		guid, _ = uuid.NewRandom()
		t.GUID = guid.String()
	} else {""", """		guid, _ = uuid.NewRandom()
	} else {""")]},
 {"name": "c02-name-rune-converted-to-uint16", "properties": ["C02"], "expect": "C02-g|",
  "edits": [e("partition/gpt/partition.go", "	nameb := utf16.Encode(r)", """	nameb := make([]uint16, len(r))
	for i, c := range r {
		nameb[i] = uint16(c)
	}""")]},
]

SEEDS += [
 {"name": "c02-name-limit-counts-runes", "properties": ["C02"], "expect": "C02-g|",
  "edits": [e("partition/gpt/partition.go", "	if len(nameb) > 36 {", "	if len(r) > 36 {")]},
 {"name": "c02-protective-signature-at-sector-end", "properties": ["C02"], "expect": "C02-h|",
  "edits": [e("partition/gpt/table.go", "	if !bytes.Equal(b[510:512], getMbrSignature()) {", "	if !bytes.Equal(b[size-2:], getMbrSignature()) {")]},
]

# Seeded semantic edits for C15 (robust partition-table reading).
def e(file, find, replace, count=1):
    return {"file": file, "find": find, "replace": replace, "count": count}

T = "partition/gpt/table.go"
SEEDS = [
 {"name": "c15-entry-count-unbounded", "properties": ["C15"], "expect": "C15-b|",
  "edits": [e(T, '''	if partitionEntryCount > maxPartitionEntries {
		return nil, fmt.Errorf("EFI partition entry count %d exceeds the supported maximum of %d", partitionEntryCount, maxPartitionEntries)
	}
''', '')]},
 {"name": "c15-entry-size-unchecked", "properties": ["C15"], "expect": "C15-b|",
  "edits": [e(T, '''	if partitionEntrySize != PartitionEntrySize {
		return nil, fmt.Errorf("unsupported EFI partition entry size %d, expected %d", partitionEntrySize, PartitionEntrySize)
	}
''', '')]},
 {"name": "c15-entry-size-checked-too-weakly", "properties": ["C15"], "expect": "C15-b|",
  "edits": [e(T, '''	if partitionEntrySize != PartitionEntrySize {''', '''	if partitionEntrySize%PartitionEntrySize != 0 {''')]},
 {"name": "c15-bound-compared-with-device-value", "properties": ["C15"], "expect": "C15-b|",
  "edits": [e(T, '''	if partitionEntryCount > maxPartitionEntries {''', '''	if uint64(partitionEntryCount) > lastDataSector {''')]},
 {"name": "c15-mbr-slot-index-from-device", "properties": ["C15"], "expect": "C15-b|",
  "edits": [e("partition/mbr/table.go", '''	count := int(partitionEntriesCount)''', '''	count := int(partitionEntriesCount) + int(b[445])''')]},
 {"name": "c15-sector-size-divides", "properties": ["C15"], "expect": "C15-b|",
  "edits": [e(T, '''	partitionEntryChecksum := binary.LittleEndian.Uint32(gpt[88:92])
''', '''	partitionEntryChecksum := binary.LittleEndian.Uint32(gpt[88:92])
	if lastDataSector%uint64(partitionEntrySize) == 7 {
		return nil, fmt.Errorf("misaligned last data sector")
	}
''')]},
]

# --- third session
SEEDS += [
 {"name": "c15-mbr-entry-error-ignored-for-empty-slot", "properties": ["C15"], "expect": "C15-d|",
  "edits": [e("partition/mbr/table.go", "		p, err := partitionFromBytes(i+1, b[start:end], logicalSectorSize, physicalSectorSize)\n		if err != nil {", "		p, err := partitionFromBytes(i+1, b[start:end], logicalSectorSize, physicalSectorSize)\n		if err != nil && b[start+4] != 0 {")]},
 {"name": "c15-gpt-array-bound-on-wrapping-product", "properties": ["C15"], "expect": "C15-b|",
  "edits": [e("partition/gpt/table.go", "	if partitionEntryCount > maxPartitionEntries {", "	if partitionEntryCount*partitionEntrySize > maxPartitionEntries*PartitionEntrySize {")]},
]

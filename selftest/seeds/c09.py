# Seeded semantic edits for C09 (GPT crash atomicity). Each compiles; the named rule must fire.
T = "partition/gpt/table.go"

def e(find, replace, file=T, count=1):
    return {"file": file, "find": find, "replace": replace, "count": count}

SEEDS = [
 {"name": "c09-swap-bh-pa", "properties": ["C09"], "expect": "C09-b|",
  "edits": [e('''	if err := writeAtWithSync(secondaryHeaderBytes, secondaryHeaderOff, "secondary GPT header"); err != nil {
		return err
	}
''', ''), e('''	if err := writeAtWithSync(primaryHeaderBytes, primaryHeaderOff, "primary GPT header"); err != nil {
		return err
	}
''', '''	if err := writeAtWithSync(secondaryHeaderBytes, secondaryHeaderOff, "secondary GPT header"); err != nil {
		return err
	}
	if err := writeAtWithSync(primaryHeaderBytes, primaryHeaderOff, "primary GPT header"); err != nil {
		return err
	}
''')]},
 {"name": "c09-primary-first", "properties": ["C09"], "expect": "C09-b|",
  "edits": [e('''	if err := writeAtWithSync(partitionArray, primaryArrayOff, "primary partition array"); err != nil {
		return err
	}
''', ''), e('''	if err := writeAtWithSync(partitionArray, secondaryArrayOff, "secondary partition array"); err != nil {''',
 '''	if err := writeAtWithSync(partitionArray, primaryArrayOff, "primary partition array"); err != nil {
		return err
	}
	if err := writeAtWithSync(partitionArray, secondaryArrayOff, "secondary partition array"); err != nil {''')]},
 {"name": "c09-drop-sync", "properties": ["C09"], "expect": "C09-c|",
  "edits": [e('''		if err := syncWritable(f); err != nil {
			return fmt.Errorf("error syncing %s to disk: %v", what, err)
		}
''', '')]},
 {"name": "c09-ignore-sync-error", "properties": ["C09"], "expect": "C09-c|",
  "edits": [e('''		if err := syncWritable(f); err != nil {
			return fmt.Errorf("error syncing %s to disk: %v", what, err)
		}
''', '''		_ = syncWritable(f)
''')]},
 {"name": "c09-sync-only-headers", "properties": ["C09"], "expect": "C09-c|",
  "edits": [e('''		if err := syncWritable(f); err != nil {
			return fmt.Errorf("error syncing %s to disk: %v", what, err)
		}
''', '''		if len(buf) <= t.LogicalSectorSize {
			if err := syncWritable(f); err != nil {
				return fmt.Errorf("error syncing %s to disk: %v", what, err)
			}
		}
''')]},
 {"name": "c09-ignore-write-error", "properties": ["C09"], "expect": "C09-e|",
  "edits": [e('''		n, err := f.WriteAt(buf, off)
		if err != nil {
			return fmt.Errorf("error writing %s to disk: %v", what, err)
		}
''', '''		n, _ := f.WriteAt(buf, off)
''')]},
 {"name": "c09-skip-backup-when-no-mbr", "properties": ["C09"], "expect": "C09-b|",
  "edits": [e('''	if err := writeAtWithSync(partitionArray, secondaryArrayOff, "secondary partition array"); err != nil {
		return err
	}
	if err := writeAtWithSync(secondaryHeaderBytes, secondaryHeaderOff, "secondary GPT header"); err != nil {
		return err
	}
''', '''	if t.ProtectiveMBR {
		if err := writeAtWithSync(partitionArray, secondaryArrayOff, "secondary partition array"); err != nil {
			return err
		}
		if err := writeAtWithSync(secondaryHeaderBytes, secondaryHeaderOff, "secondary GPT header"); err != nil {
			return err
		}
	}
''')]},
 {"name": "c09-header-bytes-crossed", "properties": ["C09"], "expect": "C09-a|",
  "edits": [e('writeAtWithSync(secondaryHeaderBytes, secondaryHeaderOff,', 'writeAtWithSync(primaryHeaderBytes, secondaryHeaderOff,'),
            e('writeAtWithSync(primaryHeaderBytes, primaryHeaderOff,', 'writeAtWithSync(secondaryHeaderBytes, primaryHeaderOff,')]},
 {"name": "c09-array-offsets-same", "properties": ["C09"], "expect": "C09-",
  "edits": [e('secondaryArrayOff := sectorBytes * int64(t.partitionArraySector(false))', 'secondaryArrayOff := sectorBytes * int64(t.partitionArraySector(true))')]},
 {"name": "c09-no-entries-crc", "properties": ["C09", "C15"], "expect": "crc compared",
  "edits": [e('''	if gptTable.partitionEntryChecksum != checksum {
		return nil, &primaryContentError{fmt.Errorf("invalid EFI Partition Entry Checksum, expected %v, got %v", checksum, gptTable.partitionEntryChecksum)}
	}
''', '''	_ = checksum
''')]},
 {"name": "c09-no-header-crc", "properties": ["C09", "C15"], "expect": "crc compared",
  "edits": [e('''	if efiHeaderCrc != checksum {
		return nil, fmt.Errorf("invalid EFI Header Checksum, expected %v, got %v", checksum, efiHeaderCrc)
	}
''', '''	_, _ = efiHeaderCrc, checksum
''')]},
 {"name": "c09-header-crc-only-warns-backup", "properties": ["C09"], "expect": "C09-f|",
  "edits": [e('''	if efiHeaderCrc != checksum {
		return nil, fmt.Errorf(''', '''	if efiHeaderCrc != checksum && primaryHeader == 1 {
		return nil, fmt.Errorf(''')]},
 {"name": "c09-entries-crc-plain-error", "properties": ["C09"], "expect": "C09-g|",
  "edits": [e('''		return nil, &primaryContentError{fmt.Errorf("invalid EFI Partition Entry Checksum, expected %v, got %v", checksum, gptTable.partitionEntryChecksum)}''',
 '''		return nil, fmt.Errorf("invalid EFI Partition Entry Checksum, expected %v, got %v", checksum, gptTable.partitionEntryChecksum)''')]},
 {"name": "c09-header-error-plain", "properties": ["C09"], "expect": "C09-g|",
  "edits": [e('''		return nil, &primaryContentError{fmt.Errorf("error reading GPT table: %w", err)}''', '''		return nil, fmt.Errorf("error reading GPT table: %w", err)''')]},
 {"name": "c09-backup-lba-off-by-one", "properties": ["C09"], "expect": "C09-g|",
  "edits": [e('secondaryLBA := uint64(diskSize/int64(logicalBlockSize)) - 1', 'secondaryLBA := uint64(diskSize / int64(logicalBlockSize))')]},
 {"name": "c09-decode-other-buffer", "properties": ["C09"], "expect": "C09-f|",
  "edits": [e('''	parts, err := readPartitionArrayBytes(b, int(gptTable.partitionEntrySize), logicalBlockSize, physicalBlockSize)''',
 '''	b2 := make([]byte, size)
	if _, err := f.ReadAt(b2, int64(start)); err != nil {
		return nil, err
	}
	parts, err := readPartitionArrayBytes(b2, int(gptTable.partitionEntrySize), logicalBlockSize, physicalBlockSize)''')]},
]

SEEDS += [
 {"name": "c09-validated-backup-rejected", "properties": ["C09"], "expect": "C09-g|",
  "edits": [e("	gptTable.RecoveredFromBackup = true\n	return gptTable, nil", "	if len(gptTable.Partitions) == 0 {\n		return nil, fmt.Errorf(\"backup GPT lists no partitions\")\n	}\n	gptTable.RecoveredFromBackup = true\n	return gptTable, nil")]},
]

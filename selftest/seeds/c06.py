# Seeded semantic edits for C06 (ISO9660), C07 (squashfs) and C19 (metadata): byte layout, exhaustiveness, frames.
def e(file, find, replace, count=1):
    return {"file": file, "find": find, "replace": replace, "count": count}

SEEDS = [
 {"name": "c06-pvd-pathtable-l-read-big-endian", "properties": ["C06"], "expect": "C06-b|",
  "edits": [e("filesystem/iso9660/volume_descriptor.go", "pathTableLLocation:         binary.LittleEndian.Uint32(b[140:144]),", "pathTableLLocation:         binary.BigEndian.Uint32(b[140:144]),", 2)]},
 {"name": "c06-pvd-writer-swaps-l-and-m-location", "properties": ["C06"], "expect": "C06-b|",
  "edits": [e("filesystem/iso9660/volume_descriptor.go", '''	binary.LittleEndian.PutUint32(b[140:144], v.pathTableLLocation)''', '''	binary.LittleEndian.PutUint32(b[140:144], v.pathTableMLocation)''', 2)]},
 {"name": "c07-superblock-inodes-written-at-fragment-offset", "properties": ["C07"], "expect": "C07-a|",
  "edits": [e("filesystem/squashfs/superblock.go", '''	binary.LittleEndian.PutUint32(b[4:8], s.inodes)''', '''	binary.LittleEndian.PutUint32(b[4:8], s.fragmentCount)'''),
            e("filesystem/squashfs/superblock.go", '''	binary.LittleEndian.PutUint32(b[16:20], s.fragmentCount)''', '''	binary.LittleEndian.PutUint32(b[16:20], s.inodes)''')]},
 {"name": "c07-superblock-fragment-count-16-bit-read", "properties": ["C07"], "expect": "C07-a|",
  "edits": [e("filesystem/squashfs/superblock.go", "fragmentCount:       binary.LittleEndian.Uint32(b[16:20]),", "fragmentCount:       uint32(binary.LittleEndian.Uint16(b[16:18])),")]},
 {"name": "c07-extended-symlink-case-dropped", "properties": ["C07"], "expect": "C07-b|",
  "edits": [e("filesystem/squashfs/inode.go", '''	case inodeExtendedSymlink:
		body, extra, err = parseExtendedSymlink(b)
''', '')]},
 {"name": "c07-xz-compressor-case-dropped", "properties": ["C07"], "expect": "C07-b|",
  "edits": [e("filesystem/squashfs/compressor.go", '''	case compressionXz:
		c = &CompressorXz{}
''', '')]},
 {"name": "c19-ext4-inode-uid-high-read-from-gid-high", "properties": ["C19"], "expect": "C19-a|",
  "edits": [e("filesystem/ext4/inode.go", "copy(owner[2:4], b[0x78:0x7a])", "copy(owner[2:4], b[0x7a:0x7c])")]},
 {"name": "c19-ext4-inode-ctime-extra-written-at-atime-extra", "properties": ["C19"], "expect": "C19-a|",
  "edits": [e("filesystem/ext4/inode.go", '''	copy(b[0x84:0x88], changeTime[4:8])''', '''	copy(b[0x8c:0x90], changeTime[4:8])'''),
            e("filesystem/ext4/inode.go", '''	copy(b[0x8c:0x90], accessTime[4:8])''', '''	copy(b[0x84:0x88], accessTime[4:8])''')]},
 {"name": "c19-fat-hidden-written-with-system-bit", "properties": ["C19"], "expect": "C19-a|",
  "edits": [e("filesystem/fat12/directoryentry.go", '''	if de.isHidden {
		dosBytes[11] |= 0x02
	} else {
		dosBytes[11] &= ^byte(0x02)
	}''', '''	if de.isHidden {
		dosBytes[11] |= 0x06
	} else {
		dosBytes[11] &= ^byte(0x02)
	}''')]},
 {"name": "c19-fat-readonly-read-with-wrong-mask", "properties": ["C19"], "expect": "C19-a|",
  "edits": [e("filesystem/fat12/directoryentry.go", "isReadOnly := b[i+11]&0x01 == 0x01", "isReadOnly := b[i+11]&0x03 != 0")]},
 {"name": "c19-chown-clears-setuid", "properties": ["C19"], "expect": "C19-b|",
  "edits": [e("filesystem/ext4/ext4.go", '''	if uid != -1 {
		inode.owner = uint32(uid)
	}''', '''	if uid != -1 {
		inode.owner = uint32(uid)
		inode.permissionsOwner.special = false
	}''')]},
 {"name": "c19-chmod-touches-mtime", "properties": ["C19"], "expect": "C19-b|",
  "edits": [e("filesystem/ext4/ext4.go", '''	inode.permissionsOwner = parseOwnerPermissions(perm)''', '''	inode.permissionsOwner = parseOwnerPermissions(perm)
	inode.modifyTime = inode.changeTime''')]},
 {"name": "c19-fat-sethidden-also-sets-system", "properties": ["C19"], "expect": "C19-b|",
  "edits": [e("filesystem/fat12/file.go", '''	fl.isHidden = on
''', '''	fl.isHidden = on
	fl.isSystem = on
''')]},
 {"name": "c19-ext4-socket-mode-case-dropped", "properties": ["C19"], "expect": "C19-c|",
  "edits": [e("filesystem/ext4/inode.go", '''	case fileTypeSocket:
		mode |= os.ModeSocket
''', '')]},
 {"name": "c19-squashfs-extended-fifo-irregular", "properties": ["C19"], "expect": "C19-c|",
  "edits": [e("filesystem/squashfs/directoryentry.go", "case inodeBasicFifo, inodeExtendedFifo:", "case inodeBasicFifo:")]},
 {"name": "c19-ext4-dirent-block-type-dropped", "properties": ["C19"], "expect": "C19-c|",
  "edits": [e("filesystem/ext4/directoryentry.go", '''	case dirFileTypeBlock:
		return iofs.ModeDevice
''', '')]},
 {"name": "c19-dos-year-mask-too-narrow", "properties": ["C19"], "expect": "C19-d|",
  "edits": [e("filesystem/fat12/directoryentry.go", "year := int(d>>9) + 1980", "year := int((d>>9)&0x3f) + 1980")]},
 {"name": "c19-dos-month-taken-from-bit-4", "properties": ["C19"], "expect": "C19-d|",
  "edits": [e("filesystem/fat12/directoryentry.go", "month := time.Month((d >> 5) & 0x0f)", "month := time.Month((d >> 4) & 0x0f)")]},
 {"name": "c19-refactor-dos-hour-mask-explicit", "properties": ["C19"], "silent": True, "expect": "",
  "edits": [e("filesystem/fat12/directoryentry.go", "hour := int(t >> 11)", "hour := int((t >> 11) & 0x1f)"),
            e("filesystem/fat12/directoryentry.go", "year := int(d>>9) + 1980", "year := int((d>>9)&0x7f) + 1980")]},
 {"name": "c19-px-dir-test-on-unmasked-mode", "properties": ["C19"], "expect": "C19-c|",
  "edits": [e("filesystem/iso9660/rockridge.go", "	if m&os.ModeDir == os.ModeDir {", "	if m&^os.ModePerm == os.ModeDir {")]},
 {"name": "c07-trim-pops-without-emptiness-test", "properties": ["C07"], "expect": "C07-c|",
  "edits": [e("filesystem/squashfs/lru.go", "for len(l.cache) > maxBlocks && len(l.cache) > 0 {", "for len(l.cache) > maxBlocks {")]},
 {"name": "c07-refactor-trim-bound-by-max", "properties": ["C07"], "silent": True, "expect": "",
  "edits": [e("filesystem/squashfs/lru.go", "for len(l.cache) > maxBlocks && len(l.cache) > 0 {", "for len(l.cache) > max(maxBlocks, 0) {")]},
 {"name": "c06-dirrecord-size-read-from-location-field", "properties": ["C06"], "expect": "C06-b|",
  "edits": [e("filesystem/iso9660/directoryentry.go", "size := binary.LittleEndian.Uint32(b[10:14])", "size := binary.LittleEndian.Uint32(b[2:6])")]},
 {"name": "c06-dirrecord-location-big-endian-half-wrong", "properties": ["C06"], "expect": "C06-b|",
  "edits": [e("filesystem/iso9660/directoryentry.go", "binary.BigEndian.PutUint32(b[6:10], de.location)", "binary.BigEndian.PutUint32(b[6:10], de.size)")]},
 {"name": "c06-dirrecord-volume-sequence-read-big-endian", "properties": ["C06"], "expect": "C06-b|",
  "edits": [e("filesystem/iso9660/directoryentry.go", "volumeSequence := binary.LittleEndian.Uint16(b[28:30])", "volumeSequence := binary.BigEndian.Uint16(b[28:30])")]},
]

# --- third session
SEEDS += [
 {"name": "c19-fat-flag-bits-exclusive", "properties": ["C19"], "expect": "C19-f|",
  "edits": [e("filesystem/fat12/directoryentry.go", "	if de.isSubdirectory {\n		dosBytes[11] |= 0x10\n	}\n	if de.isArchiveDirty {\n		dosBytes[11] |= 0x20\n	}", "	if de.isSubdirectory {\n		dosBytes[11] |= 0x10\n	} else if de.isArchiveDirty {\n		dosBytes[11] |= 0x20\n	}")]},
 {"name": "c19-ext4-epoch-bits-from-raw-high-bits", "properties": ["C19", "C04"], "expect": "seconds word has one signedness",
  "edits": [e("filesystem/ext4/inode.go", "		epoch := uint32(((sec - int64(low32)) >> 32) & 0x3) // epoch bits", "		epoch := uint32((sec >> 32) & 0x3) // epoch bits")]},
]

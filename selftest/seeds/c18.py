# Seeded semantic edits for C18 (robustness against corrupted images).
def e(file, find, replace, count=1):
    return {"file": file, "find": find, "replace": replace, "count": count}

SEEDS = [
 {"name": "c18-squashfs-blocksize-unvalidated", "properties": ["C18"], "expect": "C18-",
  "edits": [e("filesystem/squashfs/superblock.go", '''	if err := validateBlocksize(int64(blocksize)); err != nil {
		return nil, fmt.Errorf("superblock has invalid block size: %v", err)
	}
''', '')]},
 {"name": "c18-fat-sector-size-unchecked", "properties": ["C18"], "expect": "C18-b|",
  "edits": [e("filesystem/fat12/dos20bpb.go", '''	if sectorSize < uint16(SectorSize512) || (sectorSize&(sectorSize-1)) != 0 {
		return nil, fmt.Errorf("invalid sector size %d: must be power of 2 and >= 512", sectorSize)
	}
''', '')]},
 {"name": "c18-fat-spc-zero-allowed", "properties": ["C18"], "expect": "C18-b|",
  "edits": [e("filesystem/fat12/dos20bpb.go", '''	if sectorsPerCluster == 0 || sectorsPerCluster&(sectorsPerCluster-1) != 0 {''', '''	if sectorsPerCluster != 0 && sectorsPerCluster&(sectorsPerCluster-1) != 0 {''')]},
 {"name": "c18-ext4-zero-per-group-allowed", "properties": ["C18"], "expect": "C18-b|",
  "edits": [e("filesystem/ext4/superblock.go", '''	if sb.blocksPerGroup == 0 || sb.inodesPerGroup == 0 {''', '''	if sb.blocksPerGroup == 0 {''')]},
 {"name": "c18-fat-chain-bound-removed", "properties": ["C18"], "expect": "C18-c|",
  "edits": [e("filesystem/fat12/fat12.go", '''		if uint32(len(clusterList)) > fs.table.MaxCluster() {
			return nil, fmt.Errorf("invalid cluster chain starting at %d: it loops", firstCluster)
		}
''', '')]},
 {"name": "c18-fat12-cluster-count-check-removed", "properties": ["C18"], "expect": "C18-a|",
  "edits": [e("filesystem/fat12/fat12.go", '''	if numClusters >= 4085 {
		return nil, fmt.Errorf("not a FAT12 filesystem: cluster count %d >= 4085", numClusters)
	}
''', '''	_ = numClusters
''')]},
 {"name": "c18-squashfs-xattr-table-unbounded", "properties": ["C18"], "expect": "C18-a|",
  "edits": [e("filesystem/squashfs/squashfs.go", "	b = make([]byte, idBlocks*8)", "	b = make([]byte, uint64(idBytes)*8+uint64(idBlocks-idBlocks))")]},
 {"name": "c18-squashfs-inode-blocklist-by-division", "properties": ["C18"], "expect": "C18-b|",
  "edits": [e("filesystem/squashfs/inode.go", "	blockListSize := int(d.fileSize / uint32(blocksize))", "	blockListSize := int(d.fileSize / (uint32(blocksize) - d.fragmentOffset))")]},
 # C18-e: device-derived indexes
 {"name": "c18-squashfs-id-index-unchecked", "properties": ["C18"], "expect": "C18-e|",
  "edits": [e("filesystem/squashfs/squashfs.go", "	if int(header.uidIdx) >= len(fs.uidsGids) || int(header.gidIdx) >= len(fs.uidsGids) {", "	if int(header.uidIdx) >= len(fs.uidsGids) {")]},
 {"name": "c18-ext4-inode-group-unchecked", "properties": ["C18"], "expect": "C18-e|",
  "edits": [e("filesystem/ext4/ext4.go", "	if int64(bg) >= int64(len(fs.groupDescriptors.descriptors)) {", "	if int64(bg) > int64(len(fs.groupDescriptors.descriptors))+int64(inodeNumber) {")]},
 {"name": "c18-fat-read-size-beyond-chain", "properties": ["C18"], "expect": "C18-e|",
  "edits": [e("filesystem/fat12/file.go", "		if clusterIndex >= len(clusters) {", "		if clusterIndex >= len(clusters) && len(b) == 0 {")]},
 {"name": "c18-squashfs-fragment-index-unchecked", "properties": ["C18"], "expect": "C18-e|",
  "edits": [e("filesystem/squashfs/squashfs.go", "	if len(fs.fragments)-1 < int(index) {", "	if len(fs.fragments) == 0 {")]},
 # behaviour-preserving: the same bound written the other way round must stay silent
 {"name": "c18-squashfs-fragment-index-check-rewritten", "properties": ["C18"], "silent": True, "expect": "",
  "edits": [e("filesystem/squashfs/squashfs.go", "	if len(fs.fragments)-1 < int(index) {", "	if int(index) >= len(fs.fragments) {")]},
 {"name": "c18-ext4-extent-children-counted", "properties": ["C18"], "expect": "C18-e|",
  "edits": [e("filesystem/ext4/extent.go", "			if i > 0 {\n				internalNode.children[i-1].count", "			if i > 0 && ptr.fileBlock != 0 {\n				internalNode.children[i-1].count"),
            e("filesystem/ext4/extent.go", "			internalNode.children = append(internalNode.children, ptr)\n", "			if ptr.diskBlock != 0 {\n				internalNode.children = append(internalNode.children, ptr)\n			}\n")]},
 # C18-g: device-derived slice bounds
 {"name": "c18-squashfs-metadata-offset-unchecked", "properties": ["C18"], "expect": "C18-g|",
  "edits": [e("filesystem/squashfs/metadatablock.go", "	if int(byteOffset) > len(m) {", "	if int(byteOffset) > len(m)+int(byteOffset) {")]},
 {"name": "c18-ext4-dirent-name-length-unchecked", "properties": ["C18"], "expect": "C18-g|",
  "edits": [e("filesystem/ext4/directoryentry.go", "	if 0x8+nameLength > len(b) {", "	if 0x8+nameLength > len(b)+nameLength {")]},
 {"name": "c18-fat32-empty-fat-accepted", "properties": ["C18"], "expect": "C18-g|",
  "edits": [e("filesystem/fat32/fat32.go", "	if fatSize < 8 {", "	if fatSize < 8 && sectorsPerFat != 0 {")]},
 # behaviour-preserving: the same test written with the operands swapped must stay silent
 {"name": "c18-ext4-dirent-name-length-check-rewritten", "properties": ["C18"], "silent": True, "expect": "",
  "edits": [e("filesystem/ext4/directoryentry.go", "	if 0x8+nameLength > len(b) {", "	if len(b) < nameLength+0x8 {")]},
 # C18-h: bounded recursion
 {"name": "c18-ext4-symlink-depth-unlimited", "properties": ["C18"], "expect": "C18-h|",
  "edits": [e("filesystem/ext4/ext4.go", "	if linksFollowed > maxSymlinkDepth {\n		return nil, fmt.Errorf(\"too many levels of symbolic links while opening %s\", p)\n	}\n	filename := path.Base(p)", "	filename := path.Base(p)")]},
 {"name": "c18-squashfs-symlink-depth-not-advanced", "properties": ["C18"], "expect": "C18-h|",
  "edits": [e("filesystem/squashfs/directoryentry.go", "d.fs.openFile(target, os.O_RDONLY, linksFollowed+1)", "d.fs.openFile(target, os.O_RDONLY, linksFollowed)", 2)]},
 {"name": "c18-ext4-extent-child-level-unchecked", "properties": ["C18"], "expect": "C18-h|",
  "edits": [e("filesystem/ext4/extent.go", "		if ebf.getDepth() != e.depth-1 {\n			return nil, fmt.Errorf(\"extent tree node in block %d has depth %d, expected %d\", child.diskBlock, ebf.getDepth(), e.depth-1)\n		}\n		blocks, err := ebf.blocks(fs)", "		blocks, err := ebf.blocks(fs)")]},
 {"name": "c18-iso-ancestors-not-recorded", "properties": ["C18"], "expect": "C18-h|",
  "edits": [e("filesystem/iso9660/directoryentry.go", "				ancestors = append(ancestors, de.location)\n", "")]},
]

# Seeded semantic edits for C17 (concurrent squashfs readers).
def e(file, find, replace, count=1):
    return {"file": file, "find": find, "replace": replace, "count": count}

L = "filesystem/squashfs/lru.go"
SEEDS = [
 {"name": "c17-setmaxblocks-unlocked", "properties": ["C17"], "expect": "C17-a|",
  "edits": [e(L, '''func (l *lru) setMaxBlocks(maxBlocks int) {
	l.mu.Lock()
	defer l.mu.Unlock()
	l.maxBlocks = maxBlocks''', '''func (l *lru) setMaxBlocks(maxBlocks int) {
	l.maxBlocks = maxBlocks''')]},
 {"name": "c17-data-read-before-block-lock", "properties": ["C17"], "expect": "C17-a|",
  "edits": [e(L, '''	block.mu.Lock() // transfer the lock to the block
	l.mu.Unlock()
	defer block.mu.Unlock()

	if block.data != nil {
		return block.data, block.size, nil
	}
''', '''	if block.data != nil {
		l.mu.Unlock()
		return block.data, block.size, nil
	}
	block.mu.Lock() // transfer the lock to the block
	l.mu.Unlock()
	defer block.mu.Unlock()
''')]},
 {"name": "c17-lru-unlocked-before-list-update", "properties": ["C17"], "expect": "C17-a|",
  "edits": [e(L, '''	l.mu.Lock()
	block, found := l.cache[pos]
	if !found {''', '''	l.mu.Lock()
	block, found := l.cache[pos]
	l.mu.Unlock()
	l.mu.Lock()
	if !found {'''), e(L, '''		// Remove the block from the list
		l.unlink(block)''', '''		// Remove the block from the list
		l.mu.Unlock()
		l.unlink(block)
		l.mu.Lock()''')]},
 {"name": "c17-lru-lock-leaked-on-hit", "properties": ["C17"], "expect": "C17-",
  "edits": [e(L, '''	block.mu.Lock() // transfer the lock to the block
	l.mu.Unlock()
	defer block.mu.Unlock()
''', '''	block.mu.Lock() // transfer the lock to the block
	defer block.mu.Unlock()
	if block.data != nil {
		return block.data, block.size, nil
	}
	l.mu.Unlock()
''')]},
 {"name": "c17-block-lock-not-released-on-error", "properties": ["C17"], "expect": "C17-b|",
  "edits": [e(L, '''	block.mu.Lock() // transfer the lock to the block
	l.mu.Unlock()
	defer block.mu.Unlock()

	if block.data != nil {
		return block.data, block.size, nil
	}

	// Fetch the block
	data, size, err = fetch()
	if err != nil {
		return nil, 0, err
	}
	block.data = data
	block.size = size
	return data, size, nil''', '''	block.mu.Lock() // transfer the lock to the block
	l.mu.Unlock()

	if block.data != nil {
		block.mu.Unlock()
		return block.data, block.size, nil
	}

	// Fetch the block
	data, size, err = fetch()
	if err != nil {
		return nil, 0, err
	}
	block.data = data
	block.size = size
	block.mu.Unlock()
	return data, size, nil''')]},
 {"name": "c17-fetch-under-cache-lock", "properties": ["C17"], "expect": "C17-c|",
  "edits": [e(L, '''	block.mu.Lock() // transfer the lock to the block
	l.mu.Unlock()
	defer block.mu.Unlock()
''', '''	block.mu.Lock() // transfer the lock to the block
	defer l.mu.Unlock()
	defer block.mu.Unlock()
''')]},
 {"name": "c17-resize-from-get", "properties": ["C17"], "expect": "C17-c|",
  "edits": [e(L, '''		// Add it to the cache and the tail of the list
		l.add(block)''', '''		// Add it to the cache and the tail of the list
		l.setMaxBlocks(l.maxBlocks)
		l.add(block)''')]},
 {"name": "c17-fetch-closure-reenters-cache", "properties": ["C17"], "expect": "C17-c|",
  "edits": [e("filesystem/squashfs/squashfs.go", '''		b := make([]byte, fragmentInfo.size)
		read, err := fs.backend.ReadAt(b, pos)''', '''		b := make([]byte, fragmentInfo.size)
		if _, _, err := fs.readMetaBlock(fs.backend, fs.compressor, pos); err != nil {
			return nil, 0, err
		}
		read, err := fs.backend.ReadAt(b, pos)''')]},
 {"name": "c17-last-dir-cached-in-filesystem", "properties": ["C17"], "expect": "C17-d|",
  "edits": [e("filesystem/squashfs/squashfs.go", '''	// get the inode from the offset into the uncompressed block
	return parseDirectory(uncompressed)''', '''	// get the inode from the offset into the uncompressed block
	fs.size = int64(len(uncompressed))
	return parseDirectory(uncompressed)''')]},
 {"name": "c17-fragment-table-patched-on-read", "properties": ["C17"], "expect": "C17-d|",
  "edits": [e("filesystem/squashfs/squashfs.go", '''	fragmentInfo := fs.fragments[index]
	pos := int64(fragmentInfo.start)''', '''	fragmentInfo := fs.fragments[index]
	fs.fragments[index].size = fragmentInfo.size
	pos := int64(fragmentInfo.start)''')]},
 {"name": "c17-key-not-offset", "properties": ["C17"], "expect": "C17-e|",
  "edits": [e("filesystem/squashfs/squashfs.go", '''	data, _, err := fs.cache.get(pos, func() (data []byte, size uint16, err error) {''', '''	data, _, err := fs.cache.get(int64(index), func() (data []byte, size uint16, err error) {''')]},
 {"name": "c17-hit-returns-half", "properties": ["C17"], "expect": "C17-e|",
  "edits": [e(L, '''	if block.data != nil {
		return block.data, block.size, nil
	}''', '''	if block.data != nil {
		return block.data[:len(block.data)/2], block.size, nil
	}''')]},
]

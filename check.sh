#!/bin/bash
# usage: check.sh <property> <quick|thorough>
# Static analysis of /repo's current working tree; never runs go-diskfs code.
cd "$(dirname "$0")"
export PATH=/opt/veriftools/go1.26.8/bin:$PATH GOFLAGS=-mod=mod GOPROXY=off GOTOOLCHAIN=local
unset GOWORK GOOS GOARCH
./build.sh || { echo "dfscheck: build failed" >&2; exit 2; }
prop="$1"; tier="${2:-quick}"; shift; shift
if [ "$tier" = "thorough" ]; then
  exec python3 selftest/thorough.py "$prop" "$@"
fi
exec ./bin/dfscheck -property "$prop" -tier quick

#!/bin/bash
# usage: try_refactor.sh <patch.diff>  — applies a behaviour-preserving refactor in a scratch worktree of /repo's HEAD and runs
# every registered check on it (10 at a time); prints the checks that do not exit 0 (false alarms). Removes the worktree.
patch="$1"
wt=$(mktemp -d /tmp/refac-XXXXXX); rmdir "$wt"
git -C /repo worktree add -q --detach "$wt" HEAD || exit 2
cd "$wt"
if ! git apply --3way "$patch" >/dev/null 2>&1 && ! patch -p1 -F3 < "$patch" >/dev/null 2>&1; then echo "PATCH-DOES-NOT-APPLY"; git -C /repo worktree remove --force "$wt"; exit 2; fi
mkdir -p "$wt/_o"
run_one() {
  p=$1; wt=$2
  mkdir -p "$wt/_v_$p"; cp /verif/known_findings.json "$wt/_v_$p/"
  out=$(cd /verif && DFS_NO_EVIDENCE=1 ${DFSBIN:-./bin/dfscheck} -property $p -repo "$wt" -verif "$wt/_v_$p" 2>&1); rc=$?
  if [ $rc -ne 0 ]; then
    { echo "== $p exit=$rc"; echo "$out" | grep -v "^      via\|KNOWN-FINDING\|^VIOLATION" | grep "violated in\|undecided in\|cannot analyse\|panic\|floor\|^    " | head -8 | cut -c1-260 | sed "s|$wt/||g"; } > "$wt/_o/$p"
  fi
}
export -f run_one
printf "%s\n" C01 C02 C03 C04 C05 C06 C07 C08 C09 C10 C11 C12 C13 C14 C15 C16 C17 C18 C19 C20 | xargs -P 10 -I{} bash -c "run_one {} $wt"
if ls "$wt/_o" | grep -q .; then cat "$wt"/_o/*; else echo "all 20 checks silent"; fi
git -C /repo worktree remove --force "$wt" >/dev/null 2>&1; rm -rf "$wt"

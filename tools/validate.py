#!/usr/bin/env python3
"""Validates MANIFEST.json and every evidence file against the harness schemas (run with python3-vt)."""
import json, glob, sys, jsonschema
ok = True
try:
    jsonschema.validate(json.load(open('/verif/MANIFEST.json')), json.load(open('/root/.vp/MANIFEST.schema.json')))
except Exception as e:
    ok = False; print("MANIFEST:", e)
es = json.load(open('/root/.vp/EVIDENCE.schema.json'))
for f in sorted(glob.glob('/verif/evidence/*.json')):
    try:
        jsonschema.validate(json.load(open(f)), es)
    except Exception as e:
        ok = False; print(f, str(e)[:300])
m = json.load(open('/verif/MANIFEST.json'))
import os
for c in m['checks']:
    if not os.path.exists(c['evidence_file']):
        ok = False; print("missing evidence", c['evidence_file'])
print("valid" if ok else "INVALID")
sys.exit(0 if ok else 1)

#!/bin/bash
# Runs every registered check on each behaviour-preserving refactor under /verif/refactors (each applied in a scratch
# worktree of /repo's HEAD, removed afterwards). Any check that does not exit 0 is a false alarm. Writes refactors/INDEX.md.
cd /verif
out=refactors/INDEX.md
echo "# Behaviour-preserving refactors: every check must stay silent" > $out
echo >> $out
echo "Produced by sub-agents asked for routine clean-ups that change nothing observable (each kept the pinned tests passing; most were also compared against the original with differential I/O traces). Regenerate with tools/recheck_refactors.sh." >> $out
echo >> $out
echo "| refactor | outcome |" >> $out
echo "|---|---|" >> $out
rc=0
for d in refactors/*/; do
  id=$(basename $d)
  res=$(tools/try_refactor.sh /verif/$d/patch.diff 2>&1 | tr '\n' ' ' | cut -c1-400)
  echo "$id: $res"
  echo "| $id | $res |" >> $out
  case "$res" in *"all 20 checks silent"*) ;; *) rc=1;; esac
done
exit $rc

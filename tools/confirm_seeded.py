#!/usr/bin/env python3
"""Confirms a candidate seeded change in a scratch worktree of /repo and stores it under /verif/seeded/<id>/.

usage: confirm_seeded.py <id> <property> <patch.diff> <demo> <pkgdir|module> <needs-text>
  demo: a _test.go file (dropped into <pkgdir> of the worktree and run with -run <regex inferred: all tests in file>)
        or a directory holding a standalone module (go.mod with a replace line that is rewritten to the worktree)
Checks: demo passes without the patch, fails with it; the pinned stable tests still pass with the patch; then runs the
registered quick check of <property> against the patched tree (reported, not required). Removes the worktree."""
import json, os, re, shutil, subprocess, sys, tempfile

sid, prop, patch, demo, where, needs = sys.argv[1:7]
WT = tempfile.mkdtemp(prefix="confirm-", dir="/tmp")
os.rmdir(WT)
env = dict(os.environ)
for k in ("GOFLAGS", "GOTOOLCHAIN", "GOWORK"):
    env.pop(k, None)

def sh(cmd, cwd=None, check=False):
    p = subprocess.run(cmd, shell=True, cwd=cwd, env=env, stdout=subprocess.PIPE, stderr=subprocess.STDOUT, text=True)
    if check and p.returncode != 0:
        print(p.stdout); raise SystemExit("command failed: " + cmd)
    return p.returncode, p.stdout

ran = []
try:
    sh("git -C /repo worktree add -q --detach %s HEAD" % WT, check=True)
    def run_demo():
        if os.path.isdir(demo):
            d = os.path.join(WT, "_demo")
            if os.path.exists(d): shutil.rmtree(d)
            shutil.copytree(demo, d)
            gm = open(os.path.join(d, "go.mod")).read()
            gm = re.sub(r"(github.com/diskfs/go-diskfs\s*=>\s*)\S+", r"\1" + WT, gm)
            open(os.path.join(d, "go.mod"), "w").write(gm)
            cmd = "go test -mod=mod -vet=off -count=1 ./..."
            rc, out = sh(cmd, cwd=d)
            shutil.rmtree(d)
            return rc, out, cmd + "   (standalone module, replace => worktree)"
        os.makedirs(os.path.join(WT, where), exist_ok=True)
        dst = os.path.join(WT, where, "zz_seeded_demo_test.go")
        shutil.copy(demo, dst)
        names = re.findall(r"^func (Test\w+)\(", open(demo).read(), re.M)
        cmd = "go test -mod=mod -vet=off -count=1 -run '^(%s)$' ./%s/" % ("|".join(names), where)
        rc, out = sh(cmd, cwd=WT)
        os.remove(dst)
        return rc, out, cmd
    rc0, out0, cmd = run_demo()
    ran.append({"cmd": cmd, "tree": "clean", "exit": rc0})
    sh("git apply %s" % patch, cwd=WT, check=True)
    rcb, outb = sh("go build -mod=mod ./...", cwd=WT)
    rc1, out1, _ = run_demo()
    ran.append({"cmd": cmd, "tree": "patched", "exit": rc1})
    # pinned suite on the patched tree
    b = json.load(open('/root/.vp/BASELINE.json'))
    stable = set(b['stable_pass'])
    p = subprocess.run("go test -mod=mod -json -vet=off -count=1 -timeout 25m ./...", shell=True, cwd=WT, env=env, stdout=subprocess.PIPE, stderr=subprocess.STDOUT, text=True)
    passed = set()
    for line in p.stdout.splitlines():
        try: e = json.loads(line)
        except Exception: continue
        if e.get('Action') == 'pass' and e.get('Test'):
            passed.add(e['Package'] + '::' + e['Test'])
    missing = sorted(stable - passed)
    ran.append({"cmd": "go test -mod=mod -json -vet=off -count=1 ./...  (pinned 252 stable tests)", "tree": "patched", "stable_not_passing": missing})
    ok = rc0 == 0 and rcb == 0 and rc1 != 0 and not missing
    print("demo clean exit=%d patched exit=%d build=%d stable-missing=%d => %s" % (rc0, rc1, rcb, len(missing), "CONFIRMED" if ok else "REJECTED"))
    if not ok:
        print(out0[-1500:] if rc0 else ""); print(out1[-800:] if rc1 == 0 else ""); print(missing[:5])
        sys.exit(1)
    # our check against the patched tree (worktree as repo)
    props = prop.split(",")
    prop = props[0]
    os.makedirs(WT + "/_v", exist_ok=True)
    shutil.copy("/verif/known_findings.json", WT + "/_v/known_findings.json")
    rc, viol, by = 0, [], []
    for pp in props:
        rc1, out = sh("DFS_NO_EVIDENCE=1 /verif/bin/dfscheck -property %s -repo %s -verif %s/_v" % (pp, WT, WT), cwd="/verif")
        v = [l for l in out.splitlines() if "] violated in" in l or "] undecided in" in l]
        print("check %s on patched tree: exit %d; %s" % (pp, rc1, v[:3]))
        if rc1 == 1:
            rc = 1; by.append(pp)
        viol += v
    out_dir = "/verif/seeded/%s" % sid
    os.makedirs(out_dir, exist_ok=True)
    shutil.copy(patch, os.path.join(out_dir, "patch.diff"))
    if os.path.isdir(demo):
        dd = os.path.join(out_dir, "demo")
        if os.path.exists(dd): shutil.rmtree(dd)
        shutil.copytree(demo, dd)
    else:
        shutil.copy(demo, os.path.join(out_dir, os.path.basename(demo)))
    meta = {"id": sid, "property": prop, "needs_to_manifest": needs, "demo_location": where if not os.path.isdir(demo) else "standalone module (rewrite the replace line to the tree under test)",
            "what_was_run": ran, "repo_head": subprocess.check_output("git -C /repo rev-parse --short HEAD", shell=True, text=True).strip(),
            "detected_by_check": rc == 1, "detected_by": by, "check_reports": viol[:5]}
    json.dump(meta, open(os.path.join(out_dir, "meta.json"), "w"), indent=1)
finally:
    subprocess.run("git -C /repo worktree remove --force %s" % WT, shell=True, stdout=subprocess.DEVNULL, stderr=subprocess.DEVNULL)
    shutil.rmtree(WT, ignore_errors=True)

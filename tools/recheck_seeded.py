#!/usr/bin/env python3
"""Re-runs the registered checks against every confirmed seeded change (each applied in a scratch worktree of /repo's HEAD,
removed afterwards) and writes /verif/seeded/INDEX.md: which check catches which change, and which are missed.
usage: recheck_seeded.py [--all-props] [--jobs N] [id-substring ...]
Without --all-props (or RECHECK_ALL=1) only the change's own property and the properties that reported it before are run."""
import json, os, subprocess, sys, glob, tempfile, shutil
from concurrent.futures import ThreadPoolExecutor

ALL = ["C%02d" % i for i in range(1, 21)]
args = sys.argv[1:]
allp = bool(os.environ.get('RECHECK_ALL')) or '--all-props' in args
jobs = 4
if '--jobs' in args:
    jobs = int(args[args.index('--jobs') + 1]); del args[args.index('--jobs'):args.index('--jobs') + 2]
sel = [a for a in args if not a.startswith('--')]
head = subprocess.check_output("git -C /repo rev-parse --short HEAD", shell=True, text=True).strip()


def one(m):
    d = json.load(open(m))
    sid = d['id']
    patch = os.path.join(os.path.dirname(m), 'patch.diff')
    wt = tempfile.mkdtemp(prefix='recheck-', dir='/tmp'); os.rmdir(wt)
    try:
        subprocess.run("git -C /repo worktree add -q --detach %s HEAD" % wt, shell=True, check=True)
        p = subprocess.run("git apply --3way %s 2>&1 || patch -p1 -F3 < %s" % (patch, patch), shell=True, cwd=wt, stdout=subprocess.PIPE, stderr=subprocess.STDOUT, text=True)
        if p.returncode != 0:
            return (sid, d['property'], 'PATCH-DOES-NOT-APPLY', [], '')
        os.makedirs(wt + "/_v", exist_ok=True)
        shutil.copy("/verif/known_findings.json", wt + "/_v/known_findings.json")
        props = [d['property']] + [x for x in (d.get('detected_by') or []) if x != d['property'] and 'exit2' not in x]
        by, first = [], ''
        def chk(pp):
            vd = "%s/_v/%s" % (wt, pp)
            os.makedirs(vd, exist_ok=True)
            shutil.copy("/verif/known_findings.json", vd)
            q = subprocess.run("DFS_NO_EVIDENCE=1 " + os.environ.get('DFSBIN', '/verif/bin/dfscheck') + " -property %s -repo %s -verif %s" % (pp, wt, vd), shell=True, cwd='/verif', stdout=subprocess.PIPE, stderr=subprocess.STDOUT, text=True)
            v = [l for l in q.stdout.splitlines() if "] violated in" in l or "] undecided in" in l]
            return pp, q.returncode, v
        with ThreadPoolExecutor(max_workers=4) as ex:
            res = list(ex.map(chk, ALL if allp else props))
        # own property first
        res.sort(key=lambda r: (r[0] != d['property'], r[0]))
        for pp, rc, v in res:
            if rc == 1:
                by.append(pp)
                if not first and v:
                    first = v[0].replace(wt + '/', '')
            elif rc == 2:
                by.append(pp + '(exit2)')
        d['detected_by_check'] = bool([b for b in by if 'exit2' not in b]); d['detected_by'] = by
        d['check_reports'] = [first] if first else []
        d['rechecked_at_repo_head'] = head
        json.dump(d, open(m, 'w'), indent=1)
        row = (sid, d['property'], 'detected' if d['detected_by_check'] else 'MISSED', by, first)
        print(row[:4], flush=True)
        return row
    finally:
        subprocess.run("git -C /repo worktree remove --force %s" % wt, shell=True, stdout=subprocess.DEVNULL, stderr=subprocess.DEVNULL)
        shutil.rmtree(wt, ignore_errors=True)


metas = [m for m in sorted(glob.glob('/verif/seeded/*/meta.json')) if not sel or any(s in m for s in sel)]
with ThreadPoolExecutor(max_workers=jobs) as ex:
    rows = list(ex.map(one, metas))
if not sel:
    with open('/verif/seeded/INDEX.md', 'w') as f:
        f.write("# Confirmed seeded changes and the checks that catch them\n\nEach change compiles, keeps the 252 pinned tests passing and has a demonstration that passes on the clean tree and fails with the change (see meta.json in each directory). Regenerate with tools/recheck_seeded.py.\n\n| change | property | outcome | reported by | first report |\n|---|---|---|---|---|\n")
        for sid, prop, st, by, first in rows:
            f.write("| %s | %s | %s | %s | %s |\n" % (sid, prop, st, ", ".join(by), first.replace('|', '\\|')[:200]))
        f.write("\n%d changes, %d detected, %d missed.\n" % (len(rows), len([r for r in rows if r[2] == 'detected']), len([r for r in rows if r[2] == 'MISSED'])))

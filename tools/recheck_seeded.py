#!/usr/bin/env python3
"""Re-runs the registered checks against every confirmed seeded change (each applied in a scratch worktree of /repo's HEAD,
removed afterwards) and writes /verif/seeded/INDEX.md: which check catches which change, and which are missed.
usage: recheck_seeded.py [id-substring ...]"""
import json, os, subprocess, sys, glob, tempfile, shutil

ALL = ["C%02d" % i for i in range(1, 20)]
sel = sys.argv[1:]
rows = []
for m in sorted(glob.glob('/verif/seeded/*/meta.json')):
    d = json.load(open(m))
    sid = d['id']
    if sel and not any(s in sid for s in sel):
        continue
    patch = os.path.join(os.path.dirname(m), 'patch.diff')
    wt = tempfile.mkdtemp(prefix='recheck-', dir='/tmp'); os.rmdir(wt)
    try:
        subprocess.run("git -C /repo worktree add -q --detach %s HEAD" % wt, shell=True, check=True)
        p = subprocess.run("git apply --3way %s 2>&1 || patch -p1 -F3 < %s" % (patch, patch), shell=True, cwd=wt, stdout=subprocess.PIPE, stderr=subprocess.STDOUT, text=True)
        if p.returncode != 0:
            rows.append((sid, d['property'], 'PATCH-DOES-NOT-APPLY', [], ''))
            continue
        os.makedirs(wt + "/_v", exist_ok=True)
        shutil.copy("/verif/known_findings.json", wt + "/_v/known_findings.json")
        props = [d['property']] + [x for x in (d.get('detected_by') or []) if x != d['property']]
        # also the properties that share rules
        by, first = [], ''
        for pp in ALL if os.environ.get('RECHECK_ALL') else props:
            q = subprocess.run("DFS_NO_EVIDENCE=1 /verif/bin/dfscheck -property %s -repo %s -verif %s/_v" % (pp, wt, wt), shell=True, cwd='/verif', stdout=subprocess.PIPE, stderr=subprocess.STDOUT, text=True)
            v = [l for l in q.stdout.splitlines() if "] violated in" in l or "] undecided in" in l]
            if q.returncode == 1:
                by.append(pp)
                if not first and v:
                    first = v[0].replace(wt + '/', '')
            elif q.returncode == 2:
                by.append(pp + '(exit2)')
        d['detected_by_check'] = bool([b for b in by if 'exit2' not in b]); d['detected_by'] = by
        d['check_reports'] = [first] if first else []
        d['rechecked_at_repo_head'] = subprocess.check_output("git -C /repo rev-parse --short HEAD", shell=True, text=True).strip()
        json.dump(d, open(m, 'w'), indent=1)
        rows.append((sid, d['property'], 'detected' if d['detected_by_check'] else 'MISSED', by, first))
    finally:
        subprocess.run("git -C /repo worktree remove --force %s" % wt, shell=True, stdout=subprocess.DEVNULL, stderr=subprocess.DEVNULL)
        shutil.rmtree(wt, ignore_errors=True)
    print(rows[-1][:4], flush=True)
if not sel:
    with open('/verif/seeded/INDEX.md', 'w') as f:
        f.write("# Confirmed seeded changes and the checks that catch them\n\nEach change compiles, keeps the 252 pinned tests passing and has a demonstration that passes on the clean tree and fails with the change (see meta.json in each directory). Regenerate with tools/recheck_seeded.py.\n\n| change | property | outcome | reported by | first report |\n|---|---|---|---|---|\n")
        for sid, prop, st, by, first in rows:
            f.write("| %s | %s | %s | %s | %s |\n" % (sid, prop, st, ", ".join(by), first.replace('|', '\\|')[:200]))
        f.write("\n%d changes, %d detected, %d missed.\n" % (len(rows), len([r for r in rows if r[2] == 'detected']), len([r for r in rows if r[2] == 'MISSED'])))

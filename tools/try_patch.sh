#!/bin/bash
# usage: try_patch.sh <patch.diff> <property> [...]   — applies the patch to /repo, runs the quick checks, reverts.
patch="$1"; shift
cd /repo || exit 2
if [ -n "$(git status --porcelain)" ]; then echo "/repo not clean"; exit 2; fi
git apply "$patch" || { echo "patch does not apply"; exit 2; }
mkdir -p /tmp/try-verif-$$; cp /verif/known_findings.json /tmp/try-verif-$$/
for p in "$@"; do
  (cd /verif && DFS_NO_EVIDENCE=1 ${DFSBIN:-./bin/dfscheck} -property $p -verif /tmp/try-verif-$$ 2>&1 | grep -v "^      via" | tail -12)
done
git checkout -- . && git clean -fdq
rm -rf /tmp/try-verif-$$

#!/usr/bin/env python3
"""Runs the repository's pinned test suite (BASELINE.json's command shape, default go, no build tag)
and reports which of the stable-pass tests did not pass. Development aid only: no registered check
runs tests. Usage: baseline.py [pkgpattern ...]"""
import json, subprocess, sys, os
b = json.load(open('/root/.vp/BASELINE.json'))
stable = set(b['stable_pass'])
pk = sys.argv[1:] or ['./...']
env = dict(os.environ)
for k in ('GOFLAGS', 'GOTOOLCHAIN', 'GOWORK'):
    env.pop(k, None)
p = subprocess.run(['go', 'test', '-mod=mod', '-json', '-vet=off', '-count=1', '-timeout', '25m'] + pk,
                   cwd='/repo', env=env, stdout=subprocess.PIPE, stderr=subprocess.STDOUT, text=True)
passed = set()
pkgs = set()
for line in p.stdout.splitlines():
    try:
        e = json.loads(line)
    except Exception:
        continue
    if e.get('Package'):
        pkgs.add(e['Package'])
    if e.get('Action') == 'pass' and e.get('Test'):
        passed.add(e['Package'] + '::' + e['Test'])
want = {s for s in stable if s.split('::')[0] in pkgs}
missing = sorted(want - passed)
print("stable tests in scope: %d, passed: %d, missing: %d" % (len(want), len(want & passed), len(missing)))
for m in missing[:40]:
    print("  NOT PASSED", m)
sys.exit(1 if missing else 0)

package main

// C02 — partition tables read back as written and are valid on disk (structural clauses).

import (
	"fmt"
	"go/token"
	"go/types"
	"strings"

	"golang.org/x/tools/go/ssa"
)

func init() {
	register("C02", runC02, `Structural clauses of the partition-table round trip, decided statically.
C02-a layout agreement (byte-layout extraction by abstract interpretation of the encoder and decoder bodies): every byte the decoder maps to a field is written by the encoder from the same field with the same significance, for the GPT header, the GPT entry and the MBR entry.
C02-b CRC discipline: in the GPT header encoder the header CRC is computed over [0:92], nothing but the CRC itself is stored into that range afterwards, the reader verifies the same constant range, and the array CRC is computed from the array encoder's output.
C02-c no lossy narrowing into on-disk LBA/size fields: a conversion to a narrower integer of a value derived from table geometry or a partition's Start/End/Size, on the way into an encoder store, must be dominated by a range test (saturation).
C02-d GetStart/GetSize multiply in 64 bits (shared with C13-a).
C02-e sector-unit discipline: in partition/gpt and partition/mbr a value counted in sectors (an LBA field of the table or Start/End of a partition) is converted to or from bytes only with the table's own sector size, never with a literal 512/4096 (the property quantifies over both logical sector sizes).
C02-f one disk identity: if the header encoder can draw a random GUID without keeping it, every function that encodes the header twice (primary and backup) fixes Table.GUID first.
C02-h the protective MBR's boot signature is written and compared at the constant offset 510 of LBA 0, whatever the logical sector size.
C02-g names: GPT names are UTF-16LE (36 code units in 72 bytes; the encoder's limit test counts the code units it writes, not runes): the encoder produces its code units with the utf16 package and never converts a rune straight to uint16, and the decoder rebuilds runes with utf16.Decode/DecodeRune and never widens a single code unit to a rune.
Not covered: Start/End/Size reconciliation arithmetic, UTF-16 name handling beyond 'same bytes', the mixed-endian GUID permutation, geometry formulas.`)
}

func runC02(w *World, r *Report) {
	runCodecFamily(w, r, "C02-a", codecPairsC02)
	c02CRCDiscipline(w, r)
	c02Narrowing(w, r)
	// C02-d
	sub := newReport("C02", r.Tier)
	c13Width(w, sub)
	for _, o := range sub.Obls {
		if strings.Contains(o.Function, "GetS") {
			o.Rule = "C02-d"
			r.Obls = append(r.Obls, o)
			r.seen[o.Key()] = o
		}
	}
	c02SectorUnits(w, r)
	c02Identity(w, r)
	c02Names(w, r)
	r.Floor("C02-f", r.countRule("C02-f"), 1)
	c02NameLimit(w, r)
	c02ProtectiveSignature(w, r)
	r.Floor("C02-h", r.countRule("C02-h"), 2)
	r.Floor("C02-g", r.countRule("C02-g"), 3)
	r.Floor("C02-a", r.countRule("C02-a"), 3)
	r.Floor("C02-e", r.countRule("C02-e"), 10)
	r.Floor("C02-b", r.countRule("C02-b"), 3)
	r.Floor("C02-c", r.countRule("C02-c"), 1)
	r.Floor("C02-d", r.countRule("C02-d"), 4)
}

func sliceConstBounds(v ssa.Value) (lo, hi int64, ok bool) {
	sl, isS := v.(*ssa.Slice)
	if !isS {
		return 0, 0, false
	}
	lo, hi = 0, -1
	if sl.Low != nil {
		c, okc := constInt(sl.Low)
		if !okc {
			return 0, 0, false
		}
		lo = c
	}
	if sl.High != nil {
		c, okc := constInt(sl.High)
		if !okc {
			return 0, 0, false
		}
		hi = c
	}
	return lo, hi, true
}

func c02CRCDiscipline(w *World, r *Report) {
	write := w.Method("partition/gpt", "Table", "Write")
	roles := c09FindRoles(w, write)
	enc := roles.headerEnc
	name := fnName(enc)
	var hdrCRC *ssa.Call
	var hdrHi int64
	for _, cc := range calls(enc, false, func(c ssa.CallInstruction) bool { return isStdCall(c, "hash/crc32.ChecksumIEEE") }) {
		c := cc.(*ssa.Call)
		if lo, hi, ok := sliceConstBounds(c.Call.Args[0]); ok && lo == 0 && hi > 0 {
			hdrCRC, hdrHi = c, hi
		}
	}
	if hdrCRC == nil {
		r.Fail("C02-b", name, "header CRC over a constant range", w.relFile(enc.Pos()), "the header encoder computes no CRC over a constant prefix of the header")
		return
	}
	r.Check(hdrHi == 92, "C02-b", name, "header CRC covers [0:92]", w.relFile(hdrCRC.Pos()), fmt.Sprintf("[0:%d]", hdrHi), fmt.Sprintf("the header CRC is computed over [0:%d]; the UEFI header size (and the size field written at [12:16]) is 92", hdrHi))
	// stores into [0:hdrHi) after the CRC call
	buf := hdrCRC.Call.Args[0].(*ssa.Slice).X
	bad := ""
	crcStored := false
	after := func(ins ssa.Instruction) bool {
		if ins.Block() == hdrCRC.Block() {
			pastCRC := false
			for _, i := range ins.Block().Instrs {
				if i == ssa.Instruction(hdrCRC) {
					pastCRC = true
				}
				if i == ins {
					return pastCRC && i != ssa.Instruction(hdrCRC)
				}
			}
		}
		return hdrCRC.Block().Dominates(ins.Block()) && ins.Block() != hdrCRC.Block()
	}
	allInstrs(enc, func(ins ssa.Instruction) {
		c, ok := ins.(*ssa.Call)
		if !ok || !after(ins) {
			return
		}
		var dst ssa.Value
		if g := c.Call.StaticCallee(); g != nil && strings.Contains(fullFuncName(g), ").PutUint") {
			dst = c.Call.Args[len(c.Call.Args)-2]
		} else if bi, isB := c.Call.Value.(*ssa.Builtin); isB && bi.Name() == "copy" {
			dst = c.Call.Args[0]
		}
		if dst == nil {
			return
		}
		sl, isS := dst.(*ssa.Slice)
		if !isS || sl.X != buf {
			return
		}
		lo, hi, ok := sliceConstBounds(dst)
		if !ok {
			bad = "a store with non-constant bounds follows the CRC computation at " + w.relFile(c.Pos())
			return
		}
		if lo == 16 && hi == 20 {
			// the CRC itself: its value must be the CRC
			p := w.prov(c.Call.Args[len(c.Call.Args)-1], provOpts{})
			for _, rt := range p.Roots {
				if rt.Kind == RCall && rt.Call == ssa.CallInstruction(hdrCRC) {
					crcStored = true
				}
			}
			return
		}
		if lo < hdrHi {
			bad = fmt.Sprintf("bytes [%d:%d] of the header are stored after the header CRC was computed (%s)", lo, hi, w.relFile(c.Pos()))
		}
	})
	r.Check(bad == "" && crcStored, "C02-b", name, "header CRC is the last store into the checksummed range", w.relFile(hdrCRC.Pos()), "", "the header CRC does not cover the final header bytes: "+bad+map[bool]string{true: "", false: " (the CRC value is not stored at [16:20])"}[crcStored])
	// reader verifies the same range
	rd := w.Func("partition/gpt", "readGPTHeader")
	same := false
	for _, cc := range calls(rd, false, func(c ssa.CallInstruction) bool { return isStdCall(c, "hash/crc32.ChecksumIEEE") }) {
		if lo, hi, ok := sliceConstBounds(cc.Common().Args[0]); ok && lo == 0 && hi == hdrHi {
			same = true
		}
	}
	r.Check(same, "C02-b", fnName(rd), "reader verifies the range the writer checksums", w.relFile(rd.Pos()), "", fmt.Sprintf("the reader does not verify the header CRC over [0:%d], the range the writer checksums", hdrHi))
	// array CRC from the array encoder
	okArr := false
	for _, cc := range calls(enc, false, func(c ssa.CallInstruction) bool { return isStdCall(c, "hash/crc32.ChecksumIEEE") }) {
		if cc == ssa.CallInstruction(hdrCRC) {
			continue
		}
		p := w.prov(cc.Common().Args[0], provOpts{})
		for _, rt := range p.Roots {
			if rt.Kind == RCall && rt.Fn == roles.arrayEnc {
				okArr = true
			}
		}
	}
	r.Check(okArr, "C02-b", name, "array CRC computed from the array encoder's output", w.relFile(enc.Pos()), "", "the partition-array CRC in the header is not computed from the bytes the array encoder produces")
}

// c02Narrowing: narrowing conversions of geometry-derived values on the way into the on-disk encoders of gpt/mbr.
func c02Narrowing(w *World, r *Report) {
	n := 0
	for _, fn := range w.ModFns {
		p := w.pkgOf(fn)
		if p != "partition/gpt" && p != "partition/mbr" {
			continue
		}
		allInstrs(fn, func(ins ssa.Instruction) {
			cv, ok := ins.(*ssa.Convert)
			if !ok {
				return
			}
			to, from := typeBits(cv.Type()), typeBits(cv.X.Type())
			if to == 0 || from == 0 || to >= from {
				return
			}
			// feeds an encoder store (PutUintNN value or a byte store)?
			feeds := false
			for _, ref := range *cv.Referrers() {
				if c, ok := ref.(*ssa.Call); ok {
					if g := c.Call.StaticCallee(); g != nil && strings.Contains(fullFuncName(g), ").PutUint") {
						feeds = true
					}
				}
			}
			if !feeds {
				return
			}
			pv := w.prov(cv.X, provOpts{})
			geo := false
			for _, rt := range pv.Roots {
				if rt.Kind == RField {
					switch rt.Field.Name() {
					case "secondaryHeader", "primaryHeader", "firstDataSector", "lastDataSector", "Start", "End", "Size", "partitionFirstLBA":
						geo = true
					}
				}
			}
			if !geo {
				return
			}
			n++
			// guarded: a dominating comparison on the converted value against a constant (saturation)
			guarded := false
			for _, b := range fn.Blocks {
				iff, ok := lastInstr(b).(*ssa.If)
				if !ok {
					continue
				}
				bin, ok := iff.Cond.(*ssa.BinOp)
				if !ok {
					continue
				}
				switch bin.Op {
				case token.GTR, token.GEQ, token.LSS, token.LEQ:
				default:
					continue
				}
				px, py := stripConv(bin.X), stripConv(bin.Y)
				x := stripConv(cv.X)
				involves := px == x || py == x
				if ph, isPhi := x.(*ssa.Phi); isPhi {
					for _, e := range ph.Edges {
						if stripConv(e) == px || stripConv(e) == py {
							involves = true
						}
					}
				}
				if involves && (b.Dominates(cv.Block())) {
					guarded = true
				}
			}
			r.Check(guarded, "C02-c", fnName(fn), fmt.Sprintf("narrowing %d->%d bits of %s into an on-disk field", from, to, strings.Join(pv.rootStrings(), ",")), w.relFile(instrPos(cv)), "range-tested / saturated",
				fmt.Sprintf("a %d-bit geometry value is truncated to %d bits on its way into the on-disk table with no range test: for large disks the field wraps instead of saturating", from, to))
		})
	}
	if n == 0 {
		r.Ok("C02-c", "partition/gpt", "no narrowing conversion of geometry into on-disk fields", "partition/gpt", "")
	}
}

// c02SectorUnits: LBA <-> byte conversions use the configured sector size.
func c02SectorUnits(w *World, r *Report) {
	lbaFields := map[string]bool{"partitionFirstLBA": true, "primaryHeader": true, "secondaryHeader": true, "firstDataSector": true, "lastDataSector": true, "Start": true, "End": true}
	isLBA := func(v ssa.Value) (string, bool) {
		pv := w.prov(v, provOpts{})
		for _, rt := range pv.Roots {
			if rt.Kind == RField && lbaFields[rt.Field.Name()] {
				return rt.Field.Name(), true
			}
			if rt.Kind == RParam && rt.Param != nil && strings.HasSuffix(rt.Param.Name(), "LBA") {
				return rt.Param.Name(), true
			}
		}
		return "", false
	}
	for _, fn := range w.ModFns {
		pk := w.pkgOf(fn)
		if pk != "partition/gpt" && pk != "partition/mbr" {
			continue
		}
		k := 0
		allInstrs(fn, func(ins ssa.Instruction) {
			bin, ok := ins.(*ssa.BinOp)
			if !ok || (bin.Op != token.MUL && bin.Op != token.QUO) {
				return
			}
			for side := 0; side < 2; side++ {
				a, b := bin.X, bin.Y
				if side == 1 {
					a, b = b, a
				}
				if bin.Op == token.QUO && side == 1 {
					continue // bytes / sector size is judged on the divisor only when the dividend is a sector count: not a conversion we can type
				}
				name, lba := isLBA(a)
				if !lba {
					continue
				}
				k++
				c, isConst := constInt(stripConv(b))
				literal := isConst && (c == 512 || c == 4096)
				r.Check(!literal, "C02-e", fnName(fn), fmt.Sprintf("sector count (%s) scaled by the table's sector size #%d", name, k), w.relFile(bin.Pos()), "",
					fmt.Sprintf("a sector count derived from %s is scaled by the literal %d instead of the table's logical sector size: on a disk with the other supported sector size the table is written to or read from the wrong byte offsets", name, c))
				return
			}
		})
	}
}

// c02Identity (C02-f): both header copies carry one disk identity. The header encoder is called once per copy; if it
// can draw a random GUID (blank Table.GUID), the two copies differ unless the caller fixed the GUID first. So either
// the encoder stores what it drew into Table.GUID, or every function that encodes the header more than once is
// dominated, at each encoder call, by a call to a function that stores a generated GUID into Table.GUID.
func c02Identity(w *World, r *Report) {
	enc := w.Method(pGPT, "Table", "toGPTBytes")
	isRNG := func(c ssa.CallInstruction) bool {
		g := c.Common().StaticCallee()
		if g == nil {
			return false
		}
		n := fullFuncName(g)
		return strings.Contains(n, "uuid.New") || strings.HasPrefix(n, "math/rand") || strings.HasPrefix(n, "crypto/rand")
	}
	storesGUID := func(fn *ssa.Function) bool {
		found := false
		allInstrs(fn, func(ins ssa.Instruction) {
			if st, ok := ins.(*ssa.Store); ok {
				if n, f, _, ok := fieldOfAddr(st.Addr); ok && n != nil && n.Obj().Name() == "Table" && f.Name() == "GUID" {
					pv := w.prov(st.Val, provOpts{throughExternal: true})
					if pv.hasCall(func(rt Root) bool { return rt.Call != nil && isRNG(rt.Call) }) {
						found = true
					}
				}
			}
		})
		return found
	}
	draws := len(calls(enc, false, isRNG)) > 0
	if !draws {
		r.Ok("C02-f", fnName(enc), "header encoder draws no random identity", w.relFile(enc.Pos()), "")
		return
	}
	if storesGUID(enc) {
		r.Ok("C02-f", fnName(enc), "a drawn disk GUID is kept in the table", w.relFile(enc.Pos()), "")
		return
	}
	n := 0
	for _, fn := range w.ModFns {
		if w.pkgOf(fn) != pGPT || fn.Blocks == nil || fn == enc {
			continue
		}
		ecalls := calls(fn, false, func(c ssa.CallInstruction) bool { return c.Common().StaticCallee() == enc })
		if len(ecalls) < 2 {
			continue
		}
		n++
		bad := ""
		for _, ec := range ecalls {
			fixed := false
			for _, c := range calls(fn, false, func(c ssa.CallInstruction) bool {
				g := c.Common().StaticCallee()
				return g != nil && w.fnSet[g] && g != enc && g.Blocks != nil && storesGUID(g)
			}) {
				if c.Block().Dominates(ec.Block()) {
					fixed = true
				}
			}
			if !fixed {
				bad = w.relFile(ec.Pos())
			}
		}
		r.Check(bad == "", "C02-f", fnName(fn), "disk GUID is fixed before the header is encoded twice", w.relFile(fn.Pos()), "",
			"the header encoder draws a random disk GUID when Table.GUID is blank and does not keep it; this function encodes the header more than once (primary and backup) and the call at "+bad+" is not preceded by a call that stores a generated GUID into the table: the two copies get different identities and the backup no longer mirrors the primary")
	}
	if n == 0 {
		r.Ok("C02-f", pGPT, "no function encodes the header more than once", pGPT, "")
	}
}

// c02Names (C02-g): partition names are UTF-16. The decoder turns code units into runes with utf16.Decode, so the
// encoder must turn runes into code units with the utf16 package (surrogate pairs for runes beyond U+FFFF); a plain
// conversion rune -> uint16 truncates them.
func c02Names(w *World, r *Report) {
	enc := w.Method(pGPT, "Partition", "toBytes")
	dec := w.Func(pGPT, "partitionFromBytes")
	uses := func(fn *ssa.Function, names ...string) bool {
		return len(calls(fn, false, func(c ssa.CallInstruction) bool {
			g := c.Common().StaticCallee()
			if g == nil || g.Pkg == nil || g.Pkg.Pkg.Path() != "unicode/utf16" {
				return false
			}
			for _, n := range names {
				if g.Name() == n {
					return true
				}
			}
			return false
		})) > 0
	}
	decodes := uses(dec, "Decode", "DecodeRune")
	encodes := uses(enc, "Encode", "AppendRune", "EncodeRune")
	trunc := ""
	allInstrs(enc, func(ins ssa.Instruction) {
		cv, ok := ins.(*ssa.Convert)
		if !ok {
			return
		}
		from, to := typeBits(cv.X.Type()), typeBits(cv.Type())
		if from == 32 && to == 16 {
			if b, ok := cv.X.Type().Underlying().(*types.Basic); ok && b.Kind() == types.Int32 {
				trunc = w.relFile(cv.Pos())
			}
		}
	})
	r.Check(encodes && trunc == "", "C02-g", fnName(enc), "names are encoded with the UTF-16 encoder the decoder inverts", w.relFile(enc.Pos()), "",
		"GPT partition names are UTF-16LE, but the encoder does not produce its code units with the utf16 package"+map[bool]string{true: " (a rune is converted straight to uint16 at " + trunc + ")", false: ""}[trunc != ""]+": a rune beyond U+FFFF is truncated instead of written as a surrogate pair and reads back as a different character")
	// the decoder side: code units become runes through utf16.Decode / DecodeRune, never by widening a single unit
	widen := ""
	allInstrs(dec, func(ins ssa.Instruction) {
		cv, ok := ins.(*ssa.Convert)
		if !ok {
			return
		}
		fb, ok1 := cv.X.Type().Underlying().(*types.Basic)
		tb, ok2 := cv.Type().Underlying().(*types.Basic)
		if ok1 && ok2 && fb.Kind() == types.Uint16 && tb.Kind() == types.Int32 {
			widen = w.relFile(cv.Pos())
		}
	})
	r.Check(decodes && widen == "", "C02-g", fnName(dec), "names are decoded with the UTF-16 decoder", w.relFile(dec.Pos()), "",
		"GPT partition names are UTF-16LE, but the entry decoder does not turn its code units into runes with the utf16 package"+map[bool]string{true: " (a single code unit is widened to a rune at " + widen + ")", false: ""}[widen != ""]+": a surrogate pair is read back as two invalid characters instead of the rune that was written")
}

// c02NameLimit (C02-g, length): the 72 bytes of the name field hold 36 UTF-16 code units; the encoder's limit test must
// count code units (len of the []uint16 it writes), not runes or bytes: a rune beyond U+FFFF takes two units.
func c02NameLimit(w *World, r *Report) {
	enc := w.Method(pGPT, "Partition", "toBytes")
	n := 0
	for _, b := range enc.Blocks {
		iff, ok := lastInstr(b).(*ssa.If)
		if !ok {
			continue
		}
		bin, ok := iff.Cond.(*ssa.BinOp)
		if !ok {
			continue
		}
		for _, sides := range [][2]ssa.Value{{bin.X, bin.Y}, {bin.Y, bin.X}} {
			lc, ok := stripConv(sides[0]).(*ssa.Call)
			if !ok {
				continue
			}
			bi, ok := lc.Call.Value.(*ssa.Builtin)
			if !ok || bi.Name() != "len" {
				continue
			}
			k, isC := constInt(sides[1])
			if !isC || k < 30 || k > 80 {
				continue
			}
			leadsErr := false
			for idx := range b.Succs {
				if blockLeadsToErrorReturn(b.Succs[idx], 0) {
					leadsErr = true
				}
			}
			if !leadsErr {
				continue
			}
			// is it about the name?
			aboutName := w.prov(lc.Call.Args[0], provOpts{throughExternal: true}).hasField("Partition", "Name")
			if sl, ok := lc.Call.Args[0].Type().Underlying().(*types.Slice); ok {
				if bt, ok := sl.Elem().Underlying().(*types.Basic); ok && (bt.Kind() == types.Uint16 || bt.Kind() == types.Int32) {
					aboutName = true // the only code units / runes this encoder handles are the name's
				}
			}
			if !aboutName {
				continue
			}
			n++
			units := false
			if sl, ok := lc.Call.Args[0].Type().Underlying().(*types.Slice); ok {
				if bt, ok := sl.Elem().Underlying().(*types.Basic); ok && bt.Kind() == types.Uint16 {
					units = true
				}
			}
			r.Check(units && k == 36, "C02-g", fnName(enc), "name limit counts UTF-16 code units", w.relFile(instrPos(iff)), "",
				fmt.Sprintf("the encoder limits the partition name by len() of a %s (limit %d) instead of the 36 UTF-16 code units the 72-byte field holds: a name with runes beyond U+FFFF passes the test and the units written overrun the 128-byte entry (panic) or a legal 36-unit name is refused", lc.Call.Args[0].Type().String(), k))
		}
	}
	if n == 0 {
		r.Fail("C02-g", fnName(enc), "name limit counts UTF-16 code units", w.relFile(enc.Pos()), "the entry encoder does not limit the length of the partition name at all: more than 36 code units overrun the 128-byte entry")
	}
}

// c02ProtectiveSignature (C02-h): the boot signature of the protective MBR closes the 512-byte MBR at bytes 510..511 of
// LBA 0 for every logical sector size (UEFI 5.2.3): wherever the gpt package writes or compares the signature bytes,
// the window starts at the constant 510 - not at the end of a sector-sized buffer.
func c02ProtectiveSignature(w *World, r *Report) {
	n := 0
	for _, fn := range w.ModFns {
		if w.pkgOf(fn) != pGPT {
			continue
		}
		allInstrs(fn, func(ins ssa.Instruction) {
			c, ok := ins.(*ssa.Call)
			if !ok {
				return
			}
			isSig := func(v ssa.Value) bool {
				for _, rt := range w.prov(v, provOpts{}).Roots {
					if rt.Kind == RCall && rt.Fn != nil && rt.Fn.Name() == "getMbrSignature" {
						return true
					}
				}
				return false
			}
			args := c.Call.Args
			if len(args) != 2 {
				return
			}
			var other ssa.Value
			switch {
			case isSig(args[0]) && !isSig(args[1]):
				other = args[1]
			case isSig(args[1]) && !isSig(args[0]):
				other = args[0]
			default:
				return
			}
			bi, isB := c.Call.Value.(*ssa.Builtin)
			if !(isStdCall(c, "bytes.Equal") || (isB && bi.Name() == "copy")) {
				return
			}
			n++
			okPos := false
			if sl, ok := stripConv(other).(*ssa.Slice); ok && sl.Low != nil {
				if k, isC := constInt(sl.Low); isC && k == 510 {
					okPos = true
				}
			}
			r.Check(okPos, "C02-h", fnName(fn), "MBR signature at bytes 510..511 #"+ordinal(fn, c), w.relFile(c.Pos()), "",
				"the protective MBR's boot signature is written or compared at a position other than the constant 510 (for instance the last two bytes of a sector-sized buffer): with 4096-byte logical sectors writer and reader (and every independent parser, which looks at 510) disagree, and a table written with a protective MBR reads back without it")
		})
	}
	if n < 2 {
		r.Undecided("C02-h", "partition/gpt", "MBR signature position", "partition/gpt", "fewer than two uses (one writing, one comparing) of the MBR signature bytes found in package gpt")
	}
}

package main

// C10 — file handles honour the Read/Seek contract on every filesystem (structural clauses).

import (
	"fmt"
	"go/token"
	"go/types"
	"sort"
	"strings"

	"golang.org/x/tools/go/ssa"
)

func init() {
	register("C10", runC10, `Structural clauses of the Read/Seek contract, decided for every implementer of filesystem.File and cross-checked as siblings.
C10-a Seek arms: under whence==SeekStart the new cursor is the offset argument; under SeekCurrent it is cursor + offset; under SeekEnd it is size + offset where size derives from the handle's file size; all terms positive (no subtraction).
C10-b a negative target returns an error and the store to the cursor is dominated by the non-negative edge.
C10-c closed guard: Close stores a sentinel (a field set to nil/true, or the whole struct zeroed); Read and Seek test that sentinel before touching any other field of the handle and return a non-nil error on the closed edge.
C10-d clamp dependence: every addend of the count Read returns, and the length of every ReadAt/copy that places bytes into the caller's buffer, depends (by data flow or through the comparison that selects it) on both the file size and the cursor, i.e. on the bytes that remain; an addend that depends only on len(b) or the cluster size has the same value with 1 byte left as with 1 MiB left.
C10-e EOF: io.EOF is returned under a comparison between cursor and size, and the cursor advances by exactly the addends of the returned count. The end-of-file comparison dominates every error return that is decided from the cursor (a Read at or beyond the end answers io.EOF, not a position error).
C10-f in the extent loops of ext4 File.Read/Write the device offset of each transfer depends on a value the transfer's own count updates (the advancing cursor), not on a position taken once before the loop.
Decides these clauses, not which bytes are returned.`)
}

func fileImpls(w *World) []*types.Named {
	return w.Implementers(w.Iface("filesystem", "File"))
}

// sizeRoot: a provenance root that is the handle's file size.
func sizeRoot(rt Root) bool {
	switch rt.Kind {
	case RField:
		n := rt.Field.Name()
		return n == "fileSize" || n == "size" || n == "Size"
	case RCall:
		n := ""
		if rt.Fn != nil {
			n = rt.Fn.Name()
		} else if rt.Meth != nil {
			n = rt.Meth.Name()
		}
		return n == "size" || n == "Size"
	}
	return false
}

func hasSizeRoot(p *Prov) bool {
	for _, rt := range p.Roots {
		if sizeRoot(rt) {
			return true
		}
	}
	return false
}

func hasCursorRoot(p *Prov) bool { return p.hasField("File", "offset") }

func runC10(w *World, r *Report) {
	impls := fileImpls(w)
	n := 0
	for _, t := range impls {
		if !w.libraryFn(w.MethodOf(t, "Read")) {
			continue
		}
		n++
		c10Seek(w, r, t)
		c10Closed(w, r, t)
		c10Read(w, r, t)
	}
	c10ExtentCursor(w, r)
	r.Floor("C10-f", r.countRule("C10-f"), 2)
	r.Floor("C10 implementers", n, 4)
	r.Floor("C10-a", r.countRule("C10-a"), 12)
	r.Floor("C10-c", r.countRule("C10-c"), 8)
	r.Floor("C10-d", r.countRule("C10-d"), 8)
}

// ---- Seek ---------------------------------------------------------------------------------------

func c10Seek(w *World, r *Report, t *types.Named) {
	seek := w.MethodOf(t, "Seek")
	if seek == nil || len(seek.Params) < 3 {
		fatalf("C10: %s has no Seek(offset, whence)", t)
	}
	name := fnName(seek)
	offP, whP := seek.Params[1], seek.Params[2]
	// the store to the cursor field
	var cursorStores []*ssa.Store
	allInstrs(seek, func(ins ssa.Instruction) {
		if st, ok := ins.(*ssa.Store); ok {
			if _, f, _, ok := fieldOfAddr(st.Addr); ok && f.Name() == "offset" {
				cursorStores = append(cursorStores, st)
			}
		}
	})
	if len(cursorStores) == 0 {
		r.Fail("C10-a", name, "cursor store", w.relFile(seek.Pos()), "Seek never stores a new cursor")
		return
	}
	// whence edges: block -> constant
	whenceOf := func(b *ssa.BasicBlock) (int64, bool) {
		for _, bb := range seek.Blocks {
			iff, ok := lastInstr(bb).(*ssa.If)
			if !ok {
				continue
			}
			bin, ok := iff.Cond.(*ssa.BinOp)
			if !ok || bin.Op != token.EQL {
				continue
			}
			if stripConv(bin.X) != ssa.Value(whP) {
				continue
			}
			k, ok := constInt(bin.Y)
			if !ok {
				continue
			}
			if bb.Succs[0] == b || edgeDominates(bb, 0, b) {
				return k, true
			}
		}
		return 0, false
	}
	arms := map[int64]string{}
	for _, st := range cursorStores {
		var edges []struct {
			v    ssa.Value
			pred *ssa.BasicBlock
		}
		if ph, ok := st.Val.(*ssa.Phi); ok {
			for i, e := range ph.Edges {
				edges = append(edges, struct {
					v    ssa.Value
					pred *ssa.BasicBlock
				}{e, ph.Block().Preds[i]})
			}
		} else {
			edges = append(edges, struct {
				v    ssa.Value
				pred *ssa.BasicBlock
			}{st.Val, st.Block()})
		}
		for _, e := range edges {
			k, ok := whenceOf(e.pred)
			if !ok {
				// default arm (unknown whence): value must be the initial constant; ignore constants
				if _, isC := e.v.(*ssa.Const); isC {
					continue
				}
				r.Undecided("C10-a", name, "arm of unknown whence", w.relFile(instrPos(st)), "a cursor value is computed on a path not selected by a whence constant: "+shortVal(e.v))
				continue
			}
			terms := addends(e.v)
			var desc []string
			okArm := true
			nOff, nCur, nSize := 0, 0, 0
			for _, tm := range terms {
				v := stripConv(tm.v)
				p := w.prov(v, provOpts{})
				switch {
				case v == ssa.Value(offP):
					nOff++
					desc = append(desc, sign(tm.neg)+"offset")
				case hasCursorRoot(p) && len(p.Roots) == 1:
					nCur++
					desc = append(desc, sign(tm.neg)+"cursor")
				case hasSizeRoot(p):
					nSize++
					desc = append(desc, sign(tm.neg)+"size")
				default:
					if c, isC := constInt(v); isC && c == 0 {
						continue
					}
					okArm = false
					desc = append(desc, sign(tm.neg)+shortVal(v))
				}
				if tm.neg {
					okArm = false
				}
			}
			switch k {
			case 0:
				okArm = okArm && nOff == 1 && nCur == 0 && nSize == 0
			case 1:
				okArm = okArm && nOff == 1 && nCur == 1 && nSize == 0
			case 2:
				okArm = okArm && nOff == 1 && nCur == 0 && nSize == 1
			default:
				continue
			}
			want := map[int64]string{0: "offset", 1: "cursor + offset", 2: "size + offset"}[k]
			arms[k] = strings.Join(desc, " ")
			r.Check(okArm, "C10-a", name, fmt.Sprintf("whence=%d: new cursor = %s", k, want), w.relFile(instrPos(st)),
				strings.Join(desc, " "), fmt.Sprintf("under whence=%d the new cursor is computed as [%s], io.Seeker requires %s", k, strings.Join(desc, " "), want))
		}
	}
	for k := int64(0); k <= 2; k++ {
		if _, ok := arms[k]; !ok {
			r.Fail("C10-a", name, fmt.Sprintf("whence=%d: new cursor = %s", k, map[int64]string{0: "offset", 1: "cursor + offset", 2: "size + offset"}[k]), w.relFile(seek.Pos()),
				fmt.Sprintf("Seek has no arm for whence=%d", k))
		}
	}
	// C10-b
	for _, st := range cursorStores {
		good := false
		for _, b := range seek.Blocks {
			iff, ok := lastInstr(b).(*ssa.If)
			if !ok {
				continue
			}
			bin, ok := iff.Cond.(*ssa.BinOp)
			if !ok {
				continue
			}
			z, isZ := constInt(bin.Y)
			if !isZ || z != 0 || stripConv(bin.X) != stripConv(st.Val) {
				continue
			}
			negIdx := -1
			switch bin.Op {
			case token.LSS:
				negIdx = 0
			case token.GEQ:
				negIdx = 1
			}
			if negIdx < 0 {
				continue
			}
			if edgeDominates(b, 1-negIdx, st.Block()) && blockLeadsToErrorReturn(b.Succs[negIdx], 0) {
				good = true
			}
		}
		r.Check(good, "C10-b", name, "negative target rejected before the cursor moves", w.relFile(st.Pos()), "",
			"the cursor store is not dominated by the (target >= 0) edge of a test whose negative edge returns an error")
	}
}

func sign(neg bool) string {
	if neg {
		return "-"
	}
	return "+"
}

// ---- closed guard -------------------------------------------------------------------------------

type sentinel struct {
	field *types.Var // nil => whole struct zeroed
	whole bool
}

func c10Closed(w *World, r *Report, t *types.Named) {
	cl := w.MethodOf(t, "Close")
	if cl == nil {
		fatalf("C10: %s has no Close", t)
	}
	cname := fnName(cl)
	var sents []sentinel
	allInstrs(cl, func(ins ssa.Instruction) {
		st, ok := ins.(*ssa.Store)
		if !ok {
			return
		}
		if _, f, base, ok := fieldOfAddr(st.Addr); ok {
			if base == ssa.Value(cl.Params[0]) {
				sents = append(sents, sentinel{field: f})
			}
			return
		}
		if st.Addr == ssa.Value(cl.Params[0]) {
			sents = append(sents, sentinel{whole: true})
		}
	})
	if len(sents) == 0 {
		r.Fail("C10-c", cname, "Close records a sentinel", w.relFile(cl.Pos()), "Close stores nothing into the handle, so Read/Seek cannot tell a closed handle")
		return
	}
	r.Ok("C10-c", cname, "Close records a sentinel", w.relFile(cl.Pos()), fmt.Sprintf("%d store(s)", len(sents)))
	for _, mn := range []string{"Read", "Seek"} {
		m := w.MethodOf(t, mn)
		if m == nil {
			continue
		}
		name := fnName(m)
		recv := m.Params[0]
		// guard: an If testing a field the sentinel covers (or any pointer field when the whole struct is zeroed)
		type guard struct {
			iff       *ssa.If
			closedIdx int
			field     *types.Var
		}
		var guards []guard
		for _, b := range m.Blocks {
			iff, ok := lastInstr(b).(*ssa.If)
			if !ok {
				continue
			}
			// forms: fl.F == nil / fl.F != nil / fl.closed / !fl.closed
			var fld *types.Var
			closedIdx := -1
			if x, trueNonNil, ok := nilTest(iff.Cond); ok {
				if ld, ok := x.(*ssa.UnOp); ok && ld.Op == token.MUL {
					if _, f, base, ok := fieldOfAddr(ld.X); ok && unspillParam(base) == ssa.Value(recv) {
						fld = f
						closedIdx = 0
						if trueNonNil {
							closedIdx = 1
						}
					}
				}
			} else {
				v, trueIdx := boolCondEdge(iff)
				if ld, ok := v.(*ssa.UnOp); ok && ld.Op == token.MUL {
					if _, f, base, ok := fieldOfAddr(ld.X); ok && unspillParam(base) == ssa.Value(recv) && isBoolType(f.Type()) {
						fld = f
						closedIdx = trueIdx
					}
				}
			}
			if fld == nil {
				continue
			}
			covered := false
			for _, s := range sents {
				if s.whole || s.field == fld {
					covered = true
				}
			}
			if covered && blockLeadsToErrorReturn(b.Succs[closedIdx], 0) {
				guards = append(guards, guard{iff, closedIdx, fld})
			}
		}
		if len(guards) == 0 {
			r.Fail("C10-c", name, "closed guard", w.relFile(m.Pos()), mn+" does not test the sentinel Close stores: after Close it dereferences released state or returns data instead of an error")
			continue
		}
		// every other load through the receiver is dominated by the open edge of some guard
		bad := ""
		allInstrs(m, func(ins ssa.Instruction) {
			fa, ok := ins.(*ssa.FieldAddr)
			if !ok || unspillParam(fa.X) != ssa.Value(recv) {
				return
			}
			_, f, _, _ := fieldOfAddr(fa)
			for _, g := range guards {
				if f == g.field && fa.Block() == g.iff.Block() {
					return
				}
				if edgeDominates(g.iff.Block(), 1-g.closedIdx, fa.Block()) {
					return
				}
				// the nil-receiver test `fl == nil ||` precedes the guard in the same short-circuit chain
				if fa.Block().Dominates(g.iff.Block()) && f == g.field {
					return
				}
			}
			if bad == "" {
				bad = "field " + f.Name() + " at " + w.relFile(instrPos(fa))
			}
		})
		r.Check(bad == "", "C10-c", name, "closed guard", w.relFile(guards[0].iff.Pos()), "sentinel tested first; closed edge returns an error",
			mn+" touches the handle before the closed test: "+bad)
	}
}

// ---- Read ---------------------------------------------------------------------------------------

// accumLeaves decomposes an accumulated count into its leaf addends.
func accumLeaves(v ssa.Value) []ssa.Value {
	l, _ := accumLeavesAcc(v)
	return l
}

// accumLeavesAcc also returns the accumulator values (count-merging phis, sums, cell loads) it walked through.
func accumLeavesAcc(v ssa.Value) ([]ssa.Value, map[ssa.Value]bool) {
	var out []ssa.Value
	acc := map[ssa.Value]bool{}
	seen := map[ssa.Value]bool{}
	var rec func(v ssa.Value, d int)
	rec = func(v ssa.Value, d int) {
		v = stripConv(v)
		if seen[v] || d > 40 {
			return
		}
		seen[v] = true
		switch x := v.(type) {
		case *ssa.Const:
			if c, ok := constInt(x); ok && c == 0 {
				return
			}
			out = append(out, v)
		case *ssa.Phi:
			// only phis that merge counts (constants, sums, other such phis) are decomposed; a phi that
			// selects between two candidate lengths (min pattern) is a leaf judged as a whole
			if countLikePhi(x, map[*ssa.Phi]bool{}) {
				acc[v] = true
				for _, e := range x.Edges {
					rec(e, d+1)
				}
				return
			}
			out = append(out, v)
		case *ssa.BinOp:
			if x.Op == token.ADD {
				acc[v] = true
				rec(x.X, d+1)
				rec(x.Y, d+1)
				return
			}
			out = append(out, v)
		case *ssa.UnOp:
			if x.Op == token.MUL {
				// load of a local cell (possibly captured by a closure)
				sts := cellStores(x.X)
				if _, isAlloc := x.X.(*ssa.Alloc); isAlloc || len(sts) > 0 {
					if al, ok := x.X.(*ssa.Alloc); ok && len(sts) == 0 {
						for _, ref := range *al.Referrers() {
							if st, ok := ref.(*ssa.Store); ok && st.Addr == ssa.Value(al) {
								sts = append(sts, st)
							}
						}
					}
					acc[v] = true
					for _, st := range sts {
						rec(st.Val, d+1)
					}
					return
				}
			}
			out = append(out, v)
		default:
			out = append(out, v)
		}
	}
	rec(v, 0)
	return out, acc
}

var c10ProvOpts = provOpts{phiControl: true, lenOfMake: true, sliceLen: true,
	callThrough: func(c *ssa.Call) ([]ssa.Value, bool) {
		// the count returned by ReadAt / copy depends on the buffer it fills
		if isReadAt(c) {
			return []ssa.Value{argsOf(c)[0]}, true
		}
		return nil, false
	}}

func dependsOnRemaining(w *World, v ssa.Value, acc map[ssa.Value]bool) (bool, string) {
	o := c10ProvOpts
	if acc != nil {
		// the running count itself is not evidence of a clamp: stop at the accumulators
		o.stopAt = func(x ssa.Value) bool { return acc[x] && x != v }
	}
	p := w.prov(v, o)
	hs, hc := hasSizeRoot(p), hasCursorRoot(p)
	if hs && hc {
		return true, "depends on size and cursor"
	}
	var missing []string
	if !hs {
		missing = append(missing, "file size")
	}
	if !hc {
		missing = append(missing, "cursor")
	}
	return false, "does not depend on the " + strings.Join(missing, " / ") + " (roots: " + strings.Join(p.rootStrings(), ",") + ")"
}

func c10Read(w *World, r *Report, t *types.Named) {
	rd := w.MethodOf(t, "Read")
	name := fnName(rd)
	bParam := rd.Params[1]
	// returned count leaves
	leafSet := map[ssa.Value]bool{}
	acc := map[ssa.Value]bool{}
	for _, ret := range returnsOf(rd) {
		if classifyReturn(ret) == RetError {
			// io.EOF returns are "errors" by classification but carry a count; include returns of io.EOF
			if !returnsEOF(ret) {
				continue
			}
		}
		ls, a := accumLeavesAcc(retResult(ret, 0))
		for _, l := range ls {
			leafSet[l] = true
		}
		for x := range a {
			acc[x] = true
		}
	}
	var leaves []ssa.Value
	for l := range leafSet {
		leaves = append(leaves, l)
	}
	sort.Slice(leaves, func(i, j int) bool { return instrPosOfValue(leaves[i]) < instrPosOfValue(leaves[j]) })
	if len(leaves) == 0 {
		r.Fail("C10-d", name, "returned count", w.relFile(rd.Pos()), "Read never returns a non-zero count")
	}
	for i, l := range leaves {
		ok, why := dependsOnRemaining(w, l, acc)
		r.Check(ok, "C10-d", name, fmt.Sprintf("count addend #%d is clamped by the bytes that remain", i+1), w.relFile(valuePos(l)), why,
			"an addend of the count Read returns "+why+": with fewer bytes left than the buffer holds, Read reports (and delivers) more than remain")
	}
	// placements into b
	k := 0
	for _, fn := range withClosures(rd) {
		allInstrs(fn, func(ins ssa.Instruction) {
			c, ok := ins.(*ssa.Call)
			if !ok {
				return
			}
			var dst ssa.Value
			var lens []ssa.Value
			if isReadAt(c) {
				dst = argsOf(c)[0]
				lens = []ssa.Value{dst}
			} else if b, isB := c.Call.Value.(*ssa.Builtin); isB && b.Name() == "copy" {
				dst = c.Call.Args[0]
				lens = []ssa.Value{c.Call.Args[0], c.Call.Args[1]}
			} else {
				return
			}
			// destination must be (a window of) the caller's buffer
			pd := w.prov(dst, provOpts{})
			into := false
			for _, rt := range pd.Roots {
				if rt.Kind == RParam && rt.Param == bParam {
					into = true
				}
				if rt.Kind == RFree {
					into = into || rt.Val.Name() == bParam.Name()
				}
			}
			if !into {
				// closure capturing b
				for _, rt := range w.prov(dst, provOpts{}).Roots {
					if fv, ok := rt.Val.(*ssa.FreeVar); ok && fv.Name() == bParam.Name() {
						into = true
					}
				}
			}
			if !into {
				return
			}
			k++
			good := false
			why := ""
			for _, l := range lens {
				// the length of a slice value depends on its bounds
				if ok, w2 := dependsOnRemaining(w, sliceBounds(l), acc); ok {
					good = true
				} else {
					why = w2
				}
			}
			r.Check(good, "C10-d", name, fmt.Sprintf("placement #%d into the caller's buffer is clamped", k), w.relFile(c.Pos()), "length depends on size and cursor",
				"bytes are placed into the caller's buffer with a length that "+why)
		})
	}
	if k == 0 {
		r.Fail("C10-d", name, "placement into the caller's buffer", w.relFile(rd.Pos()), "Read never writes into its buffer")
	}
	// C10-d (arithmetic form): the remaining length must not be computed in unsigned arithmetic, where a
	// cursor beyond the end (Seek allows it) wraps to a huge length instead of going negative
	for _, fn := range withClosures(rd) {
		allInstrs(fn, func(ins ssa.Instruction) {
			bin, ok := ins.(*ssa.BinOp)
			if !ok || bin.Op != token.SUB {
				return
			}
			bt, ok := bin.Type().Underlying().(*types.Basic)
			if !ok || bt.Info()&types.IsUnsigned == 0 {
				return
			}
			px, py := w.prov(bin.X, provOpts{}), w.prov(bin.Y, provOpts{})
			if hasSizeRoot(px) && hasCursorRoot(py) {
				r.Fail("C10-d", name, "remaining length computed in signed arithmetic", w.relFile(instrPos(bin)),
					"size - cursor is computed in an unsigned type: with the cursor beyond the end the result wraps and the end-of-file test is skipped")
			}
		})
	}
	// C10-e EOF under a size/cursor comparison
	eofOK := false
	allInstrs(rd, func(ins ssa.Instruction) {
		ld, ok := ins.(*ssa.UnOp)
		if !ok || ld.Op != token.MUL {
			return
		}
		g, ok := ld.X.(*ssa.Global)
		if !ok || g.Name() != "EOF" || g.Pkg.Pkg.Path() != "io" {
			return
		}
		// the branch that immediately selects this io.EOF compares size and cursor
		blk := ld.Block()
		if len(blk.Preds) == 1 {
			if iff, ok := lastInstr(blk.Preds[0]).(*ssa.If); ok {
				pc := w.prov(iff.Cond, provOpts{stopAt: func(x ssa.Value) bool { return acc[x] }})
				if hasSizeRoot(pc) && hasCursorRoot(pc) {
					eofOK = true
				}
			}
		}
	})
	r.Check(eofOK, "C10-e", name, "io.EOF decided by comparing cursor and size", w.relFile(rd.Pos()), "", "no io.EOF return controlled by a comparison of the cursor with the file size")
	// C10-e (order): the end-of-file decision comes before any failure that is decided from the cursor: a Read with the
	// cursor at or past the end must answer io.EOF, not an error about a position that no longer maps to data
	var eofIfs []*ssa.BasicBlock
	isEOFLoad := func(v ssa.Value) bool {
		ld, ok := v.(*ssa.UnOp)
		if !ok || ld.Op != token.MUL {
			return false
		}
		g, ok := ld.X.(*ssa.Global)
		return ok && g.Name() == "EOF" && g.Pkg.Pkg.Path() == "io"
	}
	for _, b := range rd.Blocks {
		iff, ok := lastInstr(b).(*ssa.If)
		if !ok {
			continue
		}
		pc := w.prov(iff.Cond, provOpts{stopAt: func(x ssa.Value) bool { return acc[x] }})
		if !hasSizeRoot(pc) || !hasCursorRoot(pc) {
			continue
		}
		for _, sb := range b.Succs {
			if ret, ok := lastInstr(sb).(*ssa.Return); ok && len(sb.Preds) == 1 {
				for _, rv := range ret.Results {
					if isEOFLoad(rv) {
						eofIfs = append(eofIfs, b)
					}
				}
			}
		}
	}
	if len(eofIfs) > 0 {
		k := 0
		for _, ret := range returnsOf(rd) {
			if classifyReturn(ret) != RetError {
				continue
			}
			isEOF := false
			for _, rv := range ret.Results {
				if isEOFLoad(rv) {
					isEOF = true
				}
			}
			if isEOF {
				continue
			}
			// decided from the cursor?
			cursorDecided := false
			for _, b := range rd.Blocks {
				iff, ok := lastInstr(b).(*ssa.If)
				if !ok {
					continue
				}
				for idx := range b.Succs {
					if edgeDominates(b, idx, ret.Block()) {
						if pc := w.prov(iff.Cond, provOpts{stopAt: func(x ssa.Value) bool { return acc[x] }}); hasCursorRoot(pc) {
							cursorDecided = true
						}
					}
				}
			}
			if !cursorDecided {
				continue
			}
			k++
			after := false
			for _, e := range eofIfs {
				if e == ret.Block() || e.Dominates(ret.Block()) {
					after = true
				}
			}
			r.Check(after, "C10-e", name, fmt.Sprintf("failure decided from the cursor comes after the end-of-file decision #%d", k), w.relFile(instrPos(ret)), "",
				"an error return that is decided from the cursor position can be reached before the cursor has been compared with the file size: a Read with the cursor at or beyond the end (after the last byte was delivered, or after Seek(0, io.SeekEnd)) fails with that error instead of reporting io.EOF")
		}
	}
	// cursor advances by the returned count
	var inc []ssa.Value
	for _, fn := range withClosures(rd) {
		allInstrs(fn, func(ins ssa.Instruction) {
			st, ok := ins.(*ssa.Store)
			if !ok {
				return
			}
			if _, f, _, ok := fieldOfAddr(st.Addr); ok && f.Name() == "offset" {
				for _, tm := range addends(st.Val) {
					v := stripConv(tm.v)
					if p := w.prov(v, provOpts{}); hasCursorRoot(p) && len(p.Roots) == 1 {
						continue
					}
					inc = append(inc, accumLeaves(v)...)
				}
			}
		})
	}
	// a count handed back together with an error (a short device read) also moves the cursor by what it reports
	anyLeaf := map[ssa.Value]bool{}
	for l := range leafSet {
		anyLeaf[l] = true
	}
	for _, ret := range returnsOf(rd) {
		for _, l := range accumLeaves(retResult(ret, 0)) {
			anyLeaf[l] = true
		}
	}
	same := len(inc) > 0
	for _, v := range inc {
		if !anyLeaf[v] {
			same = false
		}
	}
	r.Check(same, "C10-e", name, "cursor advances by the returned count", w.relFile(rd.Pos()), fmt.Sprintf("%d increment leaf/leaves, all among the %d count addends", len(inc), len(leaves)),
		"the cursor is advanced by something other than the addends of the returned count")
}

func countLikePhi(ph *ssa.Phi, seen map[*ssa.Phi]bool) bool {
	if seen[ph] {
		return true
	}
	seen[ph] = true
	for _, e := range ph.Edges {
		switch x := stripConv(e).(type) {
		case *ssa.Const:
		case *ssa.BinOp:
			if x.Op != token.ADD {
				return false
			}
		case *ssa.Phi:
			if !countLikePhi(x, seen) {
				return false
			}
		default:
			return false
		}
	}
	return true
}

func returnsEOF(ret *ssa.Return) bool {
	idx := errResultIndex(ret.Parent().Signature)
	if idx < 0 {
		return false
	}
	found := false
	var rec func(v ssa.Value, d int)
	rec = func(v ssa.Value, d int) {
		if d > 5 {
			return
		}
		switch x := v.(type) {
		case *ssa.UnOp:
			if g, ok := x.X.(*ssa.Global); ok && g.Name() == "EOF" {
				found = true
			}
		case *ssa.Phi:
			for _, e := range x.Edges {
				rec(e, d+1)
			}
		}
	}
	rec(retResult(ret, idx), 0)
	return found
}

// sliceBounds returns a value standing for the length of slice expression v: its high bound if it is a
// Slice with one, otherwise v itself.
func sliceBounds(v ssa.Value) ssa.Value {
	if sl, ok := v.(*ssa.Slice); ok {
		if sl.High != nil {
			return sl.High
		}
		return sliceBounds(sl.X)
	}
	return v
}

func valuePos(v ssa.Value) token.Pos {
	if ins, ok := v.(ssa.Instruction); ok {
		return instrPos(ins)
	}
	return v.Pos()
}

func instrPosOfValue(v ssa.Value) token.Pos { return valuePos(v) }

// c10ExtentCursor (C10-f): in the extent loops of ext4 File.Read / File.Write the device offset of each transfer is
// computed from the advancing cursor: it depends on a value that the transfer's own count updates (a loop-carried
// accumulator, or a field stored inside the loop from the count). A position taken once before the loop is right for
// the first extent only: a read that crosses into a second extent returns bytes from the wrong place.
func c10ExtentCursor(w *World, r *Report) {
	for _, mn := range []string{"Read", "Write"} {
		fn := w.Method("filesystem/ext4", "File", mn)
		k := 0
		for _, cc := range calls(fn, false, func(c ssa.CallInstruction) bool { return isReadAt(c) || isWriteAt(c) }) {
			c, ok := cc.(*ssa.Call)
			if !ok {
				continue
			}
			loop := cycleThrough(c.Block())
			if len(loop) == 0 {
				continue
			}
			k++
			dependsOnCount := func(v ssa.Value) bool {
				for _, rt := range w.prov(v, provOpts{}).Roots {
					if rt.Kind == RCall && rt.Call == ssa.CallInstruction(c) {
						return true
					}
				}
				return false
			}
			// accumulators
			accPhi := map[*ssa.Phi]bool{}
			accField := map[*types.Var]bool{}
			for b := range loop {
				for _, ins := range b.Instrs {
					switch x := ins.(type) {
					case *ssa.Phi:
						for _, e := range x.Edges {
							if dependsOnCount(e) {
								accPhi[x] = true
							}
						}
					case *ssa.Store:
						if _, f, _, ok := fieldOfAddr(x.Addr); ok && dependsOnCount(x.Val) {
							accField[f] = true
						}
					}
				}
			}
			args := argsOf(c)
			off := args[len(args)-1]
			seen := map[ssa.Value]bool{}
			found := false
			var walk func(v ssa.Value, d int)
			walk = func(v ssa.Value, d int) {
				if v == nil || seen[v] || found || d > 30 {
					return
				}
				seen[v] = true
				switch x := v.(type) {
				case *ssa.Phi:
					if accPhi[x] {
						found = true
						return
					}
					for _, e := range x.Edges {
						walk(e, d+1)
					}
				case *ssa.UnOp:
					if x.Op == token.MUL {
						if _, f, _, ok := fieldOfAddr(x.X); ok && accField[f] && loop[x.Block()] {
							found = true
							return
						}
						return
					}
					walk(x.X, d+1)
				case *ssa.BinOp:
					walk(x.X, d+1)
					walk(x.Y, d+1)
				case *ssa.Convert:
					walk(x.X, d+1)
				case *ssa.ChangeType:
					walk(x.X, d+1)
				}
			}
			walk(off, 0)
			name := callMethodName(c)
			r.Check(found, "C10-f", fnName(fn), fmt.Sprintf("offset of %s #%d in the extent loop follows the advancing cursor", name, k), w.relFile(c.Pos()), "",
				"the device offset of this transfer does not depend on anything the transfer's own byte count updates (loop accumulator or cursor field stored in the loop): it is computed from a position taken before the loop, which is right for the first extent only")
		}
		if k == 0 {
			r.Undecided("C10-f", fnName(fn), "extent loop", w.relFile(fn.Pos()), "no device transfer inside a loop found in ext4 File."+mn+" (the loop may have moved into a helper this rule does not follow)")
		}
	}
}

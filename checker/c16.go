package main

// C16 — CopyFileSystem copies faithfully and CompareFS tells the truth (structural clauses).

import (
	"fmt"
	"go/token"
	"go/types"
	"strings"

	"golang.org/x/tools/go/ssa"
)

func init() {
	register("C16", runC16, `Structural clauses of copy/compare faithfulness, decided statically in package sync.
C16-a error discipline: in CopyFileSystem, copyDir, copyOneFile and handleSymlink the error of every call on the source, the destination, the opened files or io.* is tested (non-nil edge returns an error) or returned; the documented best-effort calls (Chtimes, deferred Close) are the only exceptions, keyed by callee name.
C16-b every difference kind yields an error: in CompareFS the Stat error of the target, an IsDir mismatch, a Size mismatch, the result of the content comparison and a path missing from the seen set each control an error return; in compareFileContents a count mismatch and !bytes.Equal do.
C16-c copyDir and both walks of CompareFS consult the same exclusion table (directly or through an in-package helper), index it by the entry's own name (Name() / path.Base) and nothing else, and the table is never used other than by exact lookup.
C16-d copyDir recurses into directories (after Mkdir) and copies regular files; copyOneFile writes the bytes it read (same SSA value) and treats a short write as an error; from each Read of the chunk loop no success exit is reachable without writing the bytes it returned, except on an edge where the count is <= 0 (data delivered together with io.EOF is not dropped).
C16-e in compareFileContents every nil return that a Read of the comparison loop can reach lies behind the comparison of the bytes that Read delivered: the bytes.Equal call dominates it (data delivered together with io.EOF is compared before the function says "equal").
C16-f a WalkDir callback in package sync returns fs.SkipDir only for a directory (on the true edge of d.IsDir()): returned for a file it makes WalkDir skip the rest of the containing directory, so later entries are neither copied nor compared.
Decides these clauses, not equality of trees at run time. Observation recorded: compareFileContents compares raw Read counts.`)
}

func runC16(w *World, r *Report) {
	c16Errors(w, r)
	c16Differences(w, r)
	c16Exclusions(w, r)
	c16CopyShape(w, r)
	c16ReadLoop(w, r)
	c16CompareBeforeEqual(w, r)
	c16SkipDir(w, r)
	r.Floor("C16-e", r.countRule("C16-e"), 1)
	r.Floor("C16-f", r.countRule("C16-f"), 1)
	r.Floor("C16-a", r.countRule("C16-a"), 12)
	r.Floor("C16-b", r.countRule("C16-b"), 7)
	r.Floor("C16-c", r.countRule("C16-c"), 3)
	r.Floor("C16-d", r.countRule("C16-d"), 4)
	r.Note("compareFileContents compares the counts of two raw Read calls: two equal files read in different chunk sizes would be reported different; none of the library's own Read implementations return short counts before EOF")
}

var c16BestEffort = map[string]string{
	"Chtimes": "documented best-effort: content copy succeeds even if timestamps cannot be set",
	"Close":   "close after the data was written/read; error ignored by convention in this package",
}

func c16Errors(w *World, r *Report) {
	for _, fname := range []string{"CopyFileSystem", "copyDir", "copyOneFile", "handleSymlink"} {
		fn := w.FuncOpt("sync", fname)
		if fn == nil {
			if fname == "handleSymlink" {
				continue
			}
			fatalf("C16-a: sync.%s not found", fname)
		}
		for _, f := range withClosures(fn) {
			for _, cc := range calls(f, false, func(c ssa.CallInstruction) bool { return errResultIndex(c.Common().Signature()) >= 0 }) {
				n := callMethodName(cc)
				if n == "" {
					if g := cc.Common().StaticCallee(); g != nil {
						n = g.Name()
					}
				}
				if g := cc.Common().StaticCallee(); g != nil {
					fn2 := fullFuncName(g)
					if strings.HasPrefix(fn2, "fmt.") || strings.HasPrefix(fn2, "log.") || strings.HasPrefix(fn2, "errors.") {
						continue
					}
				}
				if why, ok := c16BestEffort[n]; ok {
					r.Note("%s: error of %s ignored (%s)", fnName(f), n, why)
					continue
				}
				c, ok := cc.(*ssa.Call)
				if !ok {
					r.Fail("C16-a", fnName(f), "error of "+n+" (deferred)", w.relFile(cc.Pos()), "a deferred/asynchronous call's error cannot be propagated and the call is not on the best-effort list")
					continue
				}
				ok2, why := errorIsChecked(c)
				r.Check(ok2, "C16-a", fnName(f), "error of "+n+" #"+ordinal(f, c), w.relFile(c.Pos()), why, "the copy continues although "+n+" failed: "+why)
			}
		}
	}
}

// condLeadsToError: in fn there is an If whose condition satisfies pred and one of whose edges leads to an
// error return.
func condLeadsToError(w *World, fns []*ssa.Function, pred func(cond ssa.Value, p *Prov) bool) (bool, string) {
	for _, fn := range fns {
		for _, b := range fn.Blocks {
			iff, ok := lastInstr(b).(*ssa.If)
			if !ok {
				continue
			}
			p := w.prov(iff.Cond, provOpts{throughExternal: true})
			if !pred(iff.Cond, p) {
				continue
			}
			for idx := range b.Succs {
				if blockLeadsToErrorReturn(b.Succs[idx], 0) {
					return true, w.relFile(instrPos(iff))
				}
			}
		}
	}
	return false, ""
}

func bothSidesCall(cond ssa.Value, name string) bool {
	bin, ok := cond.(*ssa.BinOp)
	if !ok || (bin.Op != token.NEQ && bin.Op != token.EQL) {
		return false
	}
	is := func(v ssa.Value) bool {
		c, ok := stripConv(v).(*ssa.Call)
		return ok && callMethodName(c) == name
	}
	return is(bin.X) && is(bin.Y)
}

func c16Differences(w *World, r *Report) {
	cmp := w.FuncOpt("sync", "CompareFS")
	if cmp == nil {
		fatalf("C16-b: sync.CompareFS not found")
	}
	fns := c16WithHelpers(w, cmp)
	name := fnName(cmp)
	// (1) Stat on the target
	n := 0
	for _, f := range fns {
		for _, cc := range calls(f, false, func(c ssa.CallInstruction) bool { return isStdCall(c, "io/fs.Stat") || callMethodName(c) == "Stat" }) {
			if c, ok := cc.(*ssa.Call); ok {
				n++
				ok2, why := errorIsChecked(c)
				r.Check(ok2, "C16-b", name, "missing entry: Stat error returned", w.relFile(c.Pos()), why, "a path missing in the target is not reported: "+why)
			}
		}
	}
	if n == 0 {
		r.Fail("C16-b", name, "missing entry: Stat error returned", w.relFile(cmp.Pos()), "CompareFS never stats the target")
	}
	ok, at := condLeadsToError(w, fns, func(c ssa.Value, _ *Prov) bool { return bothSidesCall(c, "IsDir") })
	r.Check(ok, "C16-b", name, "kind mismatch (IsDir) returns an error", at, "", "a file where a directory was (or vice versa) is not reported")
	ok, at = condLeadsToError(w, fns, func(c ssa.Value, _ *Prov) bool { return bothSidesCall(c, "Size") })
	r.Check(ok, "C16-b", name, "size mismatch returns an error", at, "", "a different length is not reported")
	// content comparison result returned
	cfc := w.FuncOpt("sync", "compareFileContents")
	if cfc == nil {
		fatalf("C16-b: sync.compareFileContents not found")
	}
	n = 0
	for _, f := range fns {
		for _, cc := range calls(f, false, func(c ssa.CallInstruction) bool { return c.Common().StaticCallee() == cfc }) {
			if c, ok := cc.(*ssa.Call); ok {
				n++
				ok2, why := errorIsChecked(c)
				r.Check(ok2, "C16-b", name, "content comparison result returned", w.relFile(c.Pos()), why, "the result of the content comparison is dropped: "+why)
			}
		}
	}
	if n == 0 {
		r.Fail("C16-b", name, "content comparison result returned", w.relFile(cmp.Pos()), "CompareFS never compares file contents")
	}
	// extra path: lookup in the seen map, !ok edge errors
	ok, at = condLeadsToError(w, fns, func(c ssa.Value, _ *Prov) bool {
		v, _ := boolCondEdge(&ssa.If{Cond: c})
		ex, isEx := v.(*ssa.Extract)
		if !isEx || ex.Index != 1 {
			return false
		}
		_, isLk := ex.Tuple.(*ssa.Lookup)
		return isLk
	})
	r.Check(ok, "C16-b", name, "extra path in target returns an error", at, "", "an extra entry in the target is not reported")
	// both walks exist and the first walk's error is returned
	walks := 0
	for _, cc := range calls(cmp, false, func(c ssa.CallInstruction) bool { return isStdCall(c, "io/fs.WalkDir") }) {
		walks++
		if c, ok := cc.(*ssa.Call); ok {
			ok2, why := errorIsChecked(c)
			r.Check(ok2, "C16-b", name, "walk error returned #"+ordinal(cmp, c), w.relFile(c.Pos()), why, "the result of a tree walk is dropped: "+why)
		}
	}
	r.Check(walks >= 2, "C16-b", name, "both trees are walked", w.relFile(cmp.Pos()), fmt.Sprint(walks), "CompareFS walks only one of the two trees, so extra entries in the other go unnoticed")
	// compareFileContents: count mismatch and !bytes.Equal
	cf := []*ssa.Function{cfc}
	ok, at = condLeadsToError(w, cf, func(c ssa.Value, p *Prov) bool {
		bin, isB := c.(*ssa.BinOp)
		if !isB || (bin.Op != token.NEQ && bin.Op != token.EQL) {
			return false
		}
		px, py := w.prov(bin.X, provOpts{}), w.prov(bin.Y, provOpts{})
		return px.hasCallNamed("Read") && py.hasCallNamed("Read") && typeBits(bin.X.Type()) > 0
	})
	r.Check(ok, "C16-b", fnName(cfc), "read-count mismatch returns an error", at, "", "different read counts are not reported")
	ok, at = condLeadsToError(w, cf, func(c ssa.Value, p *Prov) bool {
		return p.hasCall(func(rt Root) bool { return rt.Fn != nil && fullFuncName(rt.Fn) == "bytes.Equal" })
	})
	r.Check(ok, "C16-b", fnName(cfc), "byte mismatch returns an error", at, "", "a changed byte is not reported")
	// the compared windows are the bytes just read: bytes.Equal(bufA[:na], bufB[:nb])
	for _, cc := range calls(cfc, false, func(c ssa.CallInstruction) bool { return isStdCall(c, "bytes.Equal") }) {
		good := true
		for _, a := range cc.Common().Args {
			sl, isS := a.(*ssa.Slice)
			if !isS || sl.High == nil || !w.prov(sl.High, provOpts{}).hasCallNamed("Read") {
				good = false
			}
		}
		r.Check(good, "C16-b", fnName(cfc), "compared windows are the bytes read", w.relFile(cc.Pos()), "", "bytes.Equal is not applied to the windows [0:n) that the two reads filled")
	}
}

func c16Exclusions(w *World, r *Report) {
	g, _ := w.Pkg("sync").Members["excludedPaths"].(*ssa.Global)
	if g == nil {
		fatalf("C16-c: sync.excludedPaths not found")
	}
	isTable := func(v ssa.Value) bool {
		for _, rt := range w.prov(v, provOpts{}).Roots {
			if rt.Kind == RGlobal && rt.Val == ssa.Value(g) {
				return true
			}
		}
		return false
	}
	// lookups of the table in fn or in the in-package helpers it calls (depth 2); a helper's key parameter is bound
	// to the argument of this call.
	type lookup struct {
		lk  *ssa.Lookup
		key ssa.Value
	}
	var lookupsIn func(fn *ssa.Function, bind map[*ssa.Parameter]ssa.Value, d int) []lookup
	lookupsIn = func(fn *ssa.Function, bind map[*ssa.Parameter]ssa.Value, d int) []lookup {
		var out []lookup
		allInstrs(fn, func(ins ssa.Instruction) {
			switch x := ins.(type) {
			case *ssa.Lookup:
				if isTable(x.X) {
					key := stripConv(x.Index)
					if p, ok := key.(*ssa.Parameter); ok && bind[p] != nil {
						key = bind[p]
					}
					out = append(out, lookup{x, key})
				}
			case *ssa.Call:
				h := x.Call.StaticCallee()
				if h == nil {
					h = localClosureCallee(x)
				}
				if h == nil || d >= 2 || !w.fnSet[h] || w.pkgOf(h) != w.pkgOf(fn) || h == fn || h.Blocks == nil {
					return
				}
				b2 := map[*ssa.Parameter]ssa.Value{}
				for k, a := range x.Call.Args {
					if k < len(h.Params) {
						a = stripConv(a)
						if p, ok := a.(*ssa.Parameter); ok && bind[p] != nil {
							a = bind[p]
						}
						b2[h.Params[k]] = a
					}
				}
				out = append(out, lookupsIn(h, b2, d+1)...)
			}
		})
		return out
	}
	// any use of the table by fn or its helpers (the form of the use is judged separately)
	var usesTable func(fn *ssa.Function, d int) bool
	usesTable = func(fn *ssa.Function, d int) bool {
		found := false
		allInstrs(fn, func(ins ssa.Instruction) {
			switch x := ins.(type) {
			case *ssa.UnOp:
				if x.Op == token.MUL && x.X == ssa.Value(g) {
					found = true
				}
			case *ssa.Call:
				h := x.Call.StaticCallee()
				if h == nil {
					h = localClosureCallee(x)
				}
				if h != nil && d < 2 && w.fnSet[h] && w.pkgOf(h) == w.pkgOf(fn) && h != fn && h.Blocks != nil && usesTable(h, d+1) {
					found = true
				}
			}
		})
		return found
	}
	// the key is the entry's own name: the result of DirEntry.Name() / path.Base(p), nothing else
	keyIsBaseName := func(key ssa.Value) bool {
		p := w.prov(key, provOpts{})
		if len(p.Roots) == 0 {
			return false
		}
		for _, rt := range p.Roots {
			nm := ""
			if rt.Fn != nil {
				nm = rt.Fn.Name()
			} else if rt.Meth != nil {
				nm = rt.Meth.Name()
			}
			if rt.Kind != RCall || (nm != "Name" && nm != "Base") {
				return false
			}
		}
		return true
	}
	check := func(fn *ssa.Function, owner *ssa.Function, what string, missing string) {
		lks := lookupsIn(fn, map[*ssa.Parameter]ssa.Value{}, 0)
		r.Check(len(lks) > 0 || usesTable(fn, 0), "C16-c", fnName(owner), what+" consults the exclusion table", w.relFile(fn.Pos()), "", missing)
		for _, l := range lks {
			r.Check(keyIsBaseName(l.key), "C16-c", fnName(owner), what+" matches exclusions on the entry's base name", w.relFile(l.lk.Pos()), "",
				"the exclusion table is indexed by "+strings.Join(w.prov(l.key, provOpts{}).rootStrings(), ",")+" rather than by the entry's own name (Name() / path.Base): entries are skipped, or not skipped, differently from the copy")
		}
	}
	cd := w.Func("sync", "copyDir")
	check(cd, cd, "copyDir", "copyDir no longer consults excludedPaths")
	cmp := w.Func("sync", "CompareFS")
	// the walk callbacks: the closures handed to fs.WalkDir (other local closures are helpers)
	var walks []*ssa.Function
	for _, c := range calls(cmp, false, func(c ssa.CallInstruction) bool { return isStdCall(c, "io/fs.WalkDir") }) {
		args := c.Common().Args
		last := stripConv(args[len(args)-1])
		if mc, ok := last.(*ssa.MakeClosure); ok {
			if f, ok := mc.Fn.(*ssa.Function); ok {
				walks = append(walks, f)
			}
		} else if f, ok := last.(*ssa.Function); ok {
			walks = append(walks, f)
		}
	}
	for i, cl := range walks {
		check(cl, cmp, fmt.Sprintf("walk #%d", i+1), "a walk of CompareFS does not skip the names the copy skips: a faithful copy is reported different")
	}
	if len(walks) < 2 {
		r.Fail("C16-c", fnName(cmp), "two walk callbacks", w.relFile(cmp.Pos()), "CompareFS does not walk both trees with fs.WalkDir callbacks")
	}
	// the table is only ever indexed: any other use of it (ranging over it to match prefixes, suffixes or substrings)
	// excludes names the exact table does not list
	for _, fn := range w.ModFns {
		if w.pkgOf(fn) != "sync" || fn.Name() == "init" {
			continue
		}
		allInstrs(fn, func(ins ssa.Instruction) {
			ld, ok := ins.(*ssa.UnOp)
			if !ok || ld.Op != token.MUL || ld.X != ssa.Value(g) {
				return
			}
			for _, u := range *ld.Referrers() {
				if lk, ok := u.(*ssa.Lookup); ok && lk.X == ssa.Value(ld) {
					continue
				}
				r.Fail("C16-c", fnName(fn), "exclusion table is used only by exact lookup", w.relFile(u.Pos()),
					"excludedPaths is used other than by indexing it with a name (e.g. ranged over for a prefix/suffix/substring match): names that merely resemble an excluded name are skipped by the copy and the comparison")
			}
		})
	}
	r.Ok("C16-c", "sync", "exclusion table is used only by exact lookup", "sync", "")
}

// c16ReadLoop: data delivered together with io.EOF is not dropped. From each Read(buf) of the copy, exploring the CFG
// without entering a block that writes buf[..n] and without taking an edge on which n <= 0, no success exit is reachable.
func c16ReadLoop(w *World, r *Report) {
	cof := w.Func("sync", "copyOneFile")
	fns := []*ssa.Function{cof}
	seen := map[*ssa.Function]bool{cof: true}
	for d := 0; d < 2; d++ {
		for _, f := range append([]*ssa.Function{}, fns...) {
			for _, c := range calls(f, false, func(c ssa.CallInstruction) bool { return true }) {
				if h := c.Common().StaticCallee(); h != nil && w.fnSet[h] && w.pkgOf(h) == "sync" && !seen[h] && h.Blocks != nil {
					seen[h] = true
					fns = append(fns, h)
				}
			}
		}
	}
	n := 0
	for _, fn := range fns {
		for _, rd := range calls(fn, false, func(c ssa.CallInstruction) bool { return methodCallSig(c, "Read", 1, 2) }) {
			rdv, ok := rd.(*ssa.Call)
			if !ok {
				continue
			}
			n++
			buf := argsOf(rd)[0]
			var cnt ssa.Value
			for _, u := range *rdv.Referrers() {
				if ex, ok := u.(*ssa.Extract); ok && ex.Index == 0 {
					cnt = ex
				}
			}
			writeBlocks := map[*ssa.BasicBlock]bool{}
			for _, wr := range calls(fn, false, func(c ssa.CallInstruction) bool { return methodCallSig(c, "Write", 1, 2) }) {
				if sl, ok := argsOf(wr)[0].(*ssa.Slice); ok && sl.X == buf {
					writeBlocks[wr.Block()] = true
				}
			}
			// a helper that writes the chunk it is given (writeFully(out, buf[:n]))
			for _, hc := range calls(fn, false, func(c ssa.CallInstruction) bool { return c16SliceWriterParam(c.Common().StaticCallee()) >= 0 }) {
				pi := c16SliceWriterParam(hc.Common().StaticCallee())
				if pi < len(hc.Common().Args) {
					a := hc.Common().Args[pi]
					if sl, ok := a.(*ssa.Slice); ok && sl.X == buf {
						writeBlocks[hc.Block()] = true
					}
				}
			}
			construct := "bytes read together with EOF are written #" + ordinal(fn, rd)
			if len(writeBlocks) == 0 || cnt == nil {
				r.Fail("C16-d", fnName(fn), construct, w.relFile(rd.Pos()), "the buffer filled by this Read is never written to the destination (or its count is ignored)")
				continue
			}
			afterWrite := func(b *ssa.BasicBlock) bool {
				for wb := range writeBlocks {
					if wb.Dominates(b) {
						return true
					}
				}
				return false
			}
			isCnt := func(v ssa.Value) bool { return stripConv(v) == cnt }
			// a loop counter that is 0 until a write happened
			zeroBeforeWrite := func(v ssa.Value) bool {
				v = stripConv(v)
				if c, ok := v.(*ssa.Const); ok {
					k, isInt := constInt(c)
					return isInt && k == 0
				}
				ph, ok := v.(*ssa.Phi)
				if !ok {
					return false
				}
				zero := false
				for k, e := range ph.Edges {
					if c, ok := e.(*ssa.Const); ok {
						if x, isInt := constInt(c); isInt && x == 0 {
							zero = true
							continue
						}
					}
					if !afterWrite(ph.Block().Preds[k]) {
						return false
					}
				}
				return zero
			}
			// refuse: edges on which the count is known to be <= 0
			refuse := func(b *ssa.BasicBlock, idx int) bool {
				iff, ok := lastInstr(b).(*ssa.If)
				if !ok {
					return false
				}
				cond, tIdx := boolCondEdge(iff)
				bin, ok := cond.(*ssa.BinOp)
				if !ok {
					return false
				}
				onTrue := idx == tIdx
				x, y := bin.X, bin.Y
				op := bin.Op
				if isCnt(y) && !isCnt(x) { // normalise to cnt OP other
					x, y = y, x
					switch op {
					case token.LSS:
						op = token.GTR
					case token.GTR:
						op = token.LSS
					case token.LEQ:
						op = token.GEQ
					case token.GEQ:
						op = token.LEQ
					}
				}
				if !isCnt(x) {
					return false
				}
				small := zeroBeforeWrite(y) // other side is 0 here
				one := false
				if c, ok := stripConv(y).(*ssa.Const); ok {
					k, isInt := constInt(c)
					one = isInt && k == 1
				}
				switch op {
				case token.GTR: // n > 0: false edge means n <= 0
					return small && !onTrue
				case token.NEQ:
					return small && !onTrue
				case token.EQL:
					return small && onTrue
				case token.LEQ:
					return small && onTrue
				case token.LSS: // n < 1
					return one && onTrue
				case token.GEQ: // n >= 1
					return one && !onTrue
				}
				return false
			}
			seenB := map[*ssa.BasicBlock]bool{}
			var bad *ssa.Return
			// the Read's own block: a write later in the same block counts
			start := rd.Block()
			stack := []*ssa.BasicBlock{}
			if !writeBlocks[start] {
				for i, sc := range start.Succs {
					if !refuse(start, i) {
						stack = append(stack, sc)
					}
				}
			}
			for len(stack) > 0 && bad == nil {
				b := stack[len(stack)-1]
				stack = stack[:len(stack)-1]
				if seenB[b] || writeBlocks[b] || b == start {
					continue
				}
				seenB[b] = true
				if ret, ok := lastInstr(b).(*ssa.Return); ok && classifyReturn(ret) != RetError {
					bad = ret
					break
				}
				for i, sc := range b.Succs {
					if !refuse(b, i) {
						stack = append(stack, sc)
					}
				}
			}
			detail := ""
			if bad != nil {
				detail = "a success exit at " + w.relFile(bad.Pos()) + " is reachable from this Read without writing the bytes it returned: a final chunk delivered together with io.EOF (as every go-diskfs File.Read does) is dropped and the copy still succeeds"
			}
			r.Check(bad == nil, "C16-d", fnName(fn), construct, w.relFile(rd.Pos()), "", detail)
		}
	}
	if n == 0 {
		usesCopy := false
		for _, fn := range fns {
			if len(calls(fn, false, func(c ssa.CallInstruction) bool {
				return isStdCall(c, "io.Copy") || isStdCall(c, "io.CopyBuffer") || isStdCall(c, "io.CopyN")
			})) > 0 {
				usesCopy = true
			}
		}
		r.Check(usesCopy, "C16-d", fnName(cof), "bytes read together with EOF are written", w.relFile(cof.Pos()), "streams with io.Copy", "copyOneFile has neither a Read loop nor io.Copy for large files")
	}
}

func c16CopyShape(w *World, r *Report) {
	cd := w.Func("sync", "copyDir")
	cof := w.Func("sync", "copyOneFile")
	name := fnName(cd)
	rec := len(calls(cd, false, func(c ssa.CallInstruction) bool { return c.Common().StaticCallee() == cd })) > 0
	mk := len(calls(cd, false, func(c ssa.CallInstruction) bool { return callMethodName(c) == "Mkdir" })) > 0
	cf := len(calls(cd, false, func(c ssa.CallInstruction) bool { return c.Common().StaticCallee() == cof })) > 0
	r.Check(rec && mk, "C16-d", name, "directories are created and recursed into", w.relFile(cd.Pos()), "", "copyDir does not Mkdir and recurse for sub-directories")
	r.Check(cf, "C16-d", name, "regular files are copied", w.relFile(cd.Pos()), "", "copyDir does not call copyOneFile")
	// the recursion and the file copy are not skipped for non-excluded entries: both calls are reachable
	// from the loop body without passing the exclusion edge (structural: they exist in the loop)
	// copyOneFile: bytes written derive from bytes read
	n := 0
	type writeSite struct {
		fn   *ssa.Function
		call ssa.CallInstruction
		data ssa.Value
	}
	var sites []writeSite
	for _, f := range c16CopyFns(w) {
		for _, cc := range calls(f, false, func(c ssa.CallInstruction) bool { return methodCallSig(c, "Write", 1, 2) }) {
			if c16SliceWriterParam(f) >= 0 {
				continue // a chunk-writing helper: judged where it is called with the chunk
			}
			sites = append(sites, writeSite{f, cc, argsOf(cc)[0]})
		}
		for _, hc := range calls(f, false, func(c ssa.CallInstruction) bool { return c16SliceWriterParam(c.Common().StaticCallee()) >= 0 }) {
			pi := c16SliceWriterParam(hc.Common().StaticCallee())
			if pi < len(hc.Common().Args) {
				sites = append(sites, writeSite{f, hc, hc.Common().Args[pi]})
			}
		}
	}
	for _, ws := range sites {
		cc, data := ws.call, ws.data
		cof := ws.fn
		n++
		p := w.prov(data, provOpts{throughExternal: true})
		fromRead := p.hasCall(func(rt Root) bool {
			return rt.Fn != nil && fullFuncName(rt.Fn) == "io.ReadAll"
		})
		if !fromRead {
			// chunk loop: buf filled by in.Read(buf) and sliced by its count
			if sl, ok := data.(*ssa.Slice); ok && sl.High != nil && w.prov(sl.High, provOpts{}).hasCallNamed("Read") {
				for _, rd := range calls(cof, false, func(c ssa.CallInstruction) bool { return methodCallSig(c, "Read", 1, 2) }) {
					if argsOf(rd)[0] == sl.X {
						fromRead = true
					}
				}
			}
		}
		r.Check(fromRead, "C16-d", fnName(cof), "written bytes are the bytes read #"+ordinal(cof, cc), w.relFile(cc.Pos()), "", "the data written to the destination is not the data read from the source")
	}
	if n == 0 {
		r.Fail("C16-d", fnName(cof), "written bytes are the bytes read", w.relFile(cof.Pos()), "copyOneFile never writes")
	}
	// short write is an error
	short := false
	for _, f := range c16CopyFns(w) {
		allInstrs(f, func(ins ssa.Instruction) {
			if ld, ok := ins.(*ssa.UnOp); ok && ld.Op == token.MUL {
				if g, ok := ld.X.(*ssa.Global); ok && g.Name() == "ErrShortWrite" {
					short = true
				}
			}
		})
	}
	r.Check(short, "C16-d", fnName(cof), "short write is an error", w.relFile(cof.Pos()), "", "a short write is not turned into an error")
}

// localClosureCallee: the call invokes a closure that the enclosing function created and this function captured (or
// holds in a local): `skip := func(..){..}; fs.WalkDir(.., func(..){ skip(..) })`.
func localClosureCallee(c *ssa.Call) *ssa.Function {
	var fromValue func(v ssa.Value, d int) *ssa.Function
	fromValue = func(v ssa.Value, d int) *ssa.Function {
		if d > 6 || v == nil {
			return nil
		}
		switch x := v.(type) {
		case *ssa.MakeClosure:
			f, _ := x.Fn.(*ssa.Function)
			return f
		case *ssa.Function:
			return x
		case *ssa.UnOp:
			if x.Op != token.MUL {
				return nil
			}
			// a captured or local cell: the closure stored into it
			var cell ssa.Value = x.X
			if fv, ok := cell.(*ssa.FreeVar); ok {
				cell = freeVarBinding(fv)
			}
			if al, ok := cell.(*ssa.Alloc); ok {
				var found *ssa.Function
				n := 0
				for _, ref := range *al.Referrers() {
					if st, ok := ref.(*ssa.Store); ok && st.Addr == ssa.Value(al) {
						if f := fromValue(st.Val, d+1); f != nil {
							found = f
							n++
						}
					}
				}
				if n == 1 {
					return found
				}
			}
		case *ssa.FreeVar:
			return fromValue(freeVarBinding(x), d+1)
		}
		return nil
	}
	return fromValue(c.Call.Value, 0)
}

// freeVarBinding: the value bound to a free variable where its closure was made (nil if not exactly one place).
func freeVarBinding(fv *ssa.FreeVar) ssa.Value {
	fn := fv.Parent()
	idx := -1
	for i, x := range fn.FreeVars {
		if x == fv {
			idx = i
		}
	}
	parent := fn.Parent()
	if idx < 0 || parent == nil {
		return nil
	}
	var out ssa.Value
	n := 0
	allInstrs(parent, func(ins ssa.Instruction) {
		if mc, ok := ins.(*ssa.MakeClosure); ok && mc.Fn == ssa.Value(fn) && idx < len(mc.Bindings) {
			out = mc.Bindings[idx]
			n++
		}
	})
	if n != 1 {
		return nil
	}
	return out
}

// c16CompareBeforeEqual (C16-e): in compareFileContents, a success return reachable from the Read calls must be
// dominated by the block that compares the bytes those Reads delivered.
func c16CompareBeforeEqual(w *World, r *Report) {
	cfc := w.FuncOpt("sync", "compareFileContents")
	if cfc == nil {
		fatalf("C16-e: sync.compareFileContents not found")
	}
	eqs := calls(cfc, false, func(c ssa.CallInstruction) bool { return isStdCall(c, "bytes.Equal") })
	reads := calls(cfc, false, func(c ssa.CallInstruction) bool { return methodCallSig(c, "Read", 1, 2) })
	if len(eqs) == 0 || len(reads) == 0 {
		r.Fail("C16-e", fnName(cfc), "comparison precedes the verdict", w.relFile(cfc.Pos()), "no Read / bytes.Equal pair found in the comparison loop")
		return
	}
	// blocks reachable from a Read
	reach := map[*ssa.BasicBlock]bool{}
	var st []*ssa.BasicBlock
	for _, rd := range reads {
		st = append(st, rd.Block())
	}
	for len(st) > 0 {
		b := st[len(st)-1]
		st = st[:len(st)-1]
		if reach[b] {
			continue
		}
		reach[b] = true
		st = append(st, b.Succs...)
	}
	n := 0
	for _, ret := range returnsOf(cfc) {
		if classifyReturn(ret) == RetError || !reach[ret.Block()] {
			continue
		}
		n++
		dom := false
		for _, e := range eqs {
			if e.Block() == ret.Block() || e.Block().Dominates(ret.Block()) {
				dom = true
			}
		}
		r.Check(dom, "C16-e", fnName(cfc), "comparison precedes the verdict #"+itoa(n), w.relFile(instrPos(ret)), "bytes.Equal dominates this nil return",
			"a nil return can be reached from the Read calls without comparing the bytes they delivered: the library's own files return their last data together with io.EOF, so a difference in the final chunk is reported as equal")
	}
	if n == 0 {
		r.Fail("C16-e", fnName(cfc), "comparison precedes the verdict", w.relFile(cfc.Pos()), "no success return is reachable from the Read calls")
	}
}

// c16SkipDir (C16-f): every return of fs.SkipDir in package sync is dominated by the true edge of an IsDir() test.
func c16SkipDir(w *World, r *Report) {
	n := 0
	for _, fn := range w.ModFns {
		if w.pkgOf(fn) != "sync" {
			continue
		}
		for _, ret := range returnsOf(fn) {
			ei := errResultIndex(fn.Signature)
			if ei < 0 || ei >= len(ret.Results) {
				continue
			}
			isSkip := false
			for _, rt := range w.prov(ret.Results[ei], provOpts{}).Roots {
				if g, isG := rt.Val.(*ssa.Global); rt.Kind == RGlobal && isG && g.Pkg != nil && g.Pkg.Pkg.Path() == "io/fs" && g.Name() == "SkipDir" {
					isSkip = true
				}
			}
			if !isSkip {
				continue
			}
			n++
			ok := false
			for _, b := range fn.Blocks {
				iff, isIf := lastInstr(b).(*ssa.If)
				if !isIf {
					continue
				}
				c, isCall := iff.Cond.(*ssa.Call)
				if isCall && callMethodName(c) == "IsDir" && edgeDominates(b, 0, ret.Block()) {
					ok = true
				}
			}
			r.Check(ok, "C16-f", fnName(fn), "fs.SkipDir returned for directories only #"+itoa(n), w.relFile(instrPos(ret)), "",
				"fs.SkipDir is returned on a path where the entry is not known to be a directory: for a file, WalkDir then skips the remaining entries of the containing directory, which are neither copied nor compared")
		}
	}
	if n == 0 {
		r.Ok("C16-f", "sync", "no fs.SkipDir return in package sync", "sync", "")
	}
}

// c16CopyFns: copyOneFile and the in-package functions it calls (two levels): the copy loop may live in phase helpers.
func c16CopyFns(w *World) []*ssa.Function {
	cof := w.Func("sync", "copyOneFile")
	fns := []*ssa.Function{cof}
	seen := map[*ssa.Function]bool{cof: true}
	for d := 0; d < 2; d++ {
		for _, f := range append([]*ssa.Function{}, fns...) {
			for _, c := range calls(f, false, func(c ssa.CallInstruction) bool { return true }) {
				if h := c.Common().StaticCallee(); h != nil && w.fnSet[h] && w.pkgOf(h) == "sync" && !seen[h] && h.Blocks != nil {
					seen[h] = true
					fns = append(fns, h)
				}
			}
		}
	}
	return fns
}

// c16SliceWriterParam: h hands (a window of) one of its []byte parameters to Write: returns that parameter's index, -1 if none.
func c16SliceWriterParam(h *ssa.Function) int {
	if h == nil || h.Blocks == nil {
		return -1
	}
	for _, wr := range calls(h, false, func(c ssa.CallInstruction) bool { return methodCallSig(c, "Write", 1, 2) }) {
		d := argsOf(wr)[0]
		if sl, ok := d.(*ssa.Slice); ok {
			d = sl.X
		}
		d = unspillParam(d)
		for i, p := range h.Params {
			if ssa.Value(p) == d && isByteSlice(p.Type()) {
				return i
			}
		}
	}
	return -1
}

// c16WithHelpers: fn, its closures, and the functions of package sync it calls or passes on as values (walk callbacks
// written as methods of a state struct arrive as bound-method closures), two levels deep.
func c16WithHelpers(w *World, fn *ssa.Function) []*ssa.Function {
	out := withClosures(fn)
	seen := map[*ssa.Function]bool{}
	for _, f := range out {
		seen[f] = true
	}
	resolve := func(v ssa.Value) *ssa.Function {
		var g *ssa.Function
		switch x := v.(type) {
		case *ssa.Function:
			g = x
		case *ssa.MakeClosure:
			g, _ = x.Fn.(*ssa.Function)
		}
		if g == nil {
			return nil
		}
		if g.Synthetic != "" {
			// bound method wrapper / thunk: the declared method
			if obj, ok := g.Object().(*types.Func); ok {
				if d := w.Prog.FuncValue(obj); d != nil {
					g = d
				}
			}
		}
		if g.Blocks == nil || !w.fnSet[g] || w.pkgOf(g) != "sync" {
			return nil
		}
		return g
	}
	for level := 0; level < 2; level++ {
		for _, f := range append([]*ssa.Function{}, out...) {
			allInstrs(f, func(ins ssa.Instruction) {
				for _, op := range ins.Operands(nil) {
					if op == nil || *op == nil {
						continue
					}
					if g := resolve(*op); g != nil && !seen[g] {
						for _, h := range withClosures(g) {
							if !seen[h] {
								seen[h] = true
								out = append(out, h)
							}
						}
					}
				}
			})
		}
	}
	return out
}

package main

import (
	"flag"
	"fmt"
	"os"
	"path/filepath"
	"runtime/debug"
	"sort"
	"strconv"
	"strings"
	"time"
)

type ruleFn func(w *World, r *Report)

var properties = map[string]ruleFn{}
var explanations = map[string]string{}

func register(id string, f ruleFn, explanation string) {
	properties[id] = f
	explanations[id] = explanation
}

func main() {
	prop := flag.String("property", "", "property id (C01..C19)")
	tier := flag.String("tier", "quick", "quick|thorough")
	repo := flag.String("repo", envOr("DFS_REPO", "/repo"), "repository to analyse")
	verif := flag.String("verif", envOr("DFS_VERIF", ""), "verif directory (default: parent of the binary's directory)")
	list := flag.Bool("list", false, "list properties")
	dump := flag.String("codecdump", "", "debug: pkg:recv:name of a function to print its extracted byte layout")
	flag.Parse()
	if *list {
		var ids []string
		for id := range properties {
			ids = append(ids, id)
		}
		sort.Strings(ids)
		fmt.Println(strings.Join(ids, "\n"))
		return
	}
	if *dump != "" {
		w := loadWorld(*repo)
		parts := strings.Split(*dump, ":")
		fn := w.codecFn(parts[0], parts[1], parts[2])
		if fn == nil {
			fmt.Println("not found")
			os.Exit(2)
		}
		res := evalCodec(w, fn)
		fmt.Printf("%s: %d output buffers, %d facts, %d non-constant windows\n", fnName(fn), len(res.out), len(res.facts), res.unknownW)
		for _, b := range res.out {
			var ps []int
			for p := range b.cells {
				ps = append(ps, p)
			}
			sort.Ints(ps)
			for _, p := range ps {
				var xs []string
				for _, v := range b.cells[p] {
					xs = append(xs, v.String())
				}
				fmt.Printf("  out[%d] = %s\n", p, strings.Join(xs, " | "))
			}
		}
		sort.Slice(res.facts, func(i, j int) bool { return res.facts[i].pos < res.facts[j].pos })
		for _, f := range res.facts {
			fmt.Printf("  in[%d] -> %s.%d\n", f.pos, f.f.Name(), f.sig)
		}
		return
	}
	if os.Getenv("DFS_CODEC_ALL") != "" {
		w := loadWorld(*repo)
		r := newReport("CODEC", "quick")
		all := map[string][]codecPair{"C02": codecPairsC02, "C05": codecPairsC05, "C06": codecPairsC06, "C07": codecPairsC07, "C08": codecPairsC08, "C19": codecPairsC19}
		for _, id := range []string{"C02", "C05", "C06", "C07", "C08", "C19"} {
			runCodecFamily(w, r, id+"-codec", all[id])
		}
		for _, o := range r.Obls {
			fmt.Printf("%-9s %-12s %s | %s | %s\n", o.Status, o.Rule, o.Function, o.Construct, o.Detail)
		}
		return
	}
	if *verif == "" {
		exe, _ := os.Executable()
		*verif = filepath.Dir(filepath.Dir(exe))
	}
	seed, _ := strconv.Atoi(os.Getenv("VERIF_SEED"))
	f, ok := properties[*prop]
	if !ok {
		fmt.Fprintf(os.Stderr, "unknown property %q\n", *prop)
		os.Exit(2)
	}
	start := time.Now()
	code := func() (code int) {
		defer func() {
			if e := recover(); e != nil {
				if fe, ok := e.(frontEndError); ok {
					fmt.Fprintf(os.Stderr, "dfscheck: cannot analyse: %s\n", fe.msg)
				} else {
					fmt.Fprintf(os.Stderr, "dfscheck: panic: %v\n%s\n", e, debug.Stack())
				}
				code = 2
			}
		}()
		w := loadWorld(*repo)
		r := newReport(*prop, *tier)
		r.Explanation = explanations[*prop]
		for _, a := range commonAssumptions {
			r.Assume(a)
		}
		for _, a := range propertyAssumptions[*prop] {
			r.Assume(a)
		}
		f(w, r)
		cmd := fmt.Sprintf("bin/dfscheck -property %s -tier %s -repo %s", *prop, *tier, *repo)
		return r.finish(*verif, seed, start, w, cmd)
	}()
	os.Exit(code)
}

package main

import (
	"flag"
	"fmt"
	"os"
	"path/filepath"
	"runtime/debug"
	"sort"
	"strconv"
	"strings"
	"time"
)

type ruleFn func(w *World, r *Report)

var properties = map[string]ruleFn{}
var explanations = map[string]string{}

func register(id string, f ruleFn, explanation string) {
	properties[id] = f
	explanations[id] = explanation
}

func main() {
	prop := flag.String("property", "", "property id (C01..C19)")
	tier := flag.String("tier", "quick", "quick|thorough")
	repo := flag.String("repo", envOr("DFS_REPO", "/repo"), "repository to analyse")
	verif := flag.String("verif", envOr("DFS_VERIF", ""), "verif directory (default: parent of the binary's directory)")
	list := flag.Bool("list", false, "list properties")
	flag.Parse()
	if *list {
		var ids []string
		for id := range properties {
			ids = append(ids, id)
		}
		sort.Strings(ids)
		fmt.Println(strings.Join(ids, "\n"))
		return
	}
	if *verif == "" {
		exe, _ := os.Executable()
		*verif = filepath.Dir(filepath.Dir(exe))
	}
	seed, _ := strconv.Atoi(os.Getenv("VERIF_SEED"))
	f, ok := properties[*prop]
	if !ok {
		fmt.Fprintf(os.Stderr, "unknown property %q\n", *prop)
		os.Exit(2)
	}
	start := time.Now()
	code := func() (code int) {
		defer func() {
			if e := recover(); e != nil {
				if fe, ok := e.(frontEndError); ok {
					fmt.Fprintf(os.Stderr, "dfscheck: cannot analyse: %s\n", fe.msg)
				} else {
					fmt.Fprintf(os.Stderr, "dfscheck: panic: %v\n%s\n", e, debug.Stack())
				}
				code = 2
			}
		}()
		w := loadWorld(*repo)
		r := newReport(*prop, *tier)
		r.Explanation = explanations[*prop]
		f(w, r)
		cmd := fmt.Sprintf("bin/dfscheck -property %s -tier %s -repo %s", *prop, *tier, *repo)
		return r.finish(*verif, seed, start, w, cmd)
	}()
	os.Exit(code)
}

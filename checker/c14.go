package main

// C14 — reproducible mode yields byte-identical images (mechanism level).

import (
	"fmt"
	"go/constant"
	"go/token"
	"go/types"
	"sort"
	"strings"

	"golang.org/x/tools/go/ssa"
)

func init() {
	register("C14", runC14, `Mechanism-level decision of reproducibility for the FAT family and the partition-table writers.
C14-a from fat12/fat16/fat32.Create explored with reproducible=true, from every exported method of the FAT FileSystem/File types, and from gpt/mbr Table.Write, no call to a nondeterminism source (time.Now/Since/Until, math/rand, crypto/rand, uuid.New*, os.Getpid/Hostname/Getenv/Environ/MkdirTemp, go statements, select) is reachable (CHA + constant folding), except (i) through timestamp.GetTime, whose clock read must be unreachable when SOURCE_DATE_EPOCH parses, and (iii) on the GUID == "" edge (the property fixes GUIDs as given);
C14-b no range over a map is reachable in that set;
C14-c the filesystem's start offset flows only into ReadAt/WriteAt offset arguments, comparisons, diagnostics and backend.Sub - never into bytes that are stored;
C14-d the reproducible parameter controls a branch in each Create and Disk.CreateFilesystem passes spec.Reproducible to each FAT constructor.
Assumes callees outside the module other than the listed sources are deterministic functions of their arguments. Decides the mechanism, not byte equality of two runs.`)
}

var nondetFuncs = map[string]bool{
	"time.Now": true, "time.Since": true, "time.Until": true, "time.After": true, "time.Tick": true, "time.NewTimer": true,
	"os.Getpid": true, "os.Getppid": true, "os.Hostname": true, "os.Getenv": true, "os.LookupEnv": true, "os.Environ": true,
	"os.MkdirTemp": true, "os.CreateTemp": true, "os.Getwd": true, "os.Getuid": true, "os.Getgid": true,
	"runtime.NumGoroutine": true, "runtime.NumCPU": true,
}

func nondetSource(c ssa.CallInstruction) string {
	f := c.Common().StaticCallee()
	if f == nil {
		return ""
	}
	n := fullFuncName(f)
	if nondetFuncs[n] {
		return n
	}
	pkg := ""
	if f.Pkg != nil {
		pkg = f.Pkg.Pkg.Path()
	} else if o := f.Object(); o != nil && o.Pkg() != nil {
		pkg = o.Pkg().Path()
	}
	switch {
	case pkg == "math/rand" || pkg == "math/rand/v2" || pkg == "crypto/rand":
		return n
	case pkg == "github.com/google/uuid" && (strings.HasPrefix(f.Name(), "New") || f.Name() == "Must" && false):
		return n
	}
	return ""
}

// guidEmptyEdge: the successor index of `x.GUID == ""` on which the GUID is empty (to be refused).
func guidEmptyEdge(b *ssa.BasicBlock) (int, bool) {
	iff, ok := lastInstr(b).(*ssa.If)
	if !ok {
		return 0, false
	}
	bin, ok := iff.Cond.(*ssa.BinOp)
	if !ok || (bin.Op != token.EQL && bin.Op != token.NEQ) {
		return 0, false
	}
	fieldSide, constSide := bin.X, bin.Y
	if _, isC := bin.X.(*ssa.Const); isC {
		fieldSide, constSide = bin.Y, bin.X
	}
	c, isC := constSide.(*ssa.Const)
	if !isC || c.Value == nil || c.Value.Kind() != constant.String || constant.StringVal(c.Value) != "" {
		return 0, false
	}
	ld, ok := fieldSide.(*ssa.UnOp)
	if !ok || ld.Op != token.MUL {
		return 0, false
	}
	if _, f, _, ok := fieldOfAddr(ld.X); ok && f.Name() == "GUID" {
		if bin.Op == token.EQL {
			return 0, true
		}
		return 1, true
	}
	return 0, false
}

func runC14(w *World, r *Report) {
	getTime := w.Func("util/timestamp", "GetTime")
	fatPkgs := []string{"filesystem/fat12", "filesystem/fat16", "filesystem/fat32"}

	// entry points
	var eps []entryPoint
	add := func(fn *ssa.Function, b binding) {
		if fn == nil || fn.Blocks == nil {
			return
		}
		n := fnName(fn)
		if len(b) > 0 {
			n += "[" + b.key() + "]"
		}
		eps = append(eps, entryPoint{fn, b, n})
	}
	for _, pkg := range fatPkgs {
		cr := w.Func(pkg, "Create")
		var rp *ssa.Parameter
		for _, p := range cr.Params {
			if p.Name() == "reproducible" {
				rp = p
			}
		}
		if rp == nil {
			fatalf("C14: %s.Create has no parameter named reproducible", pkg)
		}
		add(cr, binding{rp: constant.MakeBool(true)})
		add(w.Func(pkg, "Read"), nil)
		for _, tn := range []string{"FileSystem", "File"} {
			if w.Pkg(pkg).Type(tn) == nil {
				continue
			}
			n := w.Named(pkg, tn)
			for _, recv := range []types.Type{n, types.NewPointer(n)} {
				ms := w.Prog.MethodSets.MethodSet(recv)
				for i := 0; i < ms.Len(); i++ {
					if !ms.At(i).Obj().Exported() {
						continue
					}
					if m := w.MethodOf(n, ms.At(i).Obj().Name()); m != nil {
						add(m, nil)
					}
				}
			}
		}
	}
	for _, pkg := range []string{"partition/gpt", "partition/mbr"} {
		add(w.Method(pkg, "Table", "Write"), nil)
	}
	// dedupe
	seenEp := map[string]bool{}
	var ueps []entryPoint
	for _, e := range eps {
		if !seenEp[e.name] {
			seenEp[e.name] = true
			ueps = append(ueps, e)
		}
	}
	sort.Slice(ueps, func(i, j int) bool { return ueps[i].name < ueps[j].name })

	sink := func(c ssa.CallInstruction, _ *evaluator) string { return nondetSource(c) }
	instrSink := func(i ssa.Instruction) string {
		switch x := i.(type) {
		case *ssa.Go:
			return "go statement"
		case *ssa.Select:
			if !x.Blocking || len(x.States) > 1 {
				return "select"
			}
		case *ssa.Range:
			if _, isMap := x.X.Type().Underlying().(*types.Map); isMap {
				return "range over map"
			}
		}
		return ""
	}
	allFuncs := map[*ssa.Function]bool{}
	for _, ep := range ueps {
		rc := &Reach{w: w, sink: sink, instrSink: instrSink,
			enter: func(callee *ssa.Function) bool { return callee != getTime },
			blockEdge: func(b *ssa.BasicBlock, idx int, _ binding) bool {
				if e, ok := guidEmptyEdge(b); ok && idx == e {
					return false
				}
				return true
			}}
		rc.Run(ep.fn, ep.bind)
		for f := range rc.Funcs {
			allFuncs[f] = true
		}
		if rc.Blown {
			r.Undecided("C14-a", ep.name, "reaches no nondeterminism source", w.relFile(ep.fn.Pos()), "context budget exhausted")
			continue
		}
		nA, nB := 0, 0
		seen := map[string]bool{}
		for _, h := range rc.Hits {
			rule := "C14-a"
			if strings.HasPrefix(h.Label, "range over map") {
				rule = "C14-b"
				nB++
			} else {
				nA++
			}
			where := h.Label
			at := "?"
			if h.Site != nil {
				where += " in " + fnName(h.Site.Parent())
				at = w.relFile(instrPos(h.Site))
			} else {
				where = strings.Split(h.Label, " at ")[0] + " in " + fnName(h.Ctx.fn)
				if i := strings.Index(h.Label, " at "); i >= 0 {
					at = h.Label[i+4:]
				}
			}
			if seen[rule+where] {
				continue
			}
			seen[rule+where] = true
			r.Fail(rule, ep.name, "reaches "+where, at, "a source of run-to-run variation is reachable in reproducible mode (outside timestamp.GetTime, the !reproducible edge and the GUID==\"\" edge)", rc.Chain(h.Ctx)...)
		}
		if nA == 0 {
			r.Ok("C14-a", ep.name, "reaches no nondeterminism source", w.relFile(ep.fn.Pos()), fmt.Sprintf("%d functions / %d contexts", len(rc.Funcs), len(rc.visited)))
		}
		if nB == 0 {
			r.Ok("C14-b", ep.name, "reaches no range over a map", w.relFile(ep.fn.Pos()), "")
		}
	}
	r.Extra["functions_reachable_in_reproducible_scope"] = len(allFuncs)

	// (i) timestamp.GetTime: the clock read is infeasible when SOURCE_DATE_EPOCH is set and parses
	c14GetTime(w, r, getTime)
	// C14-d
	c14ReproducibleWired(w, r, fatPkgs)
	// C14-c
	c14StartOnlyOffsets(w, r, fatPkgs)

	r.Floor("C14-a", r.countRule("C14-a"), 40)
	r.Floor("C14-c", r.countRule("C14-c"), 3)
	r.Floor("C14-d", r.countRule("C14-d"), 6)
}

func c14GetTime(w *World, r *Report, gt *ssa.Function) {
	name := fnName(gt)
	// locate: the Getenv call, the test `epoch != ""`, the parse call and its error test
	var getenv *ssa.Call
	for _, c := range calls(gt, false, func(c ssa.CallInstruction) bool { return isStdCall(c, "os.Getenv") || isStdCall(c, "os.LookupEnv") }) {
		getenv, _ = c.(*ssa.Call)
	}
	if getenv == nil {
		r.Fail("C14-a", name, "SOURCE_DATE_EPOCH consulted", w.relFile(gt.Pos()), "timestamp.GetTime no longer reads SOURCE_DATE_EPOCH")
		return
	}
	key, _ := getenv.Call.Args[0].(*ssa.Const)
	r.Check(key != nil && key.Value != nil && constant.StringVal(key.Value) == "SOURCE_DATE_EPOCH", "C14-a", name, "SOURCE_DATE_EPOCH consulted", w.relFile(getenv.Pos()), "", "the environment variable read is not SOURCE_DATE_EPOCH")
	// refuse the edges "epoch is empty" and "parse failed": then time.Now must be unreachable
	feasible := reachableAvoiding(gt, func(b *ssa.BasicBlock, idx int) bool {
		iff, ok := lastInstr(b).(*ssa.If)
		if !ok {
			return false
		}
		if bin, ok := iff.Cond.(*ssa.BinOp); ok && (bin.Op == token.NEQ || bin.Op == token.EQL) {
			// epoch != "" / == ""
			if c, isC := bin.Y.(*ssa.Const); isC && c.Value != nil && c.Value.Kind() == constant.String && constant.StringVal(c.Value) == "" && bin.X == ssa.Value(getenv) {
				emptyIdx := 1
				if bin.Op == token.EQL {
					emptyIdx = 0
				}
				return idx == emptyIdx
			}
			// err == nil / != nil of the parse
			if x, trueNonNil, ok := nilTest(bin); ok {
				if c := errSourceCall(x); c != nil {
					if f := c.Call.StaticCallee(); f != nil && strings.HasPrefix(fullFuncName(f), "strconv.") {
						nonNilIdx := 1
						if trueNonNil {
							nonNilIdx = 0
						}
						return idx == nonNilIdx
					}
				}
			}
		}
		return false
	})
	clock := calls(gt, false, func(c ssa.CallInstruction) bool { return isStdCall(c, "time.Now") })
	ok := true
	for _, c := range clock {
		if feasible[c.Block()] {
			ok = false
			r.Fail("C14-a", name, "clock unreachable when SOURCE_DATE_EPOCH parses", w.relFile(c.Pos()), "time.Now() is reachable in timestamp.GetTime although SOURCE_DATE_EPOCH is set and valid")
		}
	}
	// the epoch branch must return a time built from the parsed value
	usesParsed := false
	for _, ret := range returnsOf(gt) {
		if !feasible[ret.Block()] {
			continue
		}
		p := w.prov(ret.Results[0], provOpts{throughExternal: true})
		if p.hasCall(func(rt Root) bool { return rt.Fn != nil && strings.HasPrefix(fullFuncName(rt.Fn), "strconv.") }) && !p.hasCall(func(rt Root) bool {
			return rt.Fn != nil && nondetFuncs[fullFuncName(rt.Fn)] && fullFuncName(rt.Fn) != "os.Getenv"
		}) {
			usesParsed = true
		} else {
			ok = false
			r.Fail("C14-a", name, "epoch branch returns the parsed time", w.relFile(instrPos(ret)), "with SOURCE_DATE_EPOCH valid, GetTime returns a value not derived from it: "+strings.Join(p.rootStrings(), ","))
		}
	}
	if ok && usesParsed {
		r.Ok("C14-a", name, "clock unreachable when SOURCE_DATE_EPOCH parses", w.relFile(gt.Pos()), fmt.Sprintf("%d clock call(s) only on the unset/invalid edges", len(clock)))
	}
	// other nondeterminism in GetTime
	for _, c := range calls(gt, false, func(c ssa.CallInstruction) bool {
		s := nondetSource(c)
		return s != "" && s != "time.Now" && s != "os.Getenv"
	}) {
		r.Fail("C14-a", name, "other source "+nondetSource(c), w.relFile(c.Pos()), "unexpected nondeterminism source inside timestamp.GetTime")
	}
}

func c14ReproducibleWired(w *World, r *Report, fatPkgs []string) {
	cf := w.Method("disk", "Disk", "CreateFilesystem")
	for _, pkg := range fatPkgs {
		cr := w.Func(pkg, "Create")
		idx := -1
		var rp *ssa.Parameter
		for i, p := range cr.Params {
			if p.Name() == "reproducible" {
				idx, rp = i, p
			}
		}
		// the parameter controls a branch
		controls := false
		for _, b := range cr.Blocks {
			if iff, ok := lastInstr(b).(*ssa.If); ok {
				if v, _ := boolCondEdge(iff); v == ssa.Value(rp) {
					controls = true
				}
			}
		}
		// and any clock/random read in Create itself is infeasible with reproducible=true
		blocks, _ := w.feasibleBlocks(cr, binding{rp: constant.MakeBool(true)}, nil)
		leak := ""
		for _, c := range calls(cr, false, func(c ssa.CallInstruction) bool { return nondetSource(c) != "" }) {
			if blocks[c.Block()] {
				leak = nondetSource(c) + " at " + w.relFile(c.Pos())
			}
		}
		r.Check(controls && leak == "", "C14-d", fnName(cr), "reproducible parameter gates the volume serial", w.relFile(cr.Pos()),
			"parameter controls a branch; no nondeterminism source feasible with reproducible=true", "reproducible does not gate the nondeterministic volume id ("+leak+")")
		// Disk.CreateFilesystem (or a helper it delegates to) passes spec.Reproducible
		reach := w.reachableFrom([]*ssa.Function{cf}, func(f *ssa.Function) bool { return w.pkgOf(f) == "disk" })
		n := 0
		for _, host := range sortedFns(reach) {
			for _, c := range calls(host, false, func(c ssa.CallInstruction) bool { return c.Common().StaticCallee() == cr }) {
				n++
				p := w.prov(c.Common().Args[idx], provOpts{})
				r.Check(p.hasField("FilesystemSpec", "Reproducible") && len(p.Roots) >= 1 && onlyFieldOrParam(p), "C14-d", fnName(cf), "passes spec.Reproducible to "+fnName(cr), w.relFile(c.Pos()),
					"", "the reproducible argument is not spec.Reproducible: "+strings.Join(p.rootStrings(), ","))
			}
		}
		if n == 0 {
			r.Fail("C14-d", fnName(cf), "passes spec.Reproducible to "+fnName(cr), w.relFile(cf.Pos()), "Disk.CreateFilesystem does not reach this constructor")
		}
	}
	// a FilesystemSpec rebuilt on the way must carry the Reproducible field over
	reach := w.reachableFrom([]*ssa.Function{cf}, func(f *ssa.Function) bool { return w.pkgOf(f) == "disk" })
	for _, host := range sortedFns(reach) {
		allInstrs(host, func(ins ssa.Instruction) {
			al, ok := ins.(*ssa.Alloc)
			if !ok || !typeIs(al.Type(), "disk", "FilesystemSpec") {
				return
			}
			// the copy of the parameter itself (spill of `spec`) is a whole-struct store
			whole, field, anyField := false, false, false
			for _, ref := range *al.Referrers() {
				switch x := ref.(type) {
				case *ssa.Store:
					if x.Addr == ssa.Value(al) {
						whole = true
					}
				case *ssa.FieldAddr:
					for _, r2 := range *x.Referrers() {
						if st, isSt := r2.(*ssa.Store); isSt && st.Addr == ssa.Value(x) {
							anyField = true
							if _, f, _, ok := fieldOfAddr(x); ok && f.Name() == "Reproducible" {
								field = true
							}
						}
					}
				}
			}
			if whole || !anyField {
				return
			}
			r.Check(field, "C14-d", fnName(host), "rebuilt FilesystemSpec keeps Reproducible", w.relFile(instrPos(al)), "", "a FilesystemSpec is rebuilt field by field without Reproducible: the flag is lost on this path")
		})
	}
}

func onlyFieldOrParam(p *Prov) bool {
	for _, rt := range p.Roots {
		if rt.Kind != RField && rt.Kind != RParam && rt.Kind != RAlloc {
			return false
		}
	}
	return true
}

// c14StartOnlyOffsets: forward slice of the filesystem start offset.
func c14StartOnlyOffsets(w *World, r *Report, fatPkgs []string) {
	type work struct {
		v   ssa.Value
		why string
	}
	for _, pkg := range fatPkgs {
		var queue []work
		seen := map[ssa.Value]bool{}
		push := func(v ssa.Value, why string) {
			if v != nil && !seen[v] {
				seen[v] = true
				queue = append(queue, work{v, why})
			}
		}
		// sources: loads of a field named start in this package's functions, `start` parameters of Create/Read,
		// results of Start() accessors
		var pkgFns []*ssa.Function
		for _, fn := range w.ModFns {
			if w.pkgOf(fn) == pkg {
				pkgFns = append(pkgFns, fn)
			}
		}
		nsrc := 0
		for _, fn := range pkgFns {
			allInstrs(fn, func(ins ssa.Instruction) {
				switch x := ins.(type) {
				case *ssa.UnOp:
					if x.Op == token.MUL {
						if _, f, _, ok := fieldOfAddr(x.X); ok && f.Name() == "start" {
							nsrc++
							push(x, "load of ."+f.Name())
						}
					}
				case *ssa.Field:
					if _, f, _, ok := fieldOfAddr(x); ok && f.Name() == "start" {
						nsrc++
						push(x, "load of ."+f.Name())
					}
				case *ssa.Call:
					if callMethodName(x) == "Start" && typeBits(x.Type()) == 64 {
						nsrc++
						push(x, "Start()")
					}
				}
			})
			if fn.Parent() == nil && (fn.Name() == "Create" || fn.Name() == "Read") {
				for _, p := range fn.Params {
					if p.Name() == "start" {
						nsrc++
						push(p, "parameter start of "+fnName(fn))
					}
				}
			}
		}
		var bad []string
		for len(queue) > 0 {
			it := queue[0]
			queue = queue[1:]
			refs := it.v.Referrers()
			if refs == nil {
				continue
			}
			for _, ref := range *refs {
				switch x := ref.(type) {
				case *ssa.BinOp:
					switch x.Op {
					case token.EQL, token.NEQ, token.LSS, token.LEQ, token.GTR, token.GEQ:
						// comparison: control only
					default:
						push(x, it.why)
					}
				case *ssa.Convert:
					push(x, it.why)
				case *ssa.ChangeType:
					push(x, it.why)
				case *ssa.Phi:
					push(x, it.why)
				case *ssa.MakeInterface:
					push(x, it.why)
				case *ssa.DebugRef, *ssa.If:
				case *ssa.Return:
					// accessor: callers see a tainted value (handled by the Start() source above) — only allowed in accessors
					fn := x.Parent()
					if fn.Parent() != nil {
						// a local closure (a position helper): what it returns is what its call sites in the enclosing
						// function receive; follow those results instead of judging the return
						followed := false
						for _, pf := range withClosures(fn.Parent()) {
							allInstrs(pf, func(ins ssa.Instruction) {
								c, ok := ins.(*ssa.Call)
								if !ok {
									return
								}
								switch cv := c.Call.Value.(type) {
								case *ssa.MakeClosure:
									if cv.Fn == ssa.Value(fn) {
										push(c, it.why)
										followed = true
									}
								case *ssa.Function:
									if cv == fn {
										push(c, it.why)
										followed = true
									}
								default:
									// called through the local variable that holds the closure
									for _, rt := range w.prov(c.Call.Value, provOpts{}).Roots {
										if mc, ok := rt.Val.(*ssa.MakeClosure); ok && mc.Fn == ssa.Value(fn) {
											push(c, it.why)
											followed = true
										}
									}
								}
							})
						}
						if followed {
							continue
						}
					}
					if !(fn.Name() == "Start" || strings.HasPrefix(fn.Name(), "start")) {
						bad = append(bad, fmt.Sprintf("returned from %s at %s", fnName(fn), w.relFile(instrPos(x))))
					}
				case *ssa.Store:
					if x.Val != it.v {
						continue
					}
					if _, f, _, ok := fieldOfAddr(x.Addr); ok && (f.Name() == "start" || f.Name() == "offset") {
						continue
					}
					if al, ok := x.Addr.(*ssa.Alloc); ok {
						// local variable / varargs slot: follow loads
						for _, r2 := range *al.Referrers() {
							if ld, ok := r2.(*ssa.UnOp); ok && ld.Op == token.MUL {
								push(ld, it.why)
							}
						}
						continue
					}
					if ia, ok := x.Addr.(*ssa.IndexAddr); ok {
						// element of a []any built for a variadic diagnostics call
						if isAnySlice(ia.X.Type()) {
							continue
						}
					}
					bad = append(bad, fmt.Sprintf("stored into %s at %s", shortVal(x.Addr), w.relFile(x.Pos())))
				case ssa.CallInstruction:
					cc := x.Common()
					if isReadAt(x) || isWriteAt(x) {
						a := argsOf(x)
						if a[1] == it.v {
							continue
						}
						bad = append(bad, fmt.Sprintf("used as I/O data at %s", w.relFile(x.Pos())))
						continue
					}
					g := cc.StaticCallee()
					if g != nil {
						n := fullFuncName(g)
						if strings.HasPrefix(n, "fmt.") || strings.HasPrefix(n, "errors.") || strings.Contains(n, "logrus") {
							continue
						}
						if n == modPath+"/backend.Sub" {
							continue
						}
						if w.fnSet[g] && g.Blocks != nil {
							args := cc.Args
							for i, a := range args {
								if a == it.v && i < len(g.Params) {
									push(g.Params[i], it.why+" -> "+fnName(g))
								}
							}
							continue
						}
						bad = append(bad, fmt.Sprintf("passed to %s at %s", n, w.relFile(x.Pos())))
						continue
					}
					if cc.IsInvoke() && (cc.Method.Name() == "Seek") {
						continue
					}
					if cc.IsInvoke() {
						// interface call: follow into module implementations
						for _, g := range w.calleesCHA(x) {
							if w.fnSet[g] {
								for i, a := range cc.Args {
									if a == it.v && i+1 < len(g.Params) {
										push(g.Params[i+1], it.why+" -> "+fnName(g))
									}
								}
							}
						}
						continue
					}
					bad = append(bad, fmt.Sprintf("passed to a dynamic call at %s", w.relFile(x.Pos())))
				case *ssa.MakeClosure:
					// captured: follow the free variable
					if f, ok := x.Fn.(*ssa.Function); ok {
						for i, b := range x.Bindings {
							if b == it.v && i < len(f.FreeVars) {
								push(f.FreeVars[i], it.why)
							}
						}
					}
				case *ssa.Slice, *ssa.IndexAddr, *ssa.Index:
					// used as an index/bound: size-like use, not stored
				default:
					bad = append(bad, fmt.Sprintf("used by %T at %s", x, w.relFile(instrPos(ref))))
				}
			}
		}
		if nsrc == 0 {
			fatalf("C14-c: no use of the start offset found in %s", pkg)
		}
		r.Check(len(bad) == 0, "C14-c", pkg, "start offset flows only into I/O offsets", pkg, fmt.Sprintf("%d sources, %d values in the forward slice", nsrc, len(seen)),
			"the position of the volume inside the device can reach stored data: "+strings.Join(uniq(bad), "; "))
	}
}

func isAnySlice(t types.Type) bool {
	switch u := t.Underlying().(type) {
	case *types.Slice:
		i, ok := u.Elem().Underlying().(*types.Interface)
		return ok && i.NumMethods() == 0
	case *types.Pointer:
		if a, ok := u.Elem().Underlying().(*types.Array); ok {
			i, ok := a.Elem().Underlying().(*types.Interface)
			return ok && i.NumMethods() == 0
		}
	}
	return false
}

package main

// C05 — every ext4 image is clean for e2fsck; C04 — ext4 behaves like a tree (structural clauses).

import (
	"fmt"
	"go/token"
	"go/types"
	"os"
	"sort"
	"strings"

	"golang.org/x/tools/go/ssa"
)

func init() {
	register("C05", runC05, `Structural preconditions of e2fsck acceptance, decided statically in package ext4 (the oracle itself is an external program and is not run).
C05-a flush pairing (typestate over go/ssa CFGs with callee summaries): after a store to a field of a shared group descriptor, or a bitmap write (which refreshes the descriptor's bitmap checksum), every success return of the public mutating API is reached only through writeGDT; after a store to a field of the live superblock, only through writeSuperblock. Self-flushing helpers (incrGD*/decrGD*) must flush on every path on which they store, and count as flush points at their call sites.
C05-b checksum last: in inode.toBytes, groupDescriptor.toBytes and superblock.toBytes nothing is stored into the checksummed buffer after the checksum is computed except the checksum itself.
C05-c allocation and release address the same bit: every Set/Clear/IsSet on a bitmap read with readInodeBitmap uses the index ino - inodesPerGroup*g - 1, every one on a bitmap read with readBlockBitmap the index block - (firstDataBlock + g*blocksPerGroup); a group number computed from an inode is (ino-1)/inodesPerGroup and from a block (block-firstDataBlock)/blocksPerGroup.
C05-d counter dimension: what is added to superblock.freeBlocks / groupDescriptor.freeBlocks is a count of filesystem blocks (bitmap bits, extent counts), never inode.blocks (512-byte units unless the huge-file flag says otherwise).
C05-e layout agreement (byte-layout extraction) of superblock, group descriptor, inode and directory entry encoders and parsers.
C05-f a removed inode is released on disk: Remove stores 0 into the removed inode's link count (or a deletion time) and writes that inode back, so that the inode table agrees with the cleared bitmap bit.
C05-g writeDirectory stores a directory inode's size and block count so that they depend on the block count of its extents (a directory never gives blocks back).
C05-j every computation of the number of blocks of a group's inode table (a quotient whose dividend depends on inodes-per-group and whose divisor depends on the block size) rounds up: sibling sites that round differently disagree on where the table ends whenever the inodes do not fill the last block, and the free-block counts and bitmap locations built from them contradict each other.
C05-h a symlink target is kept in the inode exactly when it is shorter than 60 bytes: every comparison of a symlink length with the limit in Symlink, inode.toBytes and inodeFromBytes splits at 60.
C05-i the length to which Directory.toBytes pads the last entry of a block depends on withChecksums (room for the checksum tail).
Not covered: layout at mkfs time, link counts of parents, extent trees, directory block packing, what happens after a refused operation.`)
	register("C04", runC04, `Structural clauses of the ext4 tree behaviour, decided statically.
C04-a write-back pairing (typestate): after a store to a field of an inode that was loaded from disk (not a freshly built one), every success return of Chmod, Chown, Chtimes, Truncate, Symlink, mkDirEntry and File.Write is reached only through writeInode; the flush guarded by "size or block count changed" in File.Write is recognised.
C04-b frame conditions: Chmod, Chown and Chtimes store only their own inode fields (shared with C19-b).
C04-c allocation and release address the same bit (shared with C05-c): a file removed and a file created afterwards cannot share blocks or inodes with a live file.
C04-d an inode read from an arbitrary directory entry may have no extent tree (a symlink stored in the inode, a special file): every method call on its extents field is dominated by a nil test, as OpenFile does.
C04-e Remove rewrites the parent directory in all of its blocks (through writeDirectory, or every iteration of its block loop writes the block), so that no block keeps entries of the old listing.
C04-f in the extent loops of File.Read/Write an extent whose end (fileBlock+count, exclusive) equals the start block is skipped.
C04-g in those loops the device offset of each transfer depends on a value the transfer's own count updates (shared with C10-f).
C04-h every extent allocateExtents creates starts (fileBlock) at a value that depends on the blocks the file already has (previous.blockCount()).
C04-j the times Chtimes sets read back: encoder and decoder give the 32-bit seconds word of the inode timestamps one signedness (shared with C19-e).
C04-i writer/encoder/decoder agreement on where a symlink target lives: every comparison of a symlink length with the in-inode limit in Symlink, inode.toBytes and inodeFromBytes splits at 60 (shared with C05-h): a site that splits elsewhere makes Symlink accept a target that ReadLink and ReadDir then cannot read.
Not covered: the rest of the extent mapping arithmetic in File.Read/Write, directory block packing, path walking, equality with a reference tree.`)
}

const pE4c = "filesystem/ext4"

func init() {
	register("C20", runC20, `One structural clause of reading reference-made ext4 volumes, decided statically.
C20-a an image feature the library does not support must surface as an error, not a crash: an inode decoded from the image (readInode / inodeFromBytes) has no extent tree when it maps its blocks the ext2/ext3 way (mke2fs without the extent feature - in the property's quantifier), when it is a symlink stored in the inode, or a special file; every method call on its extents field is dominated by a nil test of that field.
C20-b the reference tools keep a symlink target inside the inode exactly when it is shorter than 60 bytes (the size of i_block, NUL included): every comparison of a symlink length with that limit in the decoder, the encoder and Symlink splits at 60 (shared with C05-h), so a 60-byte target from mke2fs is read from its data block, not from the extent header bytes.
Not covered (and not claimed): that decoded values equal what e2fsprogs wrote - hashed directories, interior extent nodes, holes, xattrs, feature gating of other incompatible features. Those need the reference implementation as an oracle; no static rule here decides them.`)
}

func runC05(w *World, r *Report) {
	r.Assume("go/ssa + static call resolution is a sound over-approximation of control flow inside package ext4 (interface calls on extent nodes change no descriptor or superblock field)")
	r.Assume("C05-a idiom (i): a range loop that flushes per element runs at least once whenever something was dirtied before it (deallocateExtents fills the two maps it ranges over with the same keys)")
	r.Assume("C05-a idiom (ii): the self-flushing helpers incrGD*/decrGD* are the flush points for a bitmap checksum refreshed just before them; on their zero-delta path no bit changed")
	r.Assume("C05-a idiom (iii): an in-package callee whose in-package call closure never mentions io.EOF cannot return io.EOF, so the 'err == io.EOF' continuation after it is infeasible")
	r.Assume("error returns are not examined: what the image looks like after a refused operation is not decided")
	c05Flush(w, r)
	c05ChecksumLast(w, r)
	c05BitIndex(w, r, "C05-c")
	c05Dimension(w, r)
	runCodecFamily(w, r, "C05-e", codecPairsC05)
	c05RemoveReleasesInode(w, r)
	c05DirSize(w, r)
	c05SymlinkLimit(w, r, "C05-h")
	c05DirRecLen(w, r)
	c05InodeTableBlocks(w, r)
	r.Floor("C05-j", r.countRule("C05-j"), 2)
	r.Floor("C05-h", r.countRule("C05-h"), 4)
	r.Floor("C05-i", r.countRule("C05-i"), 2)
	r.Floor("C05-g", r.countRule("C05-g"), 2)
	r.Floor("C05-a", r.countRule("C05-a"), 30)
	r.Floor("C05-b", r.countRule("C05-b"), 3)
	r.Floor("C05-c", r.countRule("C05-c"), 9)
	r.Floor("C05-d", r.countRule("C05-d"), 6)
	r.Floor("C05-e", r.countRule("C05-e"), 4)
	r.Floor("C05-f", r.countRule("C05-f"), 1)
}

func runC04(w *World, r *Report) {
	r.Assume("C04-a keeps one dirty bit per function for 'an inode loaded from disk was changed'; the flush of File.Write guarded by 'size or block count differs from the value saved on entry' is taken to discharge the stores made on that path")
	r.Assume("C04-a: an in-package callee whose call closure never mentions io.EOF cannot return io.EOF")
	c04WriteBack(w, r)
	sub := newReport("C04", r.Tier)
	c19Frames(w, sub)
	for _, o := range sub.Obls {
		if strings.Contains(o.Function, "ext4") {
			o.Rule = "C04-b"
			r.Obls = append(r.Obls, o)
			r.seen[o.Key()] = o
		}
	}
	c05BitIndex(w, r, "C04-c")
	c04ExtentsNil(w, r)
	c04DirRewrite(w, r)
	c04ExtentBoundary(w, r)
	c04ExtentFileBlock(w, r)
	c05SymlinkLimit(w, r, "C04-i")
	c19Ext4TimeSign(w, r, "C04-j")
	r.Floor("C04-i", r.countRule("C04-i"), 4)
	r.Floor("C04-h", r.countRule("C04-h"), 2)
	// C04-g = C10-f under this property's name: the position inside an extent follows the advancing cursor
	subc := newReport("C04", r.Tier)
	c10ExtentCursor(w, subc)
	for _, o := range subc.Obls {
		o.Rule = "C04-g"
		r.Obls = append(r.Obls, o)
		r.seen[o.Key()] = o
	}
	r.Floor("C04-g", r.countRule("C04-g"), 2)
	r.Floor("C04-f", r.countRule("C04-f"), 2)
	r.Floor("C04-d", r.countRule("C04-d"), 1)
	r.Floor("C04-e", r.countRule("C04-e"), 1)
	r.Floor("C04-a", r.countRule("C04-a"), 5)
	r.Floor("C04-b", r.countRule("C04-b"), 3)
	r.Floor("C04-c", r.countRule("C04-c"), 9)
}

// ---------------------------------------------------------------------------------------------------
// C05-a flush pairing

// storeToShared: ins stores into a field of struct `owner` through a pointer that is not a local (Alloc) copy.
func storeToShared(ins ssa.Instruction, owner string) (string, bool) {
	st, ok := ins.(*ssa.Store)
	if !ok {
		return "", false
	}
	n, fld, base, ok := fieldOfAddr(st.Addr)
	for k := 0; ok && k < 3 && (n == nil || n.Obj().Name() != owner); k++ {
		fa, isFA := base.(*ssa.FieldAddr)
		if !isFA {
			return "", false
		}
		n, fld, base, ok = fieldOfAddr(fa)
	}
	if !ok || n == nil || n.Obj().Name() != owner {
		return "", false
	}
	for k := 0; k < 3; k++ {
		if fa, isFA := base.(*ssa.FieldAddr); isFA {
			base = fa.X
		}
	}
	if _, local := base.(*ssa.Alloc); local {
		return "", false
	}
	return fld.Name(), true
}

func c05Flush(w *World, r *Report) {
	pkg := w.Pkg(pE4c)
	writeGDT := w.Method(pE4c, "FileSystem", "writeGDT")
	writeSB := w.Method(pE4c, "FileSystem", "writeSuperblock")
	wib := w.Method(pE4c, "FileSystem", "writeInodeBitmap")
	wbb := w.Method(pE4c, "FileSystem", "writeBlockBitmap")
	_ = pkg
	var fns []*ssa.Function
	for _, fn := range w.ModFns {
		if w.pkgOf(fn) == pE4c && fn.Blocks != nil {
			fns = append(fns, fn)
		}
	}
	// self-flushing helpers: in-package functions that change a group descriptor (possibly through a pointer handed
	// out by an accessor, so any store to non-local memory counts) and write the GDT themselves on every path on which
	// they stored anything; they reach writeGDT, and they are not larger operations (they do not write bitmaps).
	reachesFn := func(from *ssa.Function, targets ...*ssa.Function) bool {
		reach := w.reachableFrom([]*ssa.Function{from}, func(f *ssa.Function) bool { return w.pkgOf(f) == pE4c })
		for _, t := range targets {
			if _, ok := reach[t]; ok && t != from {
				return true
			}
		}
		return false
	}
	nonLocalStore := func(ins ssa.Instruction) bool {
		st, ok := ins.(*ssa.Store)
		if !ok {
			return false
		}
		base := st.Addr
		for k := 0; k < 4; k++ {
			switch x := base.(type) {
			case *ssa.FieldAddr:
				base = x.X
			case *ssa.IndexAddr:
				base = x.X
			}
		}
		_, local := base.(*ssa.Alloc)
		return !local
	}
	selfFlush := map[*ssa.Function]bool{}
	for _, fn := range fns {
		if fn == wib || fn == wbb || fn == writeGDT || token.IsExported(fn.Name()) || fn.Signature.Recv() == nil {
			continue
		}
		if !reachesFn(fn, writeGDT) || reachesFn(fn, wib, wbb, writeSB) {
			continue
		}
		rule := &flowRule{w: w, maxDepth: 4}
		rule.inline = func(g *ssa.Function, site ssa.CallInstruction) bool { return w.pkgOf(g) == pE4c && g != writeGDT }
		rule.step = func(ins ssa.Instruction, s int) (uint64, bool) {
			if nonLocalStore(ins) {
				return 1 << 1, true
			}
			if c, ok := ins.(ssa.CallInstruction); ok && c.Common().StaticCallee() == writeGDT {
				return 1 << 0, true
			}
			return 0, false
		}
		res := rule.run(fn, 1<<0, 0)
		clean, any := true, false
		for _, m := range res.successReturns() {
			any = true
			if m&(1<<1) != 0 {
				clean = false
			}
		}
		stores := false
		for f := range w.reachableFrom([]*ssa.Function{fn}, func(f *ssa.Function) bool { return w.pkgOf(f) == pE4c && f != writeGDT }) {
			allInstrs(f, func(ins ssa.Instruction) {
				if nonLocalStore(ins) {
					stores = true
				}
			})
		}
		if any && stores {
			selfFlush[fn] = clean
		}
	}
	var brokenHelpers []*ssa.Function
	for fn, ok := range selfFlush {
		if !ok {
			brokenHelpers = append(brokenHelpers, fn)
			delete(selfFlush, fn)
		}
	}
	type spec struct {
		rule, what string
		dirty      func(ins ssa.Instruction) (string, bool)
		flush      func(c ssa.CallInstruction) bool
		noInline   map[*ssa.Function]bool
	}
	gd := spec{
		rule: "C05-a", what: "group descriptor",
		dirty: func(ins ssa.Instruction) (string, bool) {
			if f, ok := storeToShared(ins, "groupDescriptor"); ok {
				return "store to groupDescriptor." + f, true
			}
			return "", false
		},
		flush: func(c ssa.CallInstruction) bool {
			g := c.Common().StaticCallee()
			return g == writeGDT || selfFlush[g]
		},
		noInline: selfFlush,
	}
	sb := spec{
		rule: "C05-a", what: "superblock",
		dirty: func(ins ssa.Instruction) (string, bool) {
			if f, ok := storeToShared(ins, "superblock"); ok {
				return "store to superblock." + f, true
			}
			return "", false
		},
		flush: func(c ssa.CallInstruction) bool { return c.Common().StaticCallee() == writeSB },
	}
	// 1. the helpers found: each is an obligation (a helper that changes a descriptor and can return without writing
	// the GDT is reported; its callers then see it as an ordinary function)
	var hs []*ssa.Function
	for h := range selfFlush {
		hs = append(hs, h)
	}
	sort.Slice(hs, func(i, j int) bool { return hs[i].Name() < hs[j].Name() })
	for _, h := range hs {
		r.Ok("C05-a", fnName(h), "self-flushing helper writes the GDT on every path that changes a descriptor", w.relFile(h.Pos()), "")
	}
	sort.Slice(brokenHelpers, func(i, j int) bool { return brokenHelpers[i].Name() < brokenHelpers[j].Name() })
	for _, h := range brokenHelpers {
		if strings.Contains(h.Name(), "GD") {
			r.Fail("C05-a", fnName(h), "self-flushing helper writes the GDT on every path that changes a descriptor", w.relFile(h.Pos()),
				"a path through this helper changes a group descriptor field and returns successfully without writeGDT: its callers rely on it as the flush point")
		}
	}
	// 2. public mutating API: clean at every success return
	var entries []*ssa.Function
	for _, fn := range fns {
		if fn.Signature.Recv() == nil {
			if fn.Name() == "Create" {
				entries = append(entries, fn)
			}
			continue
		}
		rn := namedOf(fn.Signature.Recv().Type())
		if rn == nil || !token.IsExported(fn.Name()) {
			continue
		}
		if rn.Obj().Name() == "FileSystem" || rn.Obj().Name() == "File" {
			entries = append(entries, fn)
		}
	}
	sort.Slice(entries, func(i, j int) bool { return fnName(entries[i]) < fnName(entries[j]) })
	for _, sp := range []spec{gd, sb} {
		sp := sp
		var lastDirty = map[*ssa.Function]string{}
		rule := &flowRule{w: w, maxDepth: 12}
		rule.inline = func(g *ssa.Function, site ssa.CallInstruction) bool {
			return w.pkgOf(g) == pE4c && !sp.noInline[g] && !sp.flush(site)
		}
		rule.step = func(ins ssa.Instruction, s int) (uint64, bool) {
			if what, ok := sp.dirty(ins); ok {
				lastDirty[ins.Parent()] = what + " at " + w.relFile(instrPos(ins))
				return 1 << 1, true
			}
			if c, ok := ins.(ssa.CallInstruction); ok {
				if sp.flush(c) {
					return 1 << 0, true
				}
				if sp.what == "group descriptor" {
					if g := c.Common().StaticCallee(); g == wib || g == wbb {
						lastDirty[ins.Parent()] = "bitmap checksum refreshed by " + g.Name() + " at " + w.relFile(instrPos(ins))
						return 1 << 1, true
					}
				}
			}
			return 0, false
		}
		// a range loop that flushes per element is a flush point when left: the collection it ranges over is filled
		// alongside the dirtying events, so it is non-empty whenever something was dirtied (assumption recorded)
		rule.edge = func(b *ssa.BasicBlock, idx int, s int) (uint64, bool) {
			if s != 1 {
				return 0, false
			}
			iff, ok := lastInstr(b).(*ssa.If)
			if !ok {
				return 0, false
			}
			if eofEdgeInfeasible(w, iff, idx) {
				return 0, true
			}
			ex, ok := iff.Cond.(*ssa.Extract)
			if !ok {
				return 0, false
			}
			if _, isNext := ex.Tuple.(*ssa.Next); !isNext || idx != 1 {
				return 0, false
			}
			// blocks of the loop body: reachable from the true successor without passing b
			seen := map[*ssa.BasicBlock]bool{b: true}
			stack := []*ssa.BasicBlock{b.Succs[0]}
			flushes := false
			for len(stack) > 0 {
				x := stack[len(stack)-1]
				stack = stack[:len(stack)-1]
				if seen[x] {
					continue
				}
				seen[x] = true
				for _, ins := range x.Instrs {
					if c, ok := ins.(ssa.CallInstruction); ok && sp.flush(c) {
						flushes = true
					}
				}
				if _, isRet := lastInstr(x).(*ssa.Return); isRet {
					continue
				}
				stack = append(stack, x.Succs...)
			}
			if !flushes {
				return 0, false
			}
			// the flush must be the last word of an iteration: nothing that dirties the object again (a bitmap write, a
			// field store, an in-package call that is not itself a flush) may follow it before the loop head is reached
			// again, or the last element handled stays dirty when the loop is left
			body := seen
			dirtyAfter := false
			isDirtying := func(ins ssa.Instruction) bool {
				if _, ok := sp.dirty(ins); ok {
					return true
				}
				c, ok := ins.(ssa.CallInstruction)
				if !ok || sp.flush(c) {
					return false
				}
				g := c.Common().StaticCallee()
				return g != nil && w.pkgOf(g) == pE4c && !strings.HasPrefix(g.Name(), "Errorf")
			}
			for x := range body {
				if x == b {
					continue
				}
				for i, ins := range x.Instrs {
					c, ok := ins.(ssa.CallInstruction)
					if !ok || !sp.flush(c) {
						continue
					}
					// forward from just after this flush, inside the body, until the head
					for _, later := range x.Instrs[i+1:] {
						if isDirtying(later) {
							dirtyAfter = true
						}
					}
					vis := map[*ssa.BasicBlock]bool{x: true, b: true}
					st := append([]*ssa.BasicBlock{}, x.Succs...)
					for len(st) > 0 {
						y := st[len(st)-1]
						st = st[:len(st)-1]
						if vis[y] || !body[y] {
							continue
						}
						vis[y] = true
						for _, later := range y.Instrs {
							if isDirtying(later) {
								dirtyAfter = true
							}
						}
						st = append(st, y.Succs...)
					}
				}
			}
			if dirtyAfter {
				return 0, false
			}
			return 1 << 0, true
		}
		if os.Getenv("DFS_C05_DEBUG") != "" {
			for _, f := range fns {
				res := rule.run(f, 1<<0, 0)
				if strings.HasSuffix(fnName(f), os.Getenv("DFS_C05_DEBUG")) {
					for _, b := range f.Blocks {
						fmt.Printf("DEBUGBLK %s b%d in=%b\n", fnName(f), b.Index, res.In[b])
						for _, ins := range b.Instrs {
							if c, ok := ins.(ssa.CallInstruction); ok {
								fmt.Printf("     call %s\n", c.Common().String())
							}
						}
					}
				}
				for ret, m := range res.successReturns() {
					if m&2 != 0 {
						fmt.Printf("DEBUG %s: %s dirty at success return %s\n", sp.what, fnName(f), w.relFile(ret.Pos()))
					}
				}
			}
		}
		for _, e := range entries {
			res := rule.run(e, 1<<0, 0)
			dirtyRet := ""
			reached := false
			for ret, m := range res.successReturns() {
				if m&(1<<1) != 0 {
					dirtyRet = w.relFile(ret.Pos())
				}
				reached = true
			}
			_ = reached
			// only entries that can dirty the object are obligations
			touches := false
			for f := range rule.Visited {
				if _, ok := lastDirty[f]; ok {
					touches = true
				}
			}
			if !c05Reaches(w, e, sp.dirty, wib, wbb, sp.what == "group descriptor") {
				continue
			}
			_ = touches
			why := ""
			if dirtyRet != "" {
				var ws []string
				for _, v := range lastDirty {
					ws = append(ws, v)
				}
				sort.Strings(ws)
				if len(ws) > 3 {
					ws = ws[:3]
				}
				why = fmt.Sprintf("a success return (%s) is reachable with the in-memory %s changed (%s) and not written: the on-disk copy e2fsck reads keeps the old value", dirtyRet, sp.what, strings.Join(ws, "; "))
			}
			r.Check(dirtyRet == "", sp.rule, fnName(e), sp.what+" changes are flushed before success", w.relFile(e.Pos()), "", why)
		}
	}
}

// c05Reaches: can entry e reach (through in-package static calls) an instruction that dirties the object?
func c05Reaches(w *World, e *ssa.Function, dirty func(ssa.Instruction) (string, bool), wib, wbb *ssa.Function, bitmaps bool) bool {
	seen := map[*ssa.Function]bool{}
	found := false
	var visit func(f *ssa.Function, d int)
	visit = func(f *ssa.Function, d int) {
		if seen[f] || found || d > 12 || f.Blocks == nil {
			return
		}
		seen[f] = true
		allInstrs(f, func(ins ssa.Instruction) {
			if _, ok := dirty(ins); ok {
				found = true
			}
			if c, ok := ins.(ssa.CallInstruction); ok {
				g := c.Common().StaticCallee()
				if g == nil {
					return
				}
				if bitmaps && (g == wib || g == wbb) {
					found = true
				}
				if w.fnSet[g] && w.pkgOf(g) == pE4c {
					visit(g, d+1)
				}
			}
		})
	}
	visit(e, 0)
	return found
}

// ---------------------------------------------------------------------------------------------------
// C05-b checksum last

func c05ChecksumLast(w *World, r *Report) {
	for _, tn := range []string{"inode", "groupDescriptor", "superblock"} {
		fn := w.Method(pE4c, tn, "toBytes")
		// the checksum computation: a call whose callee name contains "hecksum" or "CRC32c", taking the output buffer
		var sums []*ssa.Call
		allInstrs(fn, func(ins ssa.Instruction) {
			c, ok := ins.(*ssa.Call)
			if !ok {
				return
			}
			g := c.Call.StaticCallee()
			if g == nil {
				return
			}
			if strings.Contains(g.Name(), "hecksum") || strings.HasPrefix(g.Name(), "CRC") {
				for _, a := range c.Call.Args {
					if isByteSlice(a.Type()) {
						sums = append(sums, c)
						return
					}
				}
			}
		})
		if len(sums) == 0 {
			r.Undecided("C05-b", fnName(fn), "checksum computed over the encoded bytes", w.relFile(fn.Pos()), "no checksum computation over the output buffer found in the encoder (it may have moved into a helper this rule does not follow)")
			continue
		}
		// the last checksum call is the one over the final bytes
		sum := sums[len(sums)-1]
		var buf ssa.Value
		for _, a := range sum.Call.Args {
			if isByteSlice(a.Type()) {
				buf = a
				break
			}
		}
		root := sliceRoot(buf)
		bad := ""
		// blocks reachable after the checksum call
		after := map[*ssa.BasicBlock]bool{}
		stk := append([]*ssa.BasicBlock{}, sum.Block().Succs...)
		for len(stk) > 0 {
			x := stk[len(stk)-1]
			stk = stk[:len(stk)-1]
			if after[x] {
				continue
			}
			after[x] = true
			stk = append(stk, x.Succs...)
		}
		allInstrs(fn, func(ins ssa.Instruction) {
			if ins.Block() != sum.Block() && !after[ins.Block()] {
				return
			}
			if ins.Block() == sum.Block() && !after[sum.Block()] {
				after := false
				for _, x := range sum.Block().Instrs {
					if x == ssa.Instruction(sum) {
						after = true
					}
					if x == ins && !after {
						return
					}
				}
			}
			var dst ssa.Value
			var val []ssa.Value
			switch x := ins.(type) {
			case *ssa.Call:
				g := x.Call.StaticCallee()
				if b, ok := x.Call.Value.(*ssa.Builtin); ok && b.Name() == "copy" {
					dst, val = x.Call.Args[0], []ssa.Value{x.Call.Args[1]}
				} else if g != nil && strings.HasPrefix(g.Name(), "PutUint") {
					dst, val = x.Call.Args[len(x.Call.Args)-2], []ssa.Value{x.Call.Args[len(x.Call.Args)-1]}
				}
			case *ssa.Store:
				if ia, ok := x.Addr.(*ssa.IndexAddr); ok {
					dst, val = ia.X, []ssa.Value{x.Val}
				}
			}
			if dst == nil || sliceRoot(dst) != root || ins == ssa.Instruction(sum) {
				return
			}
			for _, v := range val {
				fromSum := false
				for _, rt := range w.prov(v, provOpts{throughExternal: true}).Roots {
					if rt.Kind == RCall && rt.Call == ssa.CallInstruction(sum) {
						fromSum = true
					}
				}
				// a scratch buffer filled from the checksum (PutUint32(checksum, actual); copy(b[..], checksum[..]))
				if !fromSum {
					if sr := sliceRoot(v); sr != nil && sr != root {
						allInstrs(fn, func(j ssa.Instruction) {
							if c, ok := j.(*ssa.Call); ok {
								if g := c.Call.StaticCallee(); g != nil && strings.HasPrefix(g.Name(), "PutUint") && sliceRoot(c.Call.Args[len(c.Call.Args)-2]) == sr {
									for _, rt := range w.prov(c.Call.Args[len(c.Call.Args)-1], provOpts{throughExternal: true}).Roots {
										if rt.Kind == RCall && rt.Call == ssa.CallInstruction(sum) {
											fromSum = true
										}
									}
								}
							}
						})
					}
				}
				if !fromSum {
					bad = "a store at " + w.relFile(instrPos(ins)) + " changes the buffer after its checksum was computed"
				}
			}
		})
		r.Check(bad == "", "C05-b", fnName(fn), "nothing but the checksum is stored after the checksum is computed", w.relFile(sum.Pos()), "", bad+": the stored checksum no longer matches the bytes e2fsck reads")
	}
}

// sliceRoot: the allocation a (re)sliced byte buffer refers to.
func sliceRoot(v ssa.Value) ssa.Value {
	for i := 0; i < 10 && v != nil; i++ {
		switch x := v.(type) {
		case *ssa.Slice:
			v = x.X
		case *ssa.Convert:
			v = x.X
		case *ssa.ChangeType:
			v = x.X
		default:
			return v
		}
	}
	return v
}

// ---------------------------------------------------------------------------------------------------
// C05-c bit index discipline

// bitmapKind: "inode" / "block" when the bitmap value was produced by readInodeBitmap / readBlockBitmap
// (through phis, tuples, local cells and local maps), "" otherwise.
func bitmapKind(v ssa.Value, seen map[ssa.Value]bool, depth int) map[string]bool {
	out := map[string]bool{}
	if v == nil || seen[v] || depth > 12 {
		return out
	}
	seen[v] = true
	add := func(m map[string]bool) {
		for k := range m {
			out[k] = true
		}
	}
	switch x := v.(type) {
	case *ssa.Call:
		if g := x.Call.StaticCallee(); g != nil {
			switch g.Name() {
			case "readInodeBitmap":
				out["inode"] = true
			case "readBlockBitmap":
				out["block"] = true
			default:
				out["other"] = true
			}
		}
	case *ssa.Extract:
		switch t := x.Tuple.(type) {
		case *ssa.Lookup:
			add(bitmapKind(t, seen, depth+1))
		case *ssa.Next:
			// range over a map: values stored into it
			add(mapValues(t.Iter.(*ssa.Range).X, seen, depth+1))
		default:
			add(bitmapKind(x.Tuple, seen, depth+1))
		}
	case *ssa.Phi:
		for _, e := range x.Edges {
			add(bitmapKind(e, seen, depth+1))
		}
	case *ssa.Lookup:
		add(mapValues(x.X, seen, depth+1))
	case *ssa.UnOp:
		if x.Op == token.MUL {
			if fa, ok := x.X.(*ssa.FieldAddr); ok {
				add(structFieldKinds(fa.X.Type(), fa.Field, seen, depth))
				break
			}
			for _, st := range cellStores(x.X) {
				add(bitmapKind(st.Val, seen, depth+1))
			}
		}
	case *ssa.Parameter:
		// bound to the actuals of the in-module call sites (a bitmap handed to a phase helper)
		fn := x.Parent()
		idx := -1
		for i, p := range fn.Params {
			if p == x {
				idx = i
			}
		}
		n := 0
		if bitmapW != nil && idx >= 0 {
			for _, caller := range bitmapW.ModFns {
				if caller.Blocks == nil {
					continue
				}
				for _, c := range calls(caller, true, func(c ssa.CallInstruction) bool { return c.Common().StaticCallee() == fn }) {
					if idx < len(c.Common().Args) {
						n++
						add(bitmapKind(c.Common().Args[idx], seen, depth+1))
					}
				}
			}
		}
		if n == 0 {
			out["param"] = true
		}
	case *ssa.Field:
		add(structFieldKinds(x.X.Type(), x.Field, seen, depth))
	default:
		out["other"] = true
	}
	return out
}

var bitmapW *World

// structFieldKinds: what the module stores into field k of struct type t (a bitmap carried in a small struct).
func structFieldKinds(t types.Type, k int, seen map[ssa.Value]bool, depth int) map[string]bool {
	out := map[string]bool{}
	st, ok := deref(t).Underlying().(*types.Struct)
	if !ok || bitmapW == nil || k >= st.NumFields() {
		out["other"] = true
		return out
	}
	bitmapW.buildFieldIndex()
	sts := bitmapW.fieldStoreIns[st.Field(k)]
	if len(sts) == 0 {
		out["other"] = true
	}
	for _, s := range sts {
		for kk := range bitmapKind(s.Val, seen, depth+1) {
			out[kk] = true
		}
	}
	return out
}

func mapValues(m ssa.Value, seen map[ssa.Value]bool, depth int) map[string]bool {
	out := map[string]bool{}
	if m == nil || m.Referrers() == nil {
		return out
	}
	// look through a load of a local cell holding the map
	if u, ok := m.(*ssa.UnOp); ok && u.Op == token.MUL {
		for _, st := range cellStores(u.X) {
			for k := range mapValues(st.Val, seen, depth+1) {
				out[k] = true
			}
		}
		return out
	}
	for _, ref := range *m.Referrers() {
		if mu, ok := ref.(*ssa.MapUpdate); ok && mu.Map == m {
			for k := range bitmapKind(mu.Value, seen, depth+1) {
				out[k] = true
			}
		}
	}
	return out
}

// linTerms flattens v through +/-/conversions; a parameter bound in bind is replaced by its actual.
func linTerms(v ssa.Value, bind map[*ssa.Parameter]ssa.Value) []term {
	var out []term
	for _, t := range addends(v) {
		if p, ok := stripConv(t.v).(*ssa.Parameter); ok && bind != nil && bind[p] != nil {
			for _, u := range addends(bind[p]) {
				out = append(out, term{neg: t.neg != u.neg, v: u.v})
			}
			continue
		}
		out = append(out, t)
	}
	return out
}

type idxShape struct {
	negOne, negFDB, negIPG, negBPG bool
	posOne                         bool
}

func (w *World) shapeOf(ts []term) idxShape {
	var s idxShape
	for _, t := range ts {
		v := stripConv(t.v)
		if k, ok := constInt(v); ok {
			if (k == 1 && t.neg) || (k == -1 && !t.neg) {
				s.negOne = true
			}
			if (k == 1 && !t.neg) || (k == -1 && t.neg) {
				s.posOne = true
			}
			continue
		}
		pv := w.prov(v, provOpts{})
		isProd := false
		if b, ok := v.(*ssa.BinOp); ok && b.Op == token.MUL {
			isProd = true
		}
		if t.neg && isProd && pv.hasField("superblock", "inodesPerGroup") {
			s.negIPG = true
		}
		if t.neg && isProd && pv.hasField("superblock", "blocksPerGroup") {
			s.negBPG = true
		}
		if t.neg && !isProd && pv.hasField("superblock", "firstDataBlock") && len(pv.Roots) == 1 {
			s.negFDB = true
		}
	}
	return s
}

func c05BitIndex(w *World, r *Report, rule string) {
	bitmapW = w
	var fns []*ssa.Function
	for _, fn := range w.ModFns {
		if w.pkgOf(fn) == pE4c && fn.Blocks != nil {
			fns = append(fns, fn)
		}
	}
	for _, fn := range fns {
		k := map[string]int{}
		for _, cc := range calls(fn, true, func(c ssa.CallInstruction) bool {
			g := c.Common().StaticCallee()
			if g == nil || g.Signature.Recv() == nil {
				return false
			}
			rn := namedOf(g.Signature.Recv().Type())
			return rn != nil && rn.Obj().Name() == "Bitmap" && (g.Name() == "Set" || g.Name() == "Clear" || g.Name() == "IsSet")
		}) {
			args := cc.Common().Args
			kinds := bitmapKind(args[0], map[ssa.Value]bool{}, 0)
			if !kinds["inode"] && !kinds["block"] {
				continue // a bitmap under construction (mkfs time) or a parameter
			}
			name := cc.Common().StaticCallee().Name()
			sh := w.shapeOf(linTerms(args[1], nil))
			// the index may be computed from a parameter of an extracted helper (groupStart): judge it with the
			// parameter replaced by what each caller passes; every call site must give the right form
			hasParam := false
			for _, t := range addends(args[1]) {
				if p, ok := stripConv(t.v).(*ssa.Parameter); ok && p.Parent() == cc.Parent() {
					hasParam = true
				}
			}
			if hasParam {
				first := true
				for _, caller := range fns {
					for _, site := range calls(caller, true, func(c ssa.CallInstruction) bool { return c.Common().StaticCallee() == cc.Parent() }) {
						bind := map[*ssa.Parameter]ssa.Value{}
						for i, p := range cc.Parent().Params {
							if i < len(site.Common().Args) {
								bind[p] = site.Common().Args[i]
							}
						}
						s2 := w.shapeOf(linTerms(args[1], bind))
						if first {
							sh, first = s2, false
						} else {
							sh.negOne = sh.negOne && s2.negOne
							sh.negIPG = sh.negIPG && s2.negIPG
							sh.negFDB = sh.negFDB && s2.negFDB
							sh.negBPG = sh.negBPG && s2.negBPG
						}
					}
				}
			}
			kind := "block"
			if kinds["inode"] {
				kind = "inode"
			}
			if kinds["inode"] && kinds["block"] {
				r.Fail(rule, fnName(fn), name+" on a bitmap of one kind", w.relFile(cc.Pos()), "the same bitmap value can be an inode bitmap or a block bitmap here")
				continue
			}
			k[kind+name]++
			cons := fmt.Sprintf("%s bitmap %s #%d addresses the object's own bit", kind, name, k[kind+name])
			if kind == "inode" {
				r.Check(sh.negOne && sh.negIPG, rule, fnName(fn), cons, w.relFile(cc.Pos()), "ino - inodesPerGroup*g - 1",
					fmt.Sprintf("the bit index passed to %s on an inode bitmap is not ino - inodesPerGroup*g - 1 (inode numbers start at 1; -1 present: %v, -inodesPerGroup*g present: %v): allocation and release address different inodes", name, sh.negOne, sh.negIPG))
			} else {
				r.Check(sh.negFDB && sh.negBPG, rule, fnName(fn), cons, w.relFile(cc.Pos()), "block - (firstDataBlock + g*blocksPerGroup)",
					fmt.Sprintf("the bit index passed to %s on a block bitmap is not block - (firstDataBlock + g*blocksPerGroup) (-firstDataBlock present: %v, -g*blocksPerGroup present: %v): on a 1 KiB-block volume (firstDataBlock = 1) allocation and release address different blocks", name, sh.negFDB, sh.negBPG))
			}
		}
		// group selection: readXBitmap(g) with g a quotient
		for _, cc := range calls(fn, true, func(c ssa.CallInstruction) bool {
			g := c.Common().StaticCallee()
			return g != nil && (g.Name() == "readInodeBitmap" || g.Name() == "readBlockBitmap" || g.Name() == "writeInodeBitmap" || g.Name() == "writeBlockBitmap")
		}) {
			callee := cc.Common().StaticCallee().Name()
			args := cc.Common().Args
			garg := args[len(args)-1]
			q, bind := groupQuotient(w, garg, 0)
			if q == nil {
				continue
			}
			sh := w.shapeOf(linTerms(q.X, bind))
			kind := "block"
			if strings.Contains(callee, "Inode") {
				kind = "inode"
			}
			k["grp"+kind]++
			cons := fmt.Sprintf("group of %s for %s #%d", kind, callee, k["grp"+kind])
			if kind == "inode" {
				r.Check(sh.negOne, rule, fnName(fn), cons, w.relFile(cc.Pos()), "(ino-1)/inodesPerGroup", "the group of an inode is not computed as (ino-1)/inodesPerGroup")
			} else {
				r.Check(sh.negFDB && !sh.negOne, rule, fnName(fn), cons, w.relFile(cc.Pos()), "(block-firstDataBlock)/blocksPerGroup",
					fmt.Sprintf("the group of a block is not computed as (block - firstDataBlock)/blocksPerGroup (-firstDataBlock present: %v, literal -1 present: %v): on a volume whose first data block is 0 (block size > 1 KiB) the first block of every group is attributed to the previous group and the bit index falls outside its bitmap", sh.negFDB, sh.negOne))
			}
		}
	}
}

// groupQuotient: the division g comes from (directly or as the result of an in-package helper), with the
// helper's parameters bound to the actuals.
func groupQuotient(w *World, v ssa.Value, depth int) (*ssa.BinOp, map[*ssa.Parameter]ssa.Value) {
	v = stripConv(v)
	if depth > 3 {
		return nil, nil
	}
	switch x := v.(type) {
	case *ssa.BinOp:
		if x.Op == token.QUO {
			return x, nil
		}
	case *ssa.Call:
		h := x.Call.StaticCallee()
		if h == nil || !w.fnSet[h] || h.Blocks == nil || h.Signature.Results().Len() != 1 {
			return nil, nil
		}
		for _, ret := range returnsOf(h) {
			if q, _ := groupQuotient(w, retResult(ret, 0), depth+1); q != nil {
				bind := map[*ssa.Parameter]ssa.Value{}
				for i, a := range x.Call.Args {
					if i < len(h.Params) {
						bind[h.Params[i]] = a
					}
				}
				return q, bind
			}
		}
	case *ssa.Phi:
		for _, e := range x.Edges {
			if q, b := groupQuotient(w, e, depth+1); q != nil {
				return q, b
			}
		}
	case *ssa.UnOp:
		if x.Op == token.MUL {
			for _, st := range cellStores(x.X) {
				if q, b := groupQuotient(w, st.Val, depth+1); q != nil {
					return q, b
				}
			}
		}
	}
	return nil, nil
}

// ---------------------------------------------------------------------------------------------------
// C05-d counter dimension

func c05Dimension(w *World, r *Report) {
	for _, fn := range w.ModFns {
		if w.pkgOf(fn) != pE4c || fn.Blocks == nil {
			continue
		}
		k := 0
		allInstrs(fn, func(ins ssa.Instruction) {
			st, ok := ins.(*ssa.Store)
			if !ok {
				return
			}
			n, fld, _, ok := fieldOfAddr(st.Addr)
			if !ok || n == nil || fld.Name() != "freeBlocks" || (n.Obj().Name() != "superblock" && n.Obj().Name() != "groupDescriptor") {
				return
			}
			// only read-modify-write updates (x.freeBlocks = x.freeBlocks +/- delta)
			ts := addends(st.Val)
			if len(ts) < 2 {
				return
			}
			k++
			bad := ""
			for _, t := range ts {
				pv := w.prov(t.v, provOpts{})
				if pv.hasField("inode", "blocks") {
					bad = "inode.blocks"
				}
			}
			r.Check(bad == "", "C05-d", fnName(fn), fmt.Sprintf("%s.freeBlocks changes by a count of filesystem blocks #%d", n.Obj().Name(), k), w.relFile(instrPos(st)), "",
				n.Obj().Name()+".freeBlocks is changed by "+bad+", which counts 512-byte sectors (and is added on top of the per-bit count): the free-block counters disagree with the bitmaps")
		})
	}
}

// ---------------------------------------------------------------------------------------------------
// C05-f the removed inode is released on disk

func c05RemoveReleasesInode(w *World, r *Report) {
	rm := w.Method(pE4c, "FileSystem", "Remove")
	wi := w.Method(pE4c, "FileSystem", "writeInode")
	// a store of constant 0 into hardLinks, or any store into deletionTime, of an inode loaded by readInode(entry.inode);
	// followed by writeInode of the same value
	ok := false
	detail := "Remove never stores a zero link count or a deletion time into the removed inode"
	allInstrs(rm, func(ins ssa.Instruction) {
		st, isSt := ins.(*ssa.Store)
		if !isSt {
			return
		}
		n, fld, base, fok := fieldOfAddr(st.Addr)
		if !fok || n == nil || n.Obj().Name() != "inode" {
			return
		}
		zeroLinks := fld.Name() == "hardLinks" && isZeroConst(st.Val)
		dtime := fld.Name() == "deletionTime" && !isZeroConst(st.Val)
		if !zeroLinks && !dtime {
			return
		}
		// written back afterwards
		for _, c := range calls(rm, false, func(c ssa.CallInstruction) bool { return c.Common().StaticCallee() == wi }) {
			a := c.Common().Args[len(c.Common().Args)-1]
			if a == base && (st.Block().Dominates(c.Block())) {
				ok = true
			}
		}
		if !ok {
			detail = "the removed inode is marked deleted in memory but not written back with writeInode"
		}
	})
	r.Check(ok, "C05-f", fnName(rm), "removed inode is marked deleted and written back", w.relFile(rm.Pos()), "",
		detail+": the inode table still describes a live file (links > 0, no deletion time) whose bitmap bit is clear, which e2fsck reports as an unattached inode / bitmap difference")
}

// ---------------------------------------------------------------------------------------------------
// C04-a inode write-back pairing

func c04WriteBack(w *World, r *Report) {
	wi := w.Method(pE4c, "FileSystem", "writeInode")
	entries := []*ssa.Function{
		w.Method(pE4c, "FileSystem", "Chmod"), w.Method(pE4c, "FileSystem", "Chown"), w.Method(pE4c, "FileSystem", "Chtimes"),
		w.Method(pE4c, "FileSystem", "Truncate"), w.Method(pE4c, "FileSystem", "Symlink"), w.Method(pE4c, "FileSystem", "mkDirEntry"),
		w.Method(pE4c, "File", "Write"),
	}
	if rmv := w.MethodOpt(pE4c, "FileSystem", "Remove"); rmv != nil {
		entries = append(entries, rmv)
	}
	for _, e := range entries {
		last := ""
		rule := &flowRule{w: w, maxDepth: 4}
		rule.inline = func(g *ssa.Function, site ssa.CallInstruction) bool { return w.pkgOf(g) == pE4c && g != wi }
		rule.step = func(ins ssa.Instruction, s int) (uint64, bool) {
			if f, ok := storeToShared(ins, "inode"); ok {
				last = "inode." + f + " at " + w.relFile(instrPos(ins))
				return 1 << 1, true
			}
			if c, ok := ins.(ssa.CallInstruction); ok && c.Common().StaticCallee() == wi {
				return 1 << 0, true
			}
			return 0, false
		}
		// compare-guarded flush: on the edge that skips a writeInode guarded by a comparison of the inode's own
		// size/blocks with the values saved on entry, nothing was changed
		rule.edge = func(b *ssa.BasicBlock, idx int, s int) (uint64, bool) {
			iff, ok := lastInstr(b).(*ssa.If)
			if !ok || s != 1 {
				return 0, false
			}
			if eofEdgeInfeasible(w, iff, idx) {
				return 0, true
			}
			pv := w.prov(iff.Cond, provOpts{phiControl: true})
			if !(pv.hasField("inode", "size") || pv.hasField("inode", "blocks")) {
				return 0, false
			}
			other := b.Succs[1-idx]
			flushOther := false
			for _, ins := range other.Instrs {
				if c, ok := ins.(ssa.CallInstruction); ok && c.Common().StaticCallee() == wi {
					flushOther = true
				}
			}
			if flushOther {
				return 1 << 0, true
			}
			return 0, false
		}
		res := rule.run(e, 1<<0, 0)
		stores := false
		allInstrs(e, func(ins ssa.Instruction) {
			if _, ok := storeToShared(ins, "inode"); ok {
				stores = true
			}
		})
		if !stores {
			continue
		}
		bad := ""
		for ret, m := range res.successReturns() {
			if m&(1<<1) != 0 {
				bad = w.relFile(ret.Pos())
			}
		}
		r.Check(bad == "", "C04-a", fnName(e), "inode changes are written back before success", w.relFile(e.Pos()), "",
			fmt.Sprintf("a success return (%s) is reachable after a store to %s without writeInode: the change is visible on the live handle and lost when the image is re-opened", bad, last))
	}
}

// eofEdgeInfeasible: the edge of `err == io.EOF` / `err != io.EOF` on which err IS io.EOF, where err is the error
// of an in-package call whose (in-package) call closure never mentions io.EOF: that callee cannot return it.
func eofEdgeInfeasible(w *World, iff *ssa.If, idx int) bool {
	cond, tIdx := boolCondEdge(iff)
	bin, ok := cond.(*ssa.BinOp)
	if !ok || (bin.Op != token.EQL && bin.Op != token.NEQ) {
		return false
	}
	isEOF := func(v ssa.Value) bool {
		u, ok := v.(*ssa.UnOp)
		if !ok || u.Op != token.MUL {
			return false
		}
		g, ok := u.X.(*ssa.Global)
		return ok && g.Name() == "EOF" && g.Pkg != nil && g.Pkg.Pkg.Path() == "io"
	}
	var errv ssa.Value
	switch {
	case isEOF(bin.Y):
		errv = bin.X
	case isEOF(bin.X):
		errv = bin.Y
	default:
		return false
	}
	// the edge on which err == io.EOF
	eofIdx := tIdx
	if bin.Op == token.NEQ {
		eofIdx = 1 - tIdx
	}
	if idx != eofIdx {
		return false
	}
	ex, ok := errv.(*ssa.Extract)
	if !ok {
		return false
	}
	c, ok := ex.Tuple.(*ssa.Call)
	if !ok {
		return false
	}
	g := c.Call.StaticCallee()
	if g == nil || !w.fnSet[g] {
		return false
	}
	return !mentionsEOF(w, g, map[*ssa.Function]bool{}, 0)
}

func mentionsEOF(w *World, fn *ssa.Function, seen map[*ssa.Function]bool, d int) bool {
	if seen[fn] {
		return false
	}
	seen[fn] = true
	if fn.Blocks == nil || d > 10 {
		return true
	}
	found := false
	allInstrs(fn, func(ins ssa.Instruction) {
		if found {
			return
		}
		for _, op := range ins.Operands(nil) {
			if g, ok := (*op).(*ssa.Global); ok && g.Name() == "EOF" {
				found = true
			}
		}
		if c, ok := ins.(ssa.CallInstruction); ok {
			if g := c.Common().StaticCallee(); g != nil {
				if w.fnSet[g] {
					if mentionsEOF(w, g, seen, d+1) {
						found = true
					}
				}
			} else if c.Common().IsInvoke() {
				// interface call: any in-module implementation
				for _, t := range w.calleesCHA(c) {
					if w.fnSet[t] && mentionsEOF(w, t, seen, d+1) {
						found = true
					}
				}
			}
		}
	})
	return found
}

// ---------------------------------------------------------------------------------------------------
// C04-d an arbitrary entry's inode may have no extent tree

// c04ExtentsNil: a method call on inode.extents, for an inode read from an arbitrary directory entry
// (readInode(entry.inode) with entry a *directoryEntry that is not a Directory's own), must be dominated
// by a test of that field against nil: symlinks stored in the inode and special files have none.
// OpenFile and openFileViaInode test it; the same holds for every other such site (contradiction rule).
func c04ExtentsNil(w *World, r *Report) {
	extentsNilRule(w, r, "C04-d", inodeOfArbitraryEntry, "extent tree of an arbitrary entry's inode is tested before use",
		"a method is called on inode.extents of an inode read from an arbitrary directory entry without testing it against nil: a symlink whose target is stored in the inode (and a special file) has no extent tree, so the call panics",
		"no use of the extent tree of an arbitrary entry's inode")
}

// extentsNilRule: every interface method call on the extents field of an inode selected by pick must be dominated by
// the non-nil edge of a nil test of that same field.
func extentsNilRule(w *World, r *Report, rule string, pick func(ssa.Value) bool, construct, fail, none string) {
	n := 0
	for _, fn := range w.ModFns {
		if w.pkgOf(fn) != pE4c || fn.Blocks == nil {
			continue
		}
		k := 0
		allInstrs(fn, func(ins ssa.Instruction) {
			c, ok := ins.(*ssa.Call)
			if !ok || !c.Call.IsInvoke() {
				return
			}
			ld, ok := c.Call.Value.(*ssa.UnOp)
			if !ok || ld.Op != token.MUL {
				return
			}
			fa, ok := ld.X.(*ssa.FieldAddr)
			if !ok {
				return
			}
			nm, fld, base, ok := fieldOfAddr(fa)
			if !ok || nm == nil || nm.Obj().Name() != "inode" || fld.Name() != "extents" {
				return
			}
			if !pick(base) {
				return
			}
			k++
			n++
			// a dominating nil test of the same field of the same inode
			guarded := false
			for _, b := range fn.Blocks {
				iff, ok := lastInstr(b).(*ssa.If)
				if !ok {
					continue
				}
				x, trueIsNonNil, ok := nilTest(iff.Cond)
				if !ok {
					continue
				}
				l2, ok := stripConv(x).(*ssa.UnOp)
				if !ok || l2.Op != token.MUL {
					continue
				}
				f2, ok := l2.X.(*ssa.FieldAddr)
				if !ok || f2.Field != fa.Field || f2.X != fa.X {
					continue
				}
				idx := 1
				if trueIsNonNil {
					idx = 0
				}
				if edgeDominates(b, idx, c.Block()) {
					guarded = true
				}
			}
			r.Check(guarded, rule, fnName(fn), fmt.Sprintf("%s #%d", construct, k), w.relFile(c.Pos()), "", fail)
		})
	}
	if n == 0 {
		r.Ok(rule, "filesystem/ext4", none, "filesystem/ext4", "")
	}
}

// inodeDecodedFromImage: v is the inode returned by readInode(...) or inodeFromBytes(...): it describes whatever
// the image holds.
func inodeDecodedFromImage(v ssa.Value) bool {
	ex, ok := stripConv(v).(*ssa.Extract)
	if !ok {
		return false
	}
	c, ok := ex.Tuple.(*ssa.Call)
	if !ok {
		return false
	}
	g := c.Call.StaticCallee()
	return g != nil && (g.Name() == "readInode" || g.Name() == "inodeFromBytes")
}

func runC20(w *World, r *Report) {
	extentsNilRule(w, r, "C20-a", inodeDecodedFromImage, "extent tree of an inode decoded from the image is tested before use",
		"a method is called on inode.extents of an inode decoded from the image without testing it against nil: an inode that maps its blocks without extents (ext2/ext3-style files and directories, which mke2fs produces without the extent feature), a symlink stored in the inode or a special file has no extent tree, so reading it panics instead of failing with an error",
		"no use of the extent tree of an inode decoded from the image")
	r.Floor("C20-a", r.countRule("C20-a"), 5)
	// C20-b: the reference tools keep a symlink target in the inode exactly when it is shorter than 60 bytes; the decoder
	// (and the library's own writer, whose images must read the same way) split at the same length
	c05SymlinkLimit(w, r, "C20-b")
	r.Floor("C20-b", r.countRule("C20-b"), 4)
}

// inodeOfArbitraryEntry: v is the inode returned by readInode(e.inode) where e is a *directoryEntry reached
// other than as the embedded entry of a Directory.
func inodeOfArbitraryEntry(v ssa.Value) bool {
	ex, ok := stripConv(v).(*ssa.Extract)
	if !ok {
		return false
	}
	c, ok := ex.Tuple.(*ssa.Call)
	if !ok {
		return false
	}
	g := c.Call.StaticCallee()
	if g == nil || g.Name() != "readInode" {
		return false
	}
	arg := stripConv(c.Call.Args[len(c.Call.Args)-1])
	ld, ok := arg.(*ssa.UnOp)
	if !ok || ld.Op != token.MUL {
		return false
	}
	fa, ok := ld.X.(*ssa.FieldAddr)
	if !ok {
		return false
	}
	nm, fld, base, ok := fieldOfAddr(fa)
	if !ok || nm == nil || nm.Obj().Name() != "directoryEntry" || fld.Name() != "inode" {
		return false
	}
	// the embedded entry of a Directory is a directory
	if b2, ok := base.(*ssa.FieldAddr); ok {
		if n2, _, _, ok := fieldOfAddr(b2); ok && n2 != nil && n2.Obj().Name() == "Directory" {
			return false
		}
	}
	return true
}

// ---------------------------------------------------------------------------------------------------
// C04-e a directory rewritten in place is rewritten in all of its blocks

// c04DirRewrite: in Remove the parent directory is serialised again and written into its existing blocks.
// Either that goes through writeDirectory (which also sets the directory's size to the bytes written), or the
// loop over the directory's blocks writes every block: from the body of the innermost loop that contains the
// block writes, the loop cannot be left (other than by an error return) without passing a device write.
func c04DirRewrite(w *World, r *Report) {
	rm := w.Method(pE4c, "FileSystem", "Remove")
	wd := w.Method(pE4c, "FileSystem", "writeDirectory")
	if len(calls(rm, false, func(c ssa.CallInstruction) bool { return c.Common().StaticCallee() == wd })) > 0 {
		r.Ok("C04-e", fnName(rm), "parent directory rewritten in all of its blocks", w.relFile(rm.Pos()), "through writeDirectory")
		return
	}
	// the block writes: WriteAt whose data derives from Directory.toBytes, in Remove or in a phase helper it calls
	// (the serialised bytes then arrive as a parameter)
	var writes []ssa.CallInstruction
	host := rm
	scope := w.reachableFrom([]*ssa.Function{rm}, func(f *ssa.Function) bool { return w.pkgOf(f) == pE4c })
	// Remove's own phase helpers: functions whose every in-package caller is Remove or another such helper
	phase := map[*ssa.Function]bool{rm: true}
	for changed := true; changed; {
		changed = false
		for f := range scope {
			if phase[f] {
				continue
			}
			ncall, all := 0, true
			for _, caller := range w.ModFns {
				if caller.Blocks == nil {
					continue
				}
				for range calls(caller, true, func(c ssa.CallInstruction) bool { return c.Common().StaticCallee() == f }) {
					ncall++
					if !phase[caller] {
						all = false
					}
				}
			}
			if ncall > 0 && all {
				phase[f] = true
				changed = true
			}
		}
	}
	for _, f := range sortedFns(scope) {
		if f != rm && (f.Name() == "writeInode" || f.Name() == "writeGDT" || f.Name() == "writeSuperblock" || strings.Contains(f.Name(), "Bitmap") || f.Name() == "deallocateExtents") {
			continue
		}
		for _, c := range calls(f, false, isWriteAt) {
			pv := w.prov(argsOf(c)[0], provOpts{bindParams: true})
			// the bytes are the ones Remove itself serialised (writeDirectory, reached through the mkdir path, has its own
			// contract: it sets the directory's size to what it wrote)
			fromRemove := f != wd && pv.hasCall(func(rt Root) bool {
				if rt.Call == nil || rt.Fn == nil || rt.Fn.Name() != "toBytes" {
					return false
				}
				// serialised by Remove or one of its phase helpers, not by a function that hands the bytes to writeDirectory
				ser := rt.Call.Parent()
				return phase[ser] && len(calls(ser, false, func(c ssa.CallInstruction) bool { return c.Common().StaticCallee() == wd })) == 0
			})
			if fromRemove && phase[f] && len(cycleThrough(c.Block())) > 0 {
				if len(writes) == 0 {
					host = f
				}
				if f == host {
					writes = append(writes, c)
				}
			}
		}
	}
	if len(writes) == 0 {
		r.Fail("C04-e", fnName(rm), "parent directory rewritten in all of its blocks", w.relFile(rm.Pos()), "Remove neither calls writeDirectory nor writes the re-serialised parent directory to the device: the removed name stays listed")
		return
	}
	bad, why := loopWritesEveryBlock(host, writes[0])
	r.Check(!bad, "C04-e", fnName(rm), "parent directory rewritten in all of its blocks", w.relFile(writes[0].Pos()), "every iteration of the block loop writes its block",
		why+"an iteration of the loop over the parent directory's blocks can end (or the loop can be left) without writing the block: blocks beyond the shorter listing keep their old entries, which are listed again")
}

// loopWritesEveryBlock: wr is a device write inside a loop over an object's blocks. From the body of the innermost
// such loop, the loop cannot be left, nor its next iteration started, without passing a device write - other than by
// an error return. Returns bad=true (and a reason prefix) otherwise.
func loopWritesEveryBlock(fn *ssa.Function, wr ssa.CallInstruction) (bool, string) {
	anyWrite := map[*ssa.BasicBlock]bool{}
	for _, c := range calls(fn, false, isWriteAt) {
		anyWrite[c.Block()] = true
	}
	wb := wr.Block()
	loop := cycleThrough(wb)
	if len(loop) == 0 {
		return true, "the block write is not in a loop over the blocks; "
	}
	var header *ssa.BasicBlock
	for b := range loop {
		for _, p := range b.Preds {
			if !loop[p] && b.Dominates(wb) {
				if header == nil || header.Dominates(b) {
					header = b
				}
			}
		}
	}
	inner := loop
	for b := range loop {
		if b != header && b.Dominates(wb) {
			c2 := cycleThroughWithin(wb, b)
			if len(c2) > 0 && len(c2) < len(inner) && c2[b] {
				isHeader := false
				for _, p := range b.Preds {
					if !c2[p] {
						isHeader = true
					}
				}
				if isHeader {
					inner, header = c2, b
				}
			}
		}
	}
	if header == nil {
		return true, "cannot identify the loop over the blocks; "
	}
	for _, s := range header.Succs {
		if !inner[s] {
			continue
		}
		seen := map[*ssa.BasicBlock]bool{}
		stack := []*ssa.BasicBlock{s}
		for len(stack) > 0 {
			b := stack[len(stack)-1]
			stack = stack[:len(stack)-1]
			if seen[b] || anyWrite[b] {
				continue
			}
			seen[b] = true
			if b == header {
				return true, ""
			}
			if !inner[b] {
				if ret, ok := lastInstr(b).(*ssa.Return); ok && classifyReturn(ret) == RetError {
					continue
				}
				if blockLeadsToErrorReturn(b, 0) {
					continue
				}
				return true, ""
			}
			stack = append(stack, b.Succs...)
		}
	}
	return false, ""
}

// cycleThrough: blocks on some cycle through b (reachable from b and reaching b).
func cycleThrough(b *ssa.BasicBlock) map[*ssa.BasicBlock]bool {
	fwd := map[*ssa.BasicBlock]bool{}
	st := append([]*ssa.BasicBlock{}, b.Succs...)
	for len(st) > 0 {
		x := st[len(st)-1]
		st = st[:len(st)-1]
		if fwd[x] {
			continue
		}
		fwd[x] = true
		st = append(st, x.Succs...)
	}
	if !fwd[b] {
		return nil
	}
	bwd := map[*ssa.BasicBlock]bool{}
	st = append(st[:0], b.Preds...)
	for len(st) > 0 {
		x := st[len(st)-1]
		st = st[:len(st)-1]
		if bwd[x] {
			continue
		}
		bwd[x] = true
		st = append(st, x.Preds...)
	}
	out := map[*ssa.BasicBlock]bool{}
	for x := range fwd {
		if bwd[x] {
			out[x] = true
		}
	}
	return out
}

// cycleThroughWithin: blocks on a cycle through b using only blocks dominated by h.
func cycleThroughWithin(b, h *ssa.BasicBlock) map[*ssa.BasicBlock]bool {
	ok := func(x *ssa.BasicBlock) bool { return h.Dominates(x) }
	fwd := map[*ssa.BasicBlock]bool{}
	st := []*ssa.BasicBlock{}
	for _, s := range b.Succs {
		if ok(s) {
			st = append(st, s)
		}
	}
	for len(st) > 0 {
		x := st[len(st)-1]
		st = st[:len(st)-1]
		if fwd[x] {
			continue
		}
		fwd[x] = true
		for _, s := range x.Succs {
			if ok(s) {
				st = append(st, s)
			}
		}
	}
	if !fwd[b] {
		return nil
	}
	bwd := map[*ssa.BasicBlock]bool{}
	st = st[:0]
	for _, p := range b.Preds {
		if ok(p) {
			st = append(st, p)
		}
	}
	for len(st) > 0 {
		x := st[len(st)-1]
		st = st[:len(st)-1]
		if bwd[x] {
			continue
		}
		bwd[x] = true
		for _, p := range x.Preds {
			if ok(p) {
				st = append(st, p)
			}
		}
	}
	out := map[*ssa.BasicBlock]bool{}
	for x := range fwd {
		if bwd[x] {
			out[x] = true
		}
	}
	return out
}

// ---------------------------------------------------------------------------------------------------
// C04-f extent boundary

// c04ExtentBoundary: in the extent loops of ext4 File.Read / File.Write an extent is skipped when it ends at or before
// the block the transfer starts in. fileBlock+count is the first block AFTER the extent, so the comparison of that sum
// with the start block must send the equality case down the skipping edge; otherwise the previous extent is processed
// with a position beyond its end and the length of the transfer goes negative (makeslice panic).
func c04ExtentBoundary(w *World, r *Report) {
	for _, mn := range []string{"Read", "Write"} {
		fn := w.Method(pE4c, "File", mn)
		var io *ssa.BasicBlock
		for _, c := range calls(fn, false, func(c ssa.CallInstruction) bool { return isReadAt(c) || isWriteAt(c) }) {
			if len(cycleThrough(c.Block())) > 0 {
				io = c.Block()
			}
		}
		n := 0
		for _, b := range fn.Blocks {
			iff, ok := lastInstr(b).(*ssa.If)
			if !ok {
				continue
			}
			cond, tIdx := boolCondEdge(iff)
			bin, ok := cond.(*ssa.BinOp)
			if !ok {
				continue
			}
			isEnd := func(v ssa.Value) bool {
				hasFB, hasCnt := false, false
				for _, t := range addends(v) {
					if t.neg {
						return false
					}
					pv := w.prov(t.v, provOpts{})
					if pv.hasField("extent", "fileBlock") && !pv.hasField("extent", "count") {
						hasFB = true
					}
					if pv.hasField("extent", "count") && !pv.hasField("extent", "fileBlock") {
						hasCnt = true
					}
				}
				return hasFB && hasCnt
			}
			if os.Getenv("DFS_C04_DEBUG") != "" && (bin.Op == token.LEQ || bin.Op == token.LSS) {
				fmt.Printf("DEBUG cond %s: X terms:", bin.String())
				for _, t := range addends(bin.X) {
					fmt.Printf(" [%v %s roots=%v]", t.neg, t.v.String(), w.prov(t.v, provOpts{}).rootStrings())
				}
				fmt.Println()
			}
			if !isEnd(bin.X) && !isEnd(bin.Y) {
				continue
			}
			var atEq bool
			switch bin.Op {
			case token.LEQ, token.GEQ, token.EQL:
				atEq = true
			case token.LSS, token.GTR, token.NEQ:
				atEq = false
			default:
				continue
			}
			if os.Getenv("DFS_C04_DEBUG") != "" {
				fmt.Printf("DEBUG isEnd ok; io=%v atEq=%v\n", io != nil, atEq)
			}
			if io == nil {
				continue
			}
			n++
			// the edge that skips the extent: the successor that does not lead to the transfer within this iteration
			skipIdx := -1
			loop := cycleThrough(io)
			var header *ssa.BasicBlock
			for x := range loop {
				for _, p := range x.Preds {
					if !loop[p] && x.Dominates(io) {
						header = x
					}
				}
			}
			reachesIO := func(from *ssa.BasicBlock) bool {
				seen := map[*ssa.BasicBlock]bool{}
				st := []*ssa.BasicBlock{from}
				for len(st) > 0 {
					x := st[len(st)-1]
					st = st[:len(st)-1]
					if seen[x] || x == header || !loop[x] {
						continue
					}
					seen[x] = true
					if x == io {
						return true
					}
					st = append(st, x.Succs...)
				}
				return false
			}
			for k, s := range b.Succs {
				if !reachesIO(s) {
					skipIdx = k
				}
			}
			if skipIdx < 0 {
				continue
			}
			eqTakes := 1 - tIdx // successor index taken when the condition is false
			if atEq {
				eqTakes = tIdx
			}
			r.Check(eqTakes == skipIdx, "C04-f", fnName(fn), fmt.Sprintf("an extent ending exactly at the start block is skipped #%d", n), w.relFile(iff.Pos()), "",
				"the extent loop compares fileBlock+count (the first block after the extent) with the block the transfer starts in so that equality does not skip the extent: a transfer starting in the first block of a later extent processes the previous extent with a position beyond its end and panics (makeslice: len out of range)")
		}
		if n == 0 {
			r.Undecided("C04-f", fnName(fn), "extent boundary test", w.relFile(fn.Pos()), "no comparison of an extent's end (fileBlock+count) with the start block found in the extent loop")
		}
	}
}

// ---------------------------------------------------------------------------------------------------
// C05-g directory size and block count follow the extents

// c05DirSize: writeDirectory stores the directory inode's size and block count. A directory never gives blocks
// back, so both must account for the blocks its extents map, not only for the bytes of the current listing: the
// stored values depend (by data or by the condition selecting them) on the extents' block count.
func c05DirSize(w *World, r *Report) {
	wd := w.Method(pE4c, "FileSystem", "writeDirectory")
	n := 0
	allInstrs(wd, func(ins ssa.Instruction) {
		st, ok := ins.(*ssa.Store)
		if !ok {
			return
		}
		nm, f, _, ok := fieldOfAddr(st.Addr)
		if !ok || nm == nil || nm.Obj().Name() != "inode" || (f.Name() != "size" && f.Name() != "blocks") {
			return
		}
		n++
		pv := w.prov(st.Val, provOpts{phiControl: true, sliceLen: true, throughExternal: true})
		dep := pv.hasCallNamed("blockCount")
		r.Check(dep, "C05-g", fnName(wd), fmt.Sprintf("directory inode %s accounts for the blocks the extents map #%d", f.Name(), n), w.relFile(instrPos(st)), "",
			"writeDirectory sets the directory inode's "+f.Name()+" from the bytes of the listing alone: after entries were removed the directory owns more blocks than the listing needs, and the inode then describes fewer blocks than its extent tree maps (e2fsck: i_size / i_blocks wrong)")
	})
	if n == 0 {
		r.Undecided("C05-g", fnName(wd), "directory inode size and blocks", w.relFile(wd.Pos()), "writeDirectory does not store the directory inode's size/blocks itself")
	}
}

// ---------------------------------------------------------------------------------------------------
// further structural clauses found through sub-agent changes (C04-h, C05-h, C05-i)

// c04ExtentFileBlock (C04-h): the logical block at which a newly allocated extent starts is the number of blocks
// the file already has: every store to extent.fileBlock in allocateExtents depends on previous.blockCount().
func c04ExtentFileBlock(w *World, r *Report) {
	ae := w.Method(pE4c, "FileSystem", "allocateExtents")
	n := 0
	allInstrs(ae, func(ins ssa.Instruction) {
		st, ok := ins.(*ssa.Store)
		if !ok {
			return
		}
		nm, f, _, ok := fieldOfAddr(st.Addr)
		if !ok || nm == nil || nm.Obj().Name() != "extent" || f.Name() != "fileBlock" {
			return
		}
		n++
		// signed additive dependence: the current block count enters with a positive sign only
		pos, neg := false, false
		seen := map[[2]any]bool{}
		var walk func(v ssa.Value, negative bool, d int)
		walk = func(v ssa.Value, negative bool, d int) {
			k := [2]any{v, negative}
			if v == nil || seen[k] || d > 40 {
				return
			}
			seen[k] = true
			switch x := v.(type) {
			case *ssa.Call:
				if g := x.Call.StaticCallee(); g != nil && g.Name() == "blockCount" {
					if negative {
						neg = true
					} else {
						pos = true
					}
				}
			case *ssa.Convert:
				walk(x.X, negative, d+1)
			case *ssa.ChangeType:
				walk(x.X, negative, d+1)
			case *ssa.Phi:
				for _, e := range x.Edges {
					walk(e, negative, d+1)
				}
			case *ssa.BinOp:
				switch x.Op {
				case token.ADD:
					walk(x.X, negative, d+1)
					walk(x.Y, negative, d+1)
				case token.SUB:
					walk(x.X, negative, d+1)
					walk(x.Y, !negative, d+1)
				}
			case *ssa.UnOp:
				if x.Op == token.MUL {
					for _, st2 := range cellStores(x.X) {
						walk(st2.Val, negative, d+1)
					}
				}
			}
		}
		walk(st.Val, false, 0)
		dep := pos && !neg
		r.Check(dep, "C04-h", fnName(ae), fmt.Sprintf("a new extent starts at the file's current block count #%d", n), w.relFile(instrPos(st)), "",
			"the fileBlock of a newly allocated extent does not depend on the number of blocks the file already has (previous.blockCount()): when an existing file is extended its new extents overlap the old ones in file-block space and the tail of the write is lost")
	})
	if n == 0 {
		r.Undecided("C04-h", fnName(ae), "fileBlock of new extents", w.relFile(ae.Pos()), "allocateExtents stores no extent.fileBlock itself")
	}
}

// c05SymlinkLimit (C05-h): a symlink target is kept inside the inode only when it is shorter than 60 bytes (the size
// of i_block); every comparison of a target length / inode size with a constant near 60 in Symlink, inode.toBytes and
// inodeFromBytes splits the lengths at exactly 60 (n < 60 on one side, n >= 60 on the other).
func c05SymlinkLimit(w *World, r *Report, rule string) {
	fns := []*ssa.Function{w.Method(pE4c, "FileSystem", "Symlink"), w.Method(pE4c, "inode", "toBytes"), w.Func(pE4c, "inodeFromBytes")}
	n := 0
	for _, fn := range fns {
		k := 0
		allInstrs(fn, func(ins ssa.Instruction) {
			bin, ok := ins.(*ssa.BinOp)
			if !ok {
				return
			}
			var c int64
			var isC, constOnRight bool
			if c, isC = constInt(bin.Y); isC {
				constOnRight = true
			} else if c, isC = constInt(bin.X); !isC {
				return
			}
			if c < 56 || c > 64 {
				return
			}
			other := bin.X
			if !constOnRight {
				other = bin.Y
			}
			pv := w.prov(other, provOpts{sliceLen: true})
			isLen := pv.hasField("inode", "size") || len(pv.BinOps) >= 0 && func() bool {
				// len(oldpath) or a decoded size
				if cl, ok := stripConv(other).(*ssa.Call); ok {
					if b, ok := cl.Call.Value.(*ssa.Builtin); ok && b.Name() == "len" {
						return true
					}
				}
				return pv.hasCallNamed("Uint64") || pv.hasCallNamed("Uint32")
			}()
			if !isLen {
				return
			}
			op := bin.Op
			if !constOnRight {
				op = map[token.Token]token.Token{token.LSS: token.GTR, token.GTR: token.LSS, token.LEQ: token.GEQ, token.GEQ: token.LEQ}[op]
			}
			boundary := int64(-1)
			switch op {
			case token.LSS, token.GEQ:
				boundary = c
			case token.LEQ, token.GTR:
				boundary = c + 1
			default:
				return
			}
			k++
			n++
			r.Check(boundary == 60, rule, fnName(fn), fmt.Sprintf("symlink target is kept in the inode exactly when shorter than 60 bytes #%d", k), w.relFile(bin.Pos()), "",
				fmt.Sprintf("a symlink length is split at %d instead of 60: a target of %d bytes is stored in the inode (or read from it) although ext4 keeps only targets shorter than 60 bytes there (e2fsck: 'Symlink ... is invalid')", boundary, min(boundary, 60)))
		})
	}
	if n == 0 {
		r.Undecided(rule, "filesystem/ext4", "symlink length limit", "filesystem/ext4", "no comparison of a symlink length with the in-inode limit found")
	}
}

// c05DirRecLen (C05-i): when Directory.toBytes pads the last entry of a block to the end of the block, the padded
// length leaves room for the checksum tail: the size handed to directoryEntry.toBytes depends on withChecksums.
func c05DirRecLen(w *World, r *Report) {
	tb := w.Method(pE4c, "Directory", "toBytes")
	det := w.Method(pE4c, "directoryEntry", "toBytes")
	var with *ssa.Parameter
	for _, p := range tb.Params {
		if p.Name() == "withChecksums" {
			with = p
		}
	}
	n := 0
	for _, c := range calls(tb, false, func(c ssa.CallInstruction) bool { return c.Common().StaticCallee() == det }) {
		args := c.Common().Args
		size := args[len(args)-1]
		if k, ok := constInt(size); ok && k == 0 {
			continue // natural length
		}
		n++
		dep := false
		for _, rt := range w.prov(size, provOpts{phiControl: true}).Roots {
			if rt.Kind == RParam && with != nil && rt.Param == with {
				dep = true
			}
		}
		r.Check(dep && with != nil, "C05-i", fnName(tb), fmt.Sprintf("padded entry leaves room for the checksum tail #%d", n), w.relFile(c.Pos()), "",
			"the length to which the last entry of a directory block is padded does not depend on whether a checksum tail follows: with metadata checksums the block overflows by the 12 bytes of the tail and its checksum no longer verifies")
	}
	if n == 0 {
		r.Undecided("C05-i", fnName(tb), "padded entries", w.relFile(tb.Pos()), "Directory.toBytes pads no entry through directoryEntry.toBytes")
	}
}

// c05InodeTableBlocks (C05-j): the size of the inode table in blocks is ceil(inodesPerGroup*inodeSize / blockSize) at
// every site that computes it.
func c05InodeTableBlocks(w *World, r *Report) {
	n := 0
	for _, fn := range w.ModFns {
		if w.pkgOf(fn) != pE4c {
			continue
		}
		k := 0
		allInstrs(fn, func(ins ssa.Instruction) {
			q, ok := ins.(*ssa.BinOp)
			if !ok || q.Op != token.QUO {
				return
			}
			if _, isC := constInt(q.Y); isC {
				return
			}
			px, py := w.prov(q.X, provOpts{}), w.prov(q.Y, provOpts{})
			if !px.hasField("superblock", "inodesPerGroup") || !py.hasField("superblock", "blockSize") {
				return
			}
			if py.hasField("superblock", "inodesPerGroup") {
				return
			}
			if !px.hasField("superblock", "inodeSize") && !py.hasField("superblock", "inodeSize") {
				return // some other per-group quantity (bitmap blocks), not the table of inodeSize-byte records
			}
			k++
			n++
			rd := quotRounding(q)
			r.Check(rd == "ceil", "C05-j", fnName(fn), fmt.Sprintf("inode table size in blocks rounds up #%d", k), w.relFile(q.Pos()), rd,
				"the number of inode-table blocks of a group is computed with a division that rounds down: when the inodes of a group do not fill the last block (4 KiB blocks, inodes per group not a multiple of 16) this site places the end of the table one block earlier than the sites that round up, so descriptors, bitmaps and free counts disagree (e2fsck fails right after Create)")
		})
	}
	if n == 0 {
		r.Undecided("C05-j", "filesystem/ext4", "inode table size", "filesystem/ext4", "no computation of the inode table size from inodes-per-group and block size found")
	}
}

package main

// CODEC: byte-layout extraction and encoder/decoder agreement (see codec_*.go).

type codecPair struct {
	name string
	enc  func(w *World) *ssaFnRef
	dec  func(w *World) *ssaFnRef
}

type ssaFnRef struct{}

var codecPairsC08, codecPairsC12 []codecPair

func runCodecFamily(w *World, r *Report, rule string, pairs []codecPair) {}

package main

// CODEC: byte-layout extraction by abstract interpretation of encoder / decoder bodies over go/ssa, and
// encoder/decoder agreement.
//
// Abstract byte: In(p) (input byte p of the decoder's buffer), Enc(F, s) (the byte of significance s of
// field F's value; s = -1 when only "some function of F" is known), Const, or unknown. Buffers are arrays
// of byte sets; scalars are lists of (significance, byte). Understood idioms: make/new arrays, constant
// slicing, binary.*.PutUintNN / UintNN, b[i] loads and stores, copy with constant windows, string/[]byte
// conversions, shifts by multiples of 8, or/add of parts, conversions, nested encoders/decoders (unordered),
// composite-literal and field stores. Blocks are visited in dominator pre-order; phis join cellwise.

import (
	"fmt"
	"go/token"
	"go/types"
	"sort"
	"strings"

	"golang.org/x/tools/go/ssa"
)

type cval struct {
	in   int        // >= 0: decoder input position
	f    *types.Var // encoder field
	sig  int        // significance; -1 unknown
	cst  bool
	mask int64 // bit mask within the byte (flag bits); 0 = whole byte
}

func (v cval) String() string {
	switch {
	case v.in >= 0:
		return fmt.Sprintf("in[%d]", v.in)
	case v.f != nil:
		return fmt.Sprintf("%s.%d", v.f.Name(), v.sig)
	case v.cst:
		return "const"
	}
	return "?"
}

type cbuf struct {
	cells map[int][]cval
	input bool
	size  int          // -1 unknown
	open  []openRegion // writes of non-constant length: from base onward the bytes may hold the field
	fill  []cval       // content of cells not written explicitly (result of a nested encoder: function of its arguments)
}

type openRegion struct {
	base int
	f    *types.Var
}

func (b *cbuf) get(p int) []cval {
	if b.input {
		return []cval{{in: p, sig: -1}}
	}
	if vs, ok := b.cells[p]; ok {
		return vs
	}
	return b.fill
}

func (b *cbuf) set(p int, vs []cval) { b.cells[p] = vs }

func (b *cbuf) add(p int, vs []cval) {
	for _, v := range vs {
		dup := false
		for _, o := range b.cells[p] {
			if o == v {
				dup = true
			}
		}
		if !dup {
			b.cells[p] = append(b.cells[p], v)
		}
	}
}

type cwin struct {
	b    *cbuf
	base int
	n    int // -1 unknown
}

type cpart struct {
	sig int
	v   cval
}

type cscalar struct{ parts []cpart }

// seqVal: a byte sequence that is "field F as bytes" (string / []byte conversions).
type cseq struct {
	f *types.Var
}

type codecFact struct {
	pos  int
	f    *types.Var
	sig  int
	at   token.Pos
	mask int64
}

type codecRes struct {
	fn       *ssa.Function
	out      []*cbuf     // encoder: returned buffers
	facts    []codecFact // decoder: input byte -> field
	unknownW int         // windows with non-constant bounds met
}

type codecEval struct {
	symBase ssa.Value
	depth   int
	w       *World
	fn      *ssa.Function
	env     map[ssa.Value]any
	res     *codecRes
	inputs  map[*cbuf]bool
}

func typeBytes(t types.Type) int {
	if b := typeBits(t); b > 0 {
		return b / 8
	}
	if bt, ok := t.Underlying().(*types.Basic); ok && bt.Kind() == types.Bool {
		return 1
	}
	return 0
}

func evalCodec(w *World, fn *ssa.Function) *codecRes {
	e := &codecEval{w: w, fn: fn, env: map[ssa.Value]any{}, res: &codecRes{fn: fn}, inputs: map[*cbuf]bool{}}
	// byte-slice parameters are decoder inputs
	for _, p := range fn.Params {
		if isByteSlice(p.Type()) {
			b := &cbuf{cells: map[int][]cval{}, input: true, size: -1}
			e.env[p] = cwin{b, 0, -1}
			e.inputs[b] = true
		}
	}
	for _, fv := range fn.FreeVars {
		_ = fv
	}
	var order []*ssa.BasicBlock
	var walk func(b *ssa.BasicBlock)
	walk = func(b *ssa.BasicBlock) {
		order = append(order, b)
		for _, c := range b.Dominees() {
			walk(c)
		}
	}
	if len(fn.Blocks) > 0 {
		walk(fn.Blocks[0])
	}
	for _, b := range order {
		for _, ins := range b.Instrs {
			e.step(ins)
		}
	}
	return e.res
}

// offsetOf resolves an index/bound to a constant offset, allowing one symbolic base per function
// (records parsed in a loop: b[i+11], b[i:i+32]); the base value stands for offset 0.
// cconst: a parameter of an inlined reader/writer closure whose actual is a constant (an offset).
type cconst int

// constOf evaluates v to a constant, looking through conversions, +/- and constant-bound parameters.
func (e *codecEval) constOf(v ssa.Value, depth int) (int, bool) {
	if depth > 6 {
		return 0, false
	}
	if c, ok := constInt(v); ok {
		return int(c), true
	}
	if x, ok := e.env[v]; ok {
		if k, ok := x.(cconst); ok {
			return int(k), true
		}
	}
	switch x := v.(type) {
	case *ssa.Convert:
		return e.constOf(x.X, depth+1)
	case *ssa.ChangeType:
		return e.constOf(x.X, depth+1)
	case *ssa.BinOp:
		a, ok1 := e.constOf(x.X, depth+1)
		b, ok2 := e.constOf(x.Y, depth+1)
		if ok1 && ok2 {
			switch x.Op {
			case token.ADD:
				return a + b, true
			case token.SUB:
				return a - b, true
			}
		}
	}
	return 0, false
}

func (e *codecEval) offsetOf(v ssa.Value) (int, bool) {
	if c, ok := constInt(v); ok {
		return int(c), true
	}
	if len(e.env) > 0 {
		if k, ok := e.constOf(v, 0); ok {
			return k, true
		}
	}
	base, off := v, 0
	if bo, ok := stripConv(v).(*ssa.BinOp); ok && bo.Op == token.ADD {
		if c, ok := constInt(bo.Y); ok {
			base, off = bo.X, int(c)
		} else if c, ok := constInt(bo.X); ok {
			base, off = bo.Y, int(c)
		}
	}
	base = stripConv(base)
	if _, isPhi := base.(*ssa.Phi); !isPhi {
		return 0, false
	}
	if e.symBase == nil {
		e.symBase = base
	}
	if e.symBase != base {
		return 0, false
	}
	return off, true
}

func (e *codecEval) win(v ssa.Value) (cwin, bool) {
	x, ok := e.env[v]
	if !ok {
		return cwin{}, false
	}
	wn, ok := x.(cwin)
	return wn, ok
}

// scalarOf evaluates an integer/bool/byte value.
func (e *codecEval) scalarOf(v ssa.Value, depth int) cscalar {
	if depth > 12 {
		return cscalar{}
	}
	if x, ok := e.env[v]; ok {
		if s, ok := x.(cscalar); ok {
			return s
		}
	}
	switch x := v.(type) {
	case *ssa.Const:
		n := typeBytes(x.Type())
		var s cscalar
		for i := 0; i < n; i++ {
			s.parts = append(s.parts, cpart{i, cval{in: -1, cst: true, sig: i}})
		}
		return s
	case *ssa.Convert:
		s := e.scalarOf(x.X, depth+1)
		n := typeBytes(x.Type())
		if n == 0 {
			return s
		}
		var out cscalar
		for _, p := range s.parts {
			if p.sig < n {
				out.parts = append(out.parts, p)
			}
		}
		return out
	case *ssa.ChangeType:
		return e.scalarOf(x.X, depth+1)
	case *ssa.BinOp:
		switch x.Op {
		case token.OR, token.ADD, token.XOR:
			a, b := e.scalarOf(x.X, depth+1), e.scalarOf(x.Y, depth+1)
			return cscalar{append(append([]cpart{}, a.parts...), b.parts...)}
		case token.SHL, token.SHR:
			a := e.scalarOf(x.X, depth+1)
			k, ok := constInt(x.Y)
			var out cscalar
			for _, p := range a.parts {
				q := p
				if ok && k%8 == 0 && p.sig >= 0 {
					if x.Op == token.SHL {
						q.sig += int(k / 8)
					} else {
						q.sig -= int(k / 8)
					}
					if q.sig < 0 {
						continue
					}
				} else {
					q.sig = -1
					q.v.sig = -1
				}
				out.parts = append(out.parts, q)
			}
			return out
		case token.AND, token.AND_NOT:
			a := e.scalarOf(x.X, depth+1)
			if _, isC := x.Y.(*ssa.Const); !isC {
				b := e.scalarOf(x.Y, depth+1)
				return cscalar{append(append([]cpart{}, a.parts...), b.parts...)}
			}
			// masking keeps (a subset of) the bytes; a sub-byte mask on a single byte is remembered (flag bits)
			if m, ok := constInt(x.Y); ok && m > 0 && m < 0xff && len(a.parts) > 0 {
				var out cscalar
				for _, p := range a.parts {
					if p.sig == 0 && p.v.mask == 0 {
						p.v.mask = m
					}
					out.parts = append(out.parts, p)
				}
				return out
			}
			return a
		case token.MUL, token.QUO, token.REM, token.SUB:
			a, b := e.scalarOf(x.X, depth+1), e.scalarOf(x.Y, depth+1)
			var out cscalar
			for _, p := range append(append([]cpart{}, a.parts...), b.parts...) {
				if p.v.cst {
					continue
				}
				p.sig = -1
				p.v.sig = -1
				out.parts = append(out.parts, p)
			}
			return out
		case token.EQL, token.NEQ, token.LSS, token.GTR, token.LEQ, token.GEQ:
			a, b := e.scalarOf(x.X, depth+1), e.scalarOf(x.Y, depth+1)
			var out cscalar
			for _, p := range append(append([]cpart{}, a.parts...), b.parts...) {
				if p.v.cst {
					continue
				}
				p.sig = -1
				out.parts = append(out.parts, p)
			}
			return out
		}
	case *ssa.UnOp:
		if x.Op == token.MUL {
			// field load (encoder) or byte load (decoder)
			switch a := x.X.(type) {
			case *ssa.FieldAddr:
				if _, f, _, ok := fieldOfAddr(a); ok {
					return fieldScalar(f, x.Type())
				}
			case *ssa.IndexAddr:
				if wn, ok := e.win(a.X); ok {
					if i, ok := e.offsetOf(a.Index); ok {
						var s cscalar
						for _, cv := range wn.b.get(wn.base + i) {
							s.parts = append(s.parts, cpart{0, cv})
						}
						return s
					}
				}
			case *ssa.Alloc:
				var out cscalar
				for _, ref := range *a.Referrers() {
					if st, ok := ref.(*ssa.Store); ok && st.Addr == ssa.Value(a) {
						out.parts = append(out.parts, e.scalarOf(st.Val, depth+1).parts...)
					}
				}
				return out
			}
		}
		if x.Op == token.NOT || x.Op == token.SUB || x.Op == token.XOR {
			return e.scalarOf(x.X, depth+1)
		}
	case *ssa.Field:
		if _, f, _, ok := fieldOfAddr(x); ok {
			return fieldScalar(f, x.Type())
		}
	case *ssa.Phi:
		var out cscalar
		for _, ed := range x.Edges {
			if ed == ssa.Value(x) {
				continue
			}
			out.parts = append(out.parts, e.scalarOf(ed, depth+2).parts...)
		}
		return out
	case *ssa.Index:
		if wn, ok := e.win(x.X); ok {
			if i, ok := e.offsetOf(x.Index); ok {
				var s cscalar
				for _, cv := range wn.b.get(wn.base + i) {
					s.parts = append(s.parts, cpart{0, cv})
				}
				return s
			}
		}
	case *ssa.Extract:
		return e.callScalar(x.Tuple, depth)
	case *ssa.Call:
		return e.callScalar(x, depth)
	case *ssa.Parameter:
		// scalar parameter of a helper: unknown
	case *ssa.Lookup, *ssa.TypeAssert, *ssa.MakeInterface:
	}
	return cscalar{}
}

func fieldScalar(f *types.Var, t types.Type) cscalar {
	n := typeBytes(t)
	var s cscalar
	if n == 0 {
		s.parts = append(s.parts, cpart{-1, cval{in: -1, f: f, sig: -1}})
		return s
	}
	for i := 0; i < n; i++ {
		s.parts = append(s.parts, cpart{i, cval{in: -1, f: f, sig: i}})
	}
	return s
}

// callScalar: the result of a call depends (in an unknown way) on its arguments.
func (e *codecEval) callScalar(v ssa.Value, depth int) cscalar {
	c, ok := v.(*ssa.Call)
	if !ok {
		return cscalar{}
	}
	if isBinaryDecode(c) {
		n := 0
		name := c.Call.StaticCallee().Name()
		switch {
		case strings.HasSuffix(name, "16"):
			n = 2
		case strings.HasSuffix(name, "32"):
			n = 4
		case strings.HasSuffix(name, "64"):
			n = 8
		}
		big := strings.Contains(fullFuncName(c.Call.StaticCallee()), "bigEndian")
		args := c.Call.Args
		wn, ok := e.win(args[len(args)-1])
		var s cscalar
		if !ok {
			e.res.unknownW++
			return s
		}
		for j := 0; j < n; j++ {
			sig := j
			if big {
				sig = n - 1 - j
			}
			for _, cv := range wn.b.get(wn.base + j) {
				s.parts = append(s.parts, cpart{sig, cv})
			}
		}
		return s
	}
	// a small reader: a local closure (or in-module function) taking constant offsets and returning the scalar it
	// decodes from a window it captured or was handed: evaluate its body with the actuals
	if s, ok := e.inlineReader(c, depth); ok {
		return s
	}
	var out cscalar
	cc := c.Common()
	args := append([]ssa.Value{}, cc.Args...)
	if cc.IsInvoke() {
		args = append(args, cc.Value)
	}
	for _, a := range args {
		for _, p := range e.anyParts(a, depth+1) {
			if p.v.cst {
				continue
			}
			p.sig = -1
			p.v.sig = -1
			out.parts = append(out.parts, p)
		}
	}
	return out
}

// anyParts returns the abstract bytes a value (scalar, window, sequence, struct pointer field chain) carries.
func (e *codecEval) anyParts(v ssa.Value, depth int) []cpart {
	if depth > 12 {
		return nil
	}
	if wn, ok := e.win(v); ok {
		var out []cpart
		n := wn.n
		if n < 0 {
			n = 0
			if wn.b.size >= 0 {
				n = wn.b.size - wn.base
			}
		}
		for k := 0; k < n && k < 4096; k++ {
			for _, cv := range wn.b.get(wn.base + k) {
				out = append(out, cpart{k, cv})
			}
		}
		return out
	}
	if x, ok := e.env[v]; ok {
		if sq, ok := x.(cseq); ok {
			return []cpart{{-1, cval{in: -1, f: sq.f, sig: -1}}}
		}
	}
	switch x := v.(type) {
	case *ssa.Convert:
		// string(bytes) / []byte(string)
		if wn, ok := e.win(x.X); ok {
			_ = wn
			return e.anyParts(x.X, depth+1)
		}
		if sq := e.seqOf(x.X); sq != nil {
			return []cpart{{-1, cval{in: -1, f: sq.f, sig: -1}}}
		}
	case *ssa.UnOp:
		if x.Op == token.MUL {
			if fa, ok := x.X.(*ssa.FieldAddr); ok {
				if _, f, _, ok := fieldOfAddr(fa); ok {
					return []cpart{{-1, cval{in: -1, f: f, sig: -1}}}
				}
			}
		}
	case *ssa.Field:
		if _, f, _, ok := fieldOfAddr(x); ok {
			return []cpart{{-1, cval{in: -1, f: f, sig: -1}}}
		}
	case *ssa.Slice:
		if al, ok := x.X.(*ssa.Alloc); ok {
			// varargs array: the values stored into its elements
			var out []cpart
			for _, ref := range *al.Referrers() {
				if ia, ok := ref.(*ssa.IndexAddr); ok {
					for _, r2 := range *ia.Referrers() {
						if st, ok := r2.(*ssa.Store); ok && st.Addr == ssa.Value(ia) {
							out = append(out, e.anyParts(st.Val, depth+1)...)
						}
					}
				}
			}
			if len(out) > 0 {
				return out
			}
		}
		return e.anyParts(x.X, depth+1)
	case *ssa.MakeInterface:
		return e.anyParts(x.X, depth+1)
	case *ssa.FieldAddr:
		if _, f, _, ok := fieldOfAddr(x); ok {
			return []cpart{{-1, cval{in: -1, f: f, sig: -1}}}
		}
	}
	return e.scalarOf(v, depth+1).parts
}

// seqOf: v is a string/[]byte loaded from a struct field.
func (e *codecEval) seqOf(v ssa.Value) *cseq { return e.seqOfD(v, 0) }

func (e *codecEval) seqOfD(v ssa.Value, depth int) *cseq {
	if depth > 8 {
		return nil
	}
	if x, ok := e.env[v]; ok {
		if sq, ok := x.(cseq); ok {
			return &sq
		}
	}
	switch x := v.(type) {
	case *ssa.UnOp:
		if x.Op == token.MUL {
			if fa, ok := x.X.(*ssa.FieldAddr); ok {
				if _, f, _, ok := fieldOfAddr(fa); ok {
					if isStringOrBytes(x.Type()) {
						return &cseq{f}
					}
				}
			}
		}
	case *ssa.Field:
		if _, f, _, ok := fieldOfAddr(x); ok && isStringOrBytes(x.Type()) {
			return &cseq{f}
		}
	case *ssa.Convert:
		return e.seqOfD(x.X, depth+1)
	case *ssa.Slice:
		return e.seqOfD(x.X, depth+1)
	case *ssa.Call:
		// helper applied to a field sequence (padding, upper-casing, ...): still that field
		for _, a := range x.Call.Args {
			if sq := e.seqOfD(a, depth+1); sq != nil {
				return sq
			}
		}
	case *ssa.Phi:
		for _, ed := range x.Edges {
			if sq := e.seqOfD(ed, depth+1); sq != nil {
				return sq
			}
		}
	}
	return nil
}

func isStringOrBytes(t types.Type) bool {
	if isByteSlice(t) {
		return true
	}
	if b, ok := t.Underlying().(*types.Basic); ok && b.Info()&types.IsString != 0 {
		return true
	}
	if a, ok := t.Underlying().(*types.Array); ok {
		b, ok := a.Elem().Underlying().(*types.Basic)
		return ok && b.Kind() == types.Uint8
	}
	return false
}

func (e *codecEval) step(ins ssa.Instruction) {
	switch x := ins.(type) {
	case *ssa.MakeSlice:
		n := -1
		if c, ok := constInt(x.Len); ok {
			n = int(c)
		}
		if isByteSlice(x.Type()) {
			b := &cbuf{cells: map[int][]cval{}, size: n}
			if c, ok := constInt(x.Cap); ok && n == 0 {
				b.size = int(c)
			}
			e.env[x] = cwin{b, 0, n}
		}
	case *ssa.Alloc:
		if arr, ok := deref(x.Type()).Underlying().(*types.Array); ok {
			if bt, ok := arr.Elem().Underlying().(*types.Basic); ok && bt.Kind() == types.Uint8 {
				b := &cbuf{cells: map[int][]cval{}, size: int(arr.Len())}
				e.env[x] = cwin{b, 0, int(arr.Len())}
			}
		}
	case *ssa.Slice:
		wn, ok := e.win(x.X)
		if !ok {
			if sq := e.seqOf(x.X); sq != nil {
				e.env[x] = *sq
			}
			return
		}
		lo := 0
		if x.Low != nil {
			c, ok := e.offsetOf(x.Low)
			if !ok {
				e.res.unknownW++
				return
			}
			lo = c
		}
		n := -1
		if x.High != nil {
			c, ok := e.offsetOf(x.High)
			if !ok {
				e.res.unknownW++
				// keep the base: length unknown
				e.env[x] = cwin{wn.b, wn.base + lo, -1}
				return
			}
			n = c - lo
		} else if wn.n >= 0 {
			n = wn.n - lo
		} else if wn.b.size >= 0 {
			n = wn.b.size - wn.base - lo
		}
		e.env[x] = cwin{wn.b, wn.base + lo, n}
	case *ssa.UnOp:
		// a load of a local cell that holds a window (a []byte parameter captured by a closure is spilled into one)
		if x.Op == token.MUL {
			if al, ok := x.X.(*ssa.Alloc); ok {
				for _, st := range cellStores(al) {
					if wn, ok := e.win(st.Val); ok {
						e.env[x] = wn
						break
					}
				}
			}
		}
	case *ssa.Phi:
		// windows: keep the first known; scalars handled lazily
		for _, ed := range x.Edges {
			if wn, ok := e.win(ed); ok {
				e.env[x] = wn
				break
			}
		}
	case *ssa.ChangeType, *ssa.Convert:
		var src ssa.Value
		if c, ok := x.(*ssa.Convert); ok {
			src = c.X
		} else {
			src = x.(*ssa.ChangeType).X
		}
		if wn, ok := e.win(src); ok {
			e.env[x.(ssa.Value)] = wn
		} else if sq := e.seqOf(src); sq != nil && isStringOrBytes(x.(ssa.Value).Type()) {
			e.env[x.(ssa.Value)] = *sq
		}
	case *ssa.Store:
		e.store(x)
	case *ssa.Call:
		e.call(x)
	case *ssa.Return:
		for _, rv := range x.Results {
			// a list of records ([][]byte) whose first element is the encoded structure (continuation areas follow)
			if first := firstOfRecordList(rv, 0); first != nil {
				rv = first
			}
			if wn, ok := e.win(rv); ok && !wn.b.input {
				dup := false
				for _, o := range e.res.out {
					if o == wn.b {
						dup = true
					}
				}
				if !dup {
					e.res.out = append(e.res.out, wn.b)
				}
			}
		}
	}
}

func (e *codecEval) store(st *ssa.Store) {
	switch a := st.Addr.(type) {
	case *ssa.IndexAddr:
		wn, ok := e.win(a.X)
		if !ok || wn.b.input {
			return
		}
		i0, ok := e.offsetOf(a.Index)
		if !ok {
			e.res.unknownW++
			return
		}
		i := int64(i0)
		var vs []cval
		for _, p := range e.scalarOf(st.Val, 0).parts {
			if p.sig == 0 || p.sig == -1 {
				vs = append(vs, p.v)
			}
		}
		// a flag bit set under `if x.F`: b[k] |= mask
		if bo, ok := st.Val.(*ssa.BinOp); ok && bo.Op == token.OR {
			if m, isC := constInt(bo.Y); isC {
				blk := st.Block()
				if len(blk.Preds) == 1 {
					if iff, isIf := lastInstr(blk.Preds[0]).(*ssa.If); isIf && blk.Preds[0].Succs[0] == blk {
						for _, p := range e.anyParts(iff.Cond, 0) {
							if p.v.f != nil {
								vs = append(vs, cval{in: -1, f: p.v.f, sig: -1, mask: m})
							}
						}
					}
				}
			}
		}
		wn.b.add(wn.base+int(i), vs)
	case *ssa.FieldAddr:
		_, f, _, ok := fieldOfAddr(a)
		if !ok {
			return
		}
		// decoder: a value built from input bytes is stored into field f
		for _, p := range e.anyParts(st.Val, 0) {
			if p.v.in >= 0 {
				sig := p.sig
				if _, isWin := e.win(st.Val); isWin {
					sig = p.sig
				}
				e.res.facts = append(e.res.facts, codecFact{p.v.in, f, sig, st.Pos(), p.v.mask})
			}
		}
	}
}

func (e *codecEval) call(c *ssa.Call) {
	if bi, ok := c.Call.Value.(*ssa.Builtin); ok {
		switch bi.Name() {
		case "copy":
			dst, ok := e.win(c.Call.Args[0])
			if !ok {
				// decoder: copy(x.F[:], input window)
				if sl, isSl := c.Call.Args[0].(*ssa.Slice); isSl {
					if fa, isFA := sl.X.(*ssa.FieldAddr); isFA {
						if _, f, _, okf := fieldOfAddr(fa); okf {
							if sw, okw := e.win(c.Call.Args[1]); okw && sw.n >= 0 {
								for k := 0; k < sw.n; k++ {
									for _, cv := range sw.b.get(sw.base + k) {
										if cv.in >= 0 {
											e.res.facts = append(e.res.facts, codecFact{cv.in, f, k, c.Pos(), 0})
										}
									}
								}
							}
						}
					}
				}
				return
			}
			if dst.b.input {
				return
			}
			src := c.Call.Args[1]
			if sw, ok := e.win(src); ok {
				n := dst.n
				if sw.n >= 0 && (n < 0 || sw.n < n) {
					n = sw.n
				}
				if n < 0 {
					e.res.unknownW++
					return
				}
				for k := 0; k < n; k++ {
					dst.b.add(dst.base+k, sw.b.get(sw.base+k))
				}
				return
			}
			if sq := e.seqOf(src); sq != nil {
				n := dst.n
				if n < 0 {
					dst.b.open = append(dst.b.open, openRegion{dst.base, sq.f})
					return
				}
				for k := 0; k < n; k++ {
					dst.b.add(dst.base+k, []cval{{in: -1, f: sq.f, sig: k}})
				}
				return
			}
			// result of a nested encoder / helper: unordered function of its arguments
			parts := e.anyParts(src, 0)
			n := dst.n
			if n < 0 {
				for _, p := range parts {
					if p.v.f != nil {
						dst.b.open = append(dst.b.open, openRegion{dst.base, p.v.f})
					}
				}
				e.res.unknownW++
				return
			}
			var vs []cval
			for _, p := range parts {
				if p.v.cst {
					continue
				}
				v := p.v
				v.sig = -1
				vs = append(vs, v)
			}
			if len(vs) == 0 {
				vs = []cval{{in: -1, cst: true, sig: -1}}
			}
			for k := 0; k < n; k++ {
				dst.b.add(dst.base+k, vs)
			}
		case "append":
			// append(dst, src...) where dst is a window with known length: bytes land after it
			if dst, ok := e.win(c.Call.Args[0]); ok && len(c.Call.Args) > 1 {
				src := c.Call.Args[1]
				sw, okS := e.win(src)
				if okS && sw.n >= 0 && dst.n >= 0 {
					// the result is a new sequence: dst's bytes followed by src's
					nb := &cbuf{cells: map[int][]cval{}, size: -1, open: dst.b.open, fill: dst.b.fill}
					for k := 0; k < dst.n; k++ {
						nb.cells[k] = dst.b.get(dst.base + k)
					}
					for k := 0; k < sw.n; k++ {
						nb.cells[dst.n+k] = sw.b.get(sw.base + k)
					}
					e.env[c] = cwin{nb, 0, dst.n + sw.n}
					return
				}
				if !dst.b.input {
					e.env[c] = cwin{dst.b, dst.base, -1}
				}
			}
		}
		return
	}
	f := c.Call.StaticCallee()
	if f == nil {
		return
	}
	full := fullFuncName(f)
	if strings.HasPrefix(full, "(encoding/binary.") && strings.Contains(full, ").PutUint") {
		n := 0
		switch {
		case strings.HasSuffix(f.Name(), "16"):
			n = 2
		case strings.HasSuffix(f.Name(), "32"):
			n = 4
		case strings.HasSuffix(f.Name(), "64"):
			n = 8
		}
		big := strings.Contains(full, "bigEndian")
		args := c.Call.Args
		wn, ok := e.win(args[len(args)-2])
		if !ok || wn.b.input {
			if !ok {
				e.res.unknownW++
			}
			return
		}
		s := e.scalarOf(args[len(args)-1], 0)
		for j := 0; j < n; j++ {
			sig := j
			if big {
				sig = n - 1 - j
			}
			var vs []cval
			for _, p := range s.parts {
				if p.sig == sig || p.sig == -1 {
					v := p.v
					if p.sig == -1 {
						v.sig = -1
					}
					vs = append(vs, v)
				}
			}
			if len(vs) == 0 {
				vs = []cval{{in: -1, sig: -1}} // written, content unknown
			}
			wn.b.add(wn.base+j, vs)
		}
		return
	}
	// a helper / closure that writes into a window it is handed: evaluate its body with the caller's values
	if e.w.fnSet[f] && f.Blocks != nil && e.depth < 2 {
		hasWin := false
		for _, a := range c.Call.Args {
			if wn, ok := e.win(a); ok && !wn.b.input {
				hasWin = true
			}
		}
		if hasWin {
			sub := &codecEval{w: e.w, fn: f, env: map[ssa.Value]any{}, res: e.res, inputs: e.inputs, depth: e.depth + 1}
			for i, a := range c.Call.Args {
				if i >= len(f.Params) {
					break
				}
				if wn, ok := e.win(a); ok {
					sub.env[f.Params[i]] = wn
				} else if sq := e.seqOf(a); sq != nil {
					sub.env[f.Params[i]] = *sq
				} else {
					ps := e.anyParts(a, 0)
					sub.env[f.Params[i]] = cscalar{ps}
				}
			}
			if mc, ok := c.Call.Value.(*ssa.MakeClosure); ok {
				for i, fv := range f.FreeVars {
					if i < len(mc.Bindings) {
						if wn, ok := e.win(mc.Bindings[i]); ok {
							sub.env[fv] = wn
						}
					}
				}
			}
			var order []*ssa.BasicBlock
			var walk func(b *ssa.BasicBlock)
			walk = func(b *ssa.BasicBlock) {
				order = append(order, b)
				for _, ch := range b.Dominees() {
					walk(ch)
				}
			}
			walk(f.Blocks[0])
			for _, b := range order {
				for _, ins := range b.Instrs {
					if _, isRet := ins.(*ssa.Return); isRet {
						continue
					}
					sub.step(ins)
				}
			}
			return
		}
	}
	// a call returning a byte slice: treat as a fresh buffer whose bytes are an unordered function of the
	// arguments (nested encoder), unless it is a decoder input pass-through
	if c.Type() != nil && isByteSlice(c.Type()) {
		b := &cbuf{cells: map[int][]cval{}, size: -1}
		for _, p := range e.anyParts2(c) {
			if p.v.cst {
				continue
			}
			v := p.v
			v.sig = -1
			b.fill = append(b.fill, v)
		}
		e.env[c] = cwin{b, 0, -1}
	}
}

// nestedBuf marks the result of a nested encoder call (length unknown).
type nestedBuf struct {
	b     *cbuf
	parts []cpart
}

func (e *codecEval) anyParts2(c *ssa.Call) []cpart {
	var out []cpart
	cc := c.Common()
	args := append([]ssa.Value{}, cc.Args...)
	if cc.IsInvoke() {
		args = append(args, cc.Value)
	}
	for _, a := range args {
		for _, p := range e.anyParts(a, 1) {
			p.sig = -1
			out = append(out, p)
		}
		// receiver given as &x.F / x.F
		if fa, ok := a.(*ssa.FieldAddr); ok {
			if _, f, _, ok := fieldOfAddr(fa); ok {
				out = append(out, cpart{-1, cval{in: -1, f: f, sig: -1}})
			}
		}
	}
	return out
}

// ---- agreement -------------------------------------------------------------------------------------

type codecPair struct {
	name     string
	encPkg   string
	encRecv  string // "" for package-level function
	encName  string
	decPkg   string
	decRecv  string
	decName  string
	minMatch int // floor: matched decoder bytes
	base     int // decoder input offset relative to encoder output (decoder gets b[base:])
}

func (w *World) codecFn(pkg, recv, name string) *ssa.Function {
	if recv == "" {
		return w.FuncOpt(pkg, name)
	}
	return w.MethodOpt(pkg, recv, name)
}

type pairStats struct {
	Pair       string   `json:"pair"`
	DecBytes   int      `json:"decoder_bytes"`
	Matched    int      `json:"matched"`
	Unresolved int      `json:"unresolved"`
	UnknownW   int      `json:"non_constant_windows"`
	Fields     []string `json:"fields_matched"`
}

func runCodecFamily(w *World, r *Report, rule string, pairs []codecPair) {
	var stats []pairStats
	for _, cp := range pairs {
		enc := w.codecFn(cp.encPkg, cp.encRecv, cp.encName)
		dec := w.codecFn(cp.decPkg, cp.decRecv, cp.decName)
		if enc == nil || dec == nil {
			fatalf("%s: codec pair %s: encoder or decoder not found (%s.%s.%s / %s.%s.%s)", rule, cp.name, cp.encPkg, cp.encRecv, cp.encName, cp.decPkg, cp.decRecv, cp.decName)
		}
		er, dr := evalCodec(w, enc), evalCodec(w, dec)
		st := pairStats{Pair: cp.name, UnknownW: er.unknownW + dr.unknownW}
		// merged encoder cells
		cells := map[int][]cval{}
		var opens []openRegion
		for _, b := range er.out {
			for p, vs := range b.cells {
				cells[p] = append(cells[p], vs...)
			}
			opens = append(opens, b.open...)
		}
		// encoder view per field: positions where it is written with a known significance
		encPos := map[*types.Var]map[int]int{}
		for p, vs := range cells {
			for _, v := range vs {
				if v.f != nil {
					if encPos[v.f] == nil {
						encPos[v.f] = map[int]int{}
					}
					encPos[v.f][p] = v.sig
				}
			}
		}
		// the struct the encoder serialises: only its own fields are compared (nested objects have their own pairs)
		own := map[string]bool{}
		if enc.Signature.Recv() != nil {
			if st, ok := deref(enc.Signature.Recv().Type()).Underlying().(*types.Struct); ok {
				for k := 0; k < st.NumFields(); k++ {
					own[st.Field(k).Name()] = true
				}
			}
		}
		byPos := map[int][]codecFact{}
		decFields := map[*types.Var]map[int]bool{}
		for _, ft := range dr.facts {
			if len(own) > 0 && !own[ft.f.Name()] {
				continue
			}
			p := ft.pos + cp.base
			byPos[p] = append(byPos[p], ft)
			if decFields[ft.f] == nil {
				decFields[ft.f] = map[int]bool{}
			}
			decFields[ft.f][p] = true
		}
		fieldsOK := map[string]bool{}
		var positions []int
		for p := range byPos {
			positions = append(positions, p)
		}
		sort.Ints(positions)
		for _, p := range positions {
			st.DecBytes++
			vs := cells[p]
			known := false
			var encFields []string
			for _, v := range vs {
				if v.f != nil {
					known = true
					encFields = append(encFields, v.String())
				}
			}
			agreed := false
			var worst *codecFact
			worstSig := -2
			maskBad := ""
			maskOK := map[string]bool{}
			for k := range byPos[p] {
				ft := byPos[p][k]
				for _, v := range vs {
					if v.f == nil || !sameField(v.f, ft.f) {
						continue
					}
					if v.mask != 0 && ft.mask != 0 && v.mask != ft.mask {
						maskBad = fmt.Sprintf("flag %s: the encoder sets bit mask %#x of byte %d, the decoder tests %#x", ft.f.Name(), v.mask, p, ft.mask)
						continue
					}
					if v.sig == ft.sig || v.sig == -1 || ft.sig == -1 {
						agreed = true
						fieldsOK[ft.f.Name()] = true
						if v.mask != 0 && v.mask == ft.mask {
							maskOK[ft.f.Name()] = true
						}
					} else if worst == nil {
						worst, worstSig = &byPos[p][k], v.sig
					}
				}
				for _, op := range opens {
					if p >= op.base && sameField(op.f, ft.f) {
						agreed = true
						fieldsOK[ft.f.Name()] = true
					}
				}
			}
			if maskBad != "" {
				// a flag whose mask matches nowhere at this byte
				nm := strings.Fields(strings.TrimPrefix(maskBad, "flag "))[0]
				nm = strings.TrimSuffix(nm, ":")
				if !maskOK[nm] {
					r.Fail(rule, fnName(dec), fmt.Sprintf("%s: byte %d flag %s", cp.name, p, nm), w.relFile(dec.Pos()), "bit layout disagreement: "+maskBad)
				}
			}
			exact := false
			for _, ft := range byPos[p] {
				if ft.sig >= 0 || ft.mask != 0 {
					exact = true
				}
			}
			switch {
			case agreed:
				st.Matched++
			case !known:
				st.Unresolved++
			case !exact:
				// significance unknown on the decoder side: report only a crossed layout, i.e. every value the encoder
				// puts at p is a field G that the decoder reads from other offsets only, while the field F the decoder takes
				// from p is written by the encoder at other offsets only. Both sides know both fields and disagree on where.
				crossed := len(vs) > 0
				for _, v := range vs {
					if v.f == nil {
						crossed = false
						break
					}
					readElsewhere := false
					for g, m := range decFields {
						if sameField(v.f, g) && len(m) > 0 && !m[p] {
							readElsewhere = true
						}
					}
					if !readElsewhere {
						crossed = false
					}
				}
				for _, ft := range byPos[p] {
					writtenElsewhere := false
					for g, m := range encPos {
						if _, here := m[p]; sameField(ft.f, g) && len(m) > 0 && !here {
							writtenElsewhere = true
						}
					}
					if !writtenElsewhere {
						crossed = false
					}
				}
				if crossed {
					ft := byPos[p][0]
					r.Fail(rule, fnName(dec), fmt.Sprintf("%s: byte %d -> %s", cp.name, p, ft.f.Name()), w.relFile(ft.at),
						fmt.Sprintf("crossed layout: the decoder derives %s from byte %d, where the encoder (%s) writes %s; each side handles the other's field at different offsets", ft.f.Name(), p, fnName(enc), strings.Join(uniq(encFields), ",")))
				} else {
					st.Unresolved++
				}
			case worst != nil:
				r.Fail(rule, fnName(dec), fmt.Sprintf("%s: byte %d -> %s", cp.name, p, worst.f.Name()), w.relFile(worst.at),
					fmt.Sprintf("byte order/position disagreement: the decoder takes byte %d as byte %d of %s, the encoder (%s) writes byte %d of it there", p, worst.sig, worst.f.Name(), fnName(enc), worstSig))
			default:
				ft := byPos[p][0]
				r.Fail(rule, fnName(dec), fmt.Sprintf("%s: byte %d -> %s", cp.name, p, ft.f.Name()), w.relFile(ft.at),
					fmt.Sprintf("layout disagreement: the decoder reads %s from byte %d, where the encoder (%s) writes %s", ft.f.Name(), p, fnName(enc), strings.Join(uniq(encFields), ",")))
			}
		}
		// reverse: a field both sides know, written at a position the decoder never reads it from
		for f, pos := range encPos {
			var df map[int]bool
			for g, m := range decFields {
				if sameField(f, g) {
					df = m
				}
			}
			if df == nil {
				continue
			}
			for p, sig := range pos {
				if sig < 0 {
					continue
				}
				if !df[p] {
					// allowed: both-endian duplicates (the decoder reads one copy)
					dupElsewhere := false
					for q, s2 := range pos {
						if q != p && s2 == sig && df[q] {
							dupElsewhere = true
						}
					}
					if dupElsewhere {
						continue
					}
					r.Fail(rule, fnName(enc), fmt.Sprintf("%s: %s byte %d written at %d", cp.name, f.Name(), sig, p), w.relFile(enc.Pos()),
						fmt.Sprintf("the encoder writes byte %d of %s at offset %d, but the decoder (%s) never reads %s from that offset", sig, f.Name(), p, fnName(dec), f.Name()))
				}
			}
		}
		// ISO9660 both-endian numbers: a big-endian run that directly follows a little-endian run of the same width is
		// the second half of one both-endian field, so both halves carry the same field (the parser reads only one half;
		// an independent reader may read the other). The type-M path table locations are big-endian only by specification.
		if cp.encPkg == pISO {
			single := func(p int) (*types.Var, int, bool) {
				var f *types.Var
				sig := -2
				for _, v := range cells[p] {
					if v.f == nil {
						continue
					}
					if f != nil && (!sameField(f, v.f) || sig != v.sig) {
						return nil, 0, false
					}
					f, sig = v.f, v.sig
				}
				return f, sig, f != nil && sig >= 0
			}
			for _, n := range []int{2, 4} {
				for start := range cells {
					// little-endian run [start, start+n) followed by big-endian run [start+n, start+2n)
					le, _, lok := single(start)
					be, _, bok := single(start + n)
					if !lok || !bok {
						continue
					}
					okRun := true
					for k := 0; k < n; k++ {
						f1, s1, o1 := single(start + k)
						f2, s2, o2 := single(start + n + k)
						if !o1 || !o2 || !sameField(f1, le) || !sameField(f2, be) || s1 != k || s2 != n-1-k {
							okRun = false
						}
					}
					if !okRun || sameField(le, be) || strings.Contains(be.Name(), "pathTableM") {
						continue
					}
					r.Fail(rule, fnName(enc), fmt.Sprintf("%s: both-endian halves at %d carry one field", cp.name, start), w.relFile(enc.Pos()),
						fmt.Sprintf("bytes [%d:%d) hold %s little-endian and the following bytes [%d:%d) hold %s big-endian: the two halves of a both-endian number disagree, so a reader of the other half sees a different value", start, start+n, le.Name(), start+n, start+2*n, be.Name()))
				}
			}
		}
		for n := range fieldsOK {
			st.Fields = append(st.Fields, n)
		}
		sort.Strings(st.Fields)
		stats = append(stats, st)
		if st.Matched < cp.minMatch && r.countViol(rule) == 0 {
			fatalf("%s: codec pair %s resolved only %d agreeing bytes (floor %d): the extractor no longer understands this pair", rule, cp.name, st.Matched, cp.minMatch)
		}
		r.Ok(rule, fnName(dec), cp.name+": layout agreement", w.relFile(dec.Pos()), fmt.Sprintf("%d decoder bytes, %d agree with the encoder, %d unresolved; fields: %s", st.DecBytes, st.Matched, st.Unresolved, strings.Join(st.Fields, ",")))
	}
	if r.Extra["codec_pairs"] == nil {
		r.Extra["codec_pairs"] = stats
	} else {
		r.Extra["codec_pairs"] = append(r.Extra["codec_pairs"].([]pairStats), stats...)
	}
}

// sameField: identical field object, or same name in the "same" struct (encoder reads T.f, decoder fills T.f).
func sameField(a, b *types.Var) bool {
	if a == b {
		return true
	}
	return a.Name() == b.Name() && a.Pkg() == b.Pkg()
}

func (r *Report) countViol(rule string) int {
	n := 0
	for _, o := range r.Obls {
		if o.Rule == rule && (o.Status == Violated || o.Status == Undecided) {
			n++
		}
	}
	return n
}

func cp(name, encPkg, encRecv, encName, decPkg, decRecv, decName string, minMatch int) codecPair {
	return codecPair{name: name, encPkg: encPkg, encRecv: encRecv, encName: encName, decPkg: decPkg, decRecv: decRecv, decName: decName, minMatch: minMatch}
}

const (
	pF12 = "filesystem/fat12"
	pF32 = "filesystem/fat32"
	pE4  = "filesystem/ext4"
	pISO = "filesystem/iso9660"
	pSQ  = "filesystem/squashfs"
	pGPT = "partition/gpt"
	pMBR = "partition/mbr"
)

var codecPairsC02 = []codecPair{
	cp("GPT header", pGPT, "Table", "toGPTBytes", pGPT, "", "readGPTHeader", 28),
	cp("GPT entry", pGPT, "Partition", "toBytes", pGPT, "", "partitionFromBytes", 18),
	cp("MBR entry", pMBR, "Partition", "toBytes", pMBR, "", "partitionFromBytes", 12),
}

var codecPairsC08 = []codecPair{
	cp("DOS 2.0 BPB", pF12, "Dos20BPB", "ToBytes", pF12, "", "Dos20BPBFromBytes", 10),
	cp("DOS 3.31 BPB", pF12, "Dos331BPB", "ToBytes", pF12, "", "Dos331BPBFromBytes", 19),
	cp("DOS 4.0 EBPB", pF12, "Dos40EBPB", "ToBytes", pF12, "", "Dos40EBPBFromBytes", 38),
	cp("FAT12/16 boot sector", pF12, "msDosBootSector", "toBytes", pF12, "", "msDosBootSectorFromBytes", 8),
	cp("DOS 7.1 EBPB", pF32, "dos71EBPB", "toBytes", pF32, "", "dos71EBPBFromBytes", 44),
	cp("FAT32 boot sector", pF32, "msDosBootSector", "toBytes", pF32, "", "msDosBootSectorFromBytes", 68),
	cp("FSInfo sector", pF32, "FSInformationSector", "toBytes", pF32, "", "fsInformationSectorFromBytes", 6),
}

var codecPairsC12 = []codecPair{}

var codecPairsC19 = []codecPair{
	cp("FAT directory entry", pF12, "directoryEntry", "toBytes", pF12, "", "parseDirEntries", 23),
	cp("ext4 inode", pE4, "inode", "toBytes", pE4, "", "inodeFromBytes", 100),
	cp("squashfs inode header", pSQ, "inodeHeader", "toBytes", pSQ, "", "parseInodeHeader", 12),
	cp("ext4 directory entry", pE4, "directoryEntry", "toBytes", pE4, "", "directoryEntryFromBytes", 4),
}

var codecPairsC07 = []codecPair{
	cp("squashfs superblock", pSQ, "superblock", "toBytes", pSQ, "", "parseSuperblock", 64),
	cp("squashfs inode header", pSQ, "inodeHeader", "toBytes", pSQ, "", "parseInodeHeader", 12),
	cp("basic directory inode", pSQ, "basicDirectory", "toBytes", pSQ, "", "parseBasicDirectory", 12),
	cp("extended directory inode", pSQ, "extendedDirectory", "toBytes", pSQ, "", "parseExtendedDirectory", 18),
	cp("basic file inode", pSQ, "basicFile", "toBytes", pSQ, "", "parseBasicFile", 12),
	cp("extended file inode", pSQ, "extendedFile", "toBytes", pSQ, "", "parseExtendedFile", 30),
	cp("basic symlink inode", pSQ, "basicSymlink", "toBytes", pSQ, "", "parseBasicSymlink", 3),
	cp("extended symlink inode", pSQ, "extendedSymlink", "toBytes", pSQ, "", "parseExtendedSymlink", 3),
	cp("basic device inode", pSQ, "basicDevice", "toBytes", pSQ, "", "parseBasicDevice", 6),
	cp("extended device inode", pSQ, "extendedDevice", "toBytes", pSQ, "", "parseExtendedDevice", 0),
	cp("basic IPC inode", pSQ, "basicIPC", "toBytes", pSQ, "", "parseBasicIPC", 3),
	cp("extended IPC inode", pSQ, "extendedIPC", "toBytes", pSQ, "", "parseExtendedIPC", 6),
	cp("directory header", pSQ, "directoryHeader", "toBytes", pSQ, "", "parseDirectoryHeader", 9),
	cp("directory entry", pSQ, "directoryEntryRaw", "toBytes", pSQ, "", "parseDirectoryEntry", 4),
	cp("fragment entry", pSQ, "fragmentEntry", "toBytes", pSQ, "", "parseFragmentEntry", 9),
}

var codecPairsC06 = []codecPair{
	cp("primary volume descriptor", pISO, "primaryVolumeDescriptor", "toBytes", pISO, "", "parsePrimaryVolumeDescriptor", 600),
	cp("supplementary volume descriptor", pISO, "supplementaryVolumeDescriptor", "toBytes", pISO, "", "parseSupplementaryVolumeDescriptor", 600),
	cp("directory record", pISO, "directoryEntry", "toBytes", pISO, "", "dirEntryFromBytesWithJoliet", 14),
}

var codecPairsC05 = []codecPair{
	cp("ext4 superblock", pE4, "superblock", "toBytes", pE4, "", "superblockFromBytes", 380),
	cp("ext4 group descriptor", pE4, "groupDescriptor", "toBytes", pE4, "", "groupDescriptorFromBytes", 44),
	cp("ext4 inode", pE4, "inode", "toBytes", pE4, "", "inodeFromBytes", 100),
	cp("ext4 directory entry", pE4, "directoryEntry", "toBytes", pE4, "", "directoryEntryFromBytes", 4),
}

// firstOfRecordList: v is a [][]byte built in the function as a literal (possibly appended to): the value stored as
// its element 0.
func firstOfRecordList(v ssa.Value, depth int) ssa.Value {
	if depth > 6 || v == nil {
		return nil
	}
	sl, ok := v.Type().Underlying().(*types.Slice)
	if !ok || !isByteSlice(sl.Elem()) {
		return nil
	}
	switch x := v.(type) {
	case *ssa.Slice:
		al, ok := x.X.(*ssa.Alloc)
		if !ok {
			return nil
		}
		for _, ref := range *al.Referrers() {
			ia, ok := ref.(*ssa.IndexAddr)
			if !ok {
				continue
			}
			if k, isC := constInt(ia.Index); !isC || k != 0 {
				continue
			}
			for _, u := range *ia.Referrers() {
				if st, ok := u.(*ssa.Store); ok && st.Addr == ssa.Value(ia) {
					return st.Val
				}
			}
		}
	case *ssa.Call:
		if b, ok := x.Call.Value.(*ssa.Builtin); ok && b.Name() == "append" && len(x.Call.Args) > 0 {
			return firstOfRecordList(x.Call.Args[0], depth+1)
		}
	case *ssa.Phi:
		var found ssa.Value
		for _, e := range x.Edges {
			f := firstOfRecordList(e, depth+1)
			if f == nil {
				return nil
			}
			if found != nil && found != f {
				return nil
			}
			found = f
		}
		return found
	}
	return nil
}

// inlineReader evaluates a call of a scalar-returning local closure / in-module function whose arguments are constants
// or windows and whose captured variables are windows.
func (e *codecEval) inlineReader(c *ssa.Call, depth int) (cscalar, bool) {
	if e.depth >= 2 || c.Call.IsInvoke() {
		return cscalar{}, false
	}
	f := c.Call.StaticCallee()
	mc, _ := c.Call.Value.(*ssa.MakeClosure)
	if f == nil && mc != nil {
		f, _ = mc.Fn.(*ssa.Function)
	}
	if f == nil || !e.w.fnSet[f] || f.Blocks == nil || len(f.Blocks) > 6 || f.Signature.Results().Len() != 1 {
		return cscalar{}, false
	}
	if typeBytes(f.Signature.Results().At(0).Type()) == 0 {
		return cscalar{}, false
	}
	sub := &codecEval{w: e.w, fn: f, env: map[ssa.Value]any{}, res: e.res, inputs: e.inputs, depth: e.depth + 1}
	usable := false
	for i, a := range c.Call.Args {
		if i >= len(f.Params) {
			break
		}
		if wn, ok := e.win(a); ok {
			sub.env[f.Params[i]] = wn
			usable = true
		} else if k, ok := e.constOf(a, 0); ok {
			sub.env[f.Params[i]] = cconst(k)
		} else {
			return cscalar{}, false
		}
	}
	if mc != nil {
		for i, fv := range f.FreeVars {
			if i < len(mc.Bindings) {
				if wn, ok := e.win(mc.Bindings[i]); ok {
					sub.env[fv] = wn
					usable = true
				} else if al, ok := mc.Bindings[i].(*ssa.Alloc); ok {
					// captured by reference: the cell holds the window
					for _, st := range cellStores(al) {
						if wn, ok := e.win(st.Val); ok {
							sub.env[fv] = cwinCell{wn}
							usable = true
						}
					}
				}
			}
		}
	}
	if !usable {
		return cscalar{}, false
	}
	var order []*ssa.BasicBlock
	var walk func(b *ssa.BasicBlock)
	walk = func(b *ssa.BasicBlock) {
		order = append(order, b)
		for _, ch := range b.Dominees() {
			walk(ch)
		}
	}
	walk(f.Blocks[0])
	var ret *ssa.Return
	for _, b := range order {
		for _, ins := range b.Instrs {
			if r, isRet := ins.(*ssa.Return); isRet {
				ret = r
				continue
			}
			// a load of a by-reference captured window
			if u, ok := ins.(*ssa.UnOp); ok && u.Op == token.MUL {
				if cell, ok := sub.env[u.X].(cwinCell); ok {
					sub.env[u] = cell.w
					continue
				}
			}
			sub.step(ins)
		}
	}
	if ret == nil || len(ret.Results) != 1 {
		return cscalar{}, false
	}
	return sub.scalarOf(ret.Results[0], depth+1), true
}

// cwinCell: a captured variable (by reference) that holds a window.
type cwinCell struct{ w cwin }

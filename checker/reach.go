package main

// GATE / NONDET: call-graph reachability with constant-actual folding.
//
// A context is (function, constant bindings of some parameters). Inside a context, branches whose
// condition folds to a constant follow only the feasible edge (sparse conditional constant
// propagation restricted to what the bindings determine). Calls are resolved statically, through
// CHA for interface invokes and function values, and closures created in a reachable block are
// reachable. Functions outside the module are leaves, except that interface-typed and func-typed
// arguments handed to them are assumed to be called back.

import (
	"fmt"
	"go/constant"
	"go/token"
	"go/types"
	"sort"
	"strings"

	"golang.org/x/tools/go/ssa"
)

type binding map[*ssa.Parameter]constant.Value

func (b binding) key() string {
	if len(b) == 0 {
		return ""
	}
	var xs []string
	for p, v := range b {
		xs = append(xs, p.Name()+"="+v.ExactString())
	}
	sort.Strings(xs)
	return strings.Join(xs, ",")
}

type ctxKey struct {
	fn   *ssa.Function
	bind string
}

type reachHit struct {
	Site  ssa.CallInstruction
	Label string
	Ctx   ctxKey
}

type Reach struct {
	w *World
	// sink classifies a call instruction in a reachable block; label=="" means not a sink.
	sink func(c ssa.CallInstruction, ev *evaluator) string
	// instrSink classifies any other instruction (Go, Select, Range over map ...).
	instrSink func(i ssa.Instruction) string
	// skip: do not follow this call (nor treat it as a sink).
	skip func(c ssa.CallInstruction, callee *ssa.Function) bool
	// blockEdge: return false to refuse following the CFG edge b -> b.Succs[idx] (sanctioned guards).
	blockEdge func(b *ssa.BasicBlock, idx int, bind binding) bool
	// enter: return false to not descend into callee at all.
	enter func(callee *ssa.Function) bool
	// maxContexts bounds the exploration.
	maxContexts int

	visited map[ctxKey]bool
	parent  map[ctxKey]ctxKey
	via     map[ctxKey]ssa.CallInstruction
	Hits    []reachHit
	Funcs   map[*ssa.Function]bool
	Blown   bool
}

func (r *Reach) init() {
	if r.visited == nil {
		r.visited = map[ctxKey]bool{}
		r.parent = map[ctxKey]ctxKey{}
		r.via = map[ctxKey]ssa.CallInstruction{}
		r.Funcs = map[*ssa.Function]bool{}
		if r.maxContexts == 0 {
			r.maxContexts = 20000
		}
	}
}

// Run explores from fn with the given bindings.
func (r *Reach) Run(fn *ssa.Function, bind binding) {
	r.init()
	type item struct {
		fn   *ssa.Function
		bind binding
		k    ctxKey
	}
	k0 := ctxKey{fn, bind.key()}
	if r.visited[k0] {
		return
	}
	r.visited[k0] = true
	work := []item{{fn, bind, k0}}
	for len(work) > 0 {
		it := work[0]
		work = work[1:]
		if len(r.visited) > r.maxContexts {
			r.Blown = true
			return
		}
		r.Funcs[it.fn] = true
		blocks, ev := r.w.feasibleBlocks(it.fn, it.bind, r.blockEdge)
		push := func(callee *ssa.Function, b binding, site ssa.CallInstruction) {
			if callee == nil || callee.Blocks == nil || !r.w.inModule(callee) {
				return
			}
			if r.enter != nil && !r.enter(callee) {
				return
			}
			k := ctxKey{callee, b.key()}
			if r.visited[k] {
				return
			}
			r.visited[k] = true
			r.parent[k] = it.k
			r.via[k] = site
			work = append(work, item{callee, b, k})
		}
		for _, b := range it.fn.Blocks {
			if !blocks[b] {
				continue
			}
			for _, ins := range b.Instrs {
				if r.instrSink != nil {
					if l := r.instrSink(ins); l != "" {
						r.Hits = append(r.Hits, reachHit{nil, l + " at " + r.w.relFile(instrPos(ins)), it.k})
					}
				}
				switch x := ins.(type) {
				case ssa.CallInstruction:
					r.call(x, it.fn, ev, push, it.k)
				}
			}
		}
	}
}

func (r *Reach) call(c ssa.CallInstruction, caller *ssa.Function, ev *evaluator, push func(*ssa.Function, binding, ssa.CallInstruction), k ctxKey) {
	cc := c.Common()
	var callees []*ssa.Function
	if f := cc.StaticCallee(); f != nil {
		callees = []*ssa.Function{f}
	} else if _, isB := cc.Value.(*ssa.Builtin); isB {
		return
	} else {
		callees = r.w.calleesCHA(c)
		if cc.IsInvoke() && r.w.receiverIsExternal(cc.Value) {
			// the receiver was produced by code outside the module (e.g. zstd.NewReader(...)): its dynamic type
			// cannot be a module type; module values it wraps were handed over as arguments and are covered
			// by the callback rule at that call
			var ext []*ssa.Function
			for _, f := range callees {
				if !r.w.inModule(f) {
					ext = append(ext, f)
				}
			}
			callees = ext
		}
	}
	if r.skip != nil {
		var kept []*ssa.Function
		anySkipped := false
		for _, f := range callees {
			if r.skip(c, f) {
				anySkipped = true
				continue
			}
			kept = append(kept, f)
		}
		if len(callees) == 0 && r.skip(c, nil) {
			return
		}
		if anySkipped && len(kept) == 0 {
			return
		}
		callees = kept
	}
	if r.sink != nil {
		if l := r.sink(c, ev); l != "" {
			r.Hits = append(r.Hits, reachHit{c, l, k})
		}
	}
	for _, f := range callees {
		if f.Blocks != nil && r.w.inModule(f) {
			// bind constant actuals
			var b binding
			actuals := cc.Args
			params := f.Params
			if cc.IsInvoke() && len(params) > 0 {
				params = params[1:]
			}
			for i, p := range params {
				if i >= len(actuals) {
					break
				}
				if v, ok := ev.eval(actuals[i]); ok {
					if b == nil {
						b = binding{}
					}
					b[p] = v
				}
			}
			push(f, b, c)
			continue
		}
		// external callee: interface/func arguments may be called back
		for _, a := range cc.Args {
			r.callback(a, c, push)
		}
	}
}

func (r *Reach) callback(a ssa.Value, site ssa.CallInstruction, push func(*ssa.Function, binding, ssa.CallInstruction)) {
	switch t := a.Type().Underlying().(type) {
	case *types.Signature:
		p := r.w.prov(a, provOpts{})
		for _, rt := range p.Roots {
			if mc, ok := rt.Val.(*ssa.MakeClosure); ok {
				if f, ok := mc.Fn.(*ssa.Function); ok {
					push(f, nil, site)
				}
			}
			if f, ok := rt.Val.(*ssa.Function); ok {
				push(f, nil, site)
			}
		}
	case *types.Interface:
		if t.NumMethods() == 0 {
			return
		}
		// which dynamic types can the argument have? constants (nil) have none; a value converted from a concrete
		// type has exactly that type; anything else may be any module implementer
		var concrete []types.Type
		unknown := false
		var scan func(v ssa.Value, d int)
		seen := map[ssa.Value]bool{}
		scan = func(v ssa.Value, d int) {
			if seen[v] || d > 8 {
				return
			}
			seen[v] = true
			switch x := v.(type) {
			case *ssa.Const:
			case *ssa.MakeInterface:
				concrete = append(concrete, x.X.Type())
			case *ssa.ChangeInterface:
				scan(x.X, d+1)
			case *ssa.Extract:
				scan(x.Tuple, d+1)
			case *ssa.Phi:
				for _, e := range x.Edges {
					scan(e, d+1)
				}
			case *ssa.Call:
				if g := x.Call.StaticCallee(); g != nil && !r.w.inModule(g) {
					return // produced by external code
				}
				unknown = true
			case *ssa.TypeAssert:
				scan(x.X, d+1)
			case *ssa.UnOp:
				// a load of a struct field: whatever the module stores into that field
				if fa, ok := x.X.(*ssa.FieldAddr); ok && x.Op == token.MUL {
					if _, f, _, ok := fieldOfAddr(fa); ok {
						r.w.buildFieldIndex()
						sts := r.w.fieldStoreIns[f]
						if len(sts) == 0 {
							unknown = true
						}
						for _, st := range sts {
							scan(st.Val, d+1)
						}
						return
					}
				}
				unknown = true
			default:
				unknown = true
			}
		}
		scan(a, 0)
		for _, n := range r.w.Implementers(t) {
			if !unknown {
				match := false
				for _, ct := range concrete {
					if nn := namedOf(ct); nn != nil && nn.Obj() == n.Obj() {
						match = true
					}
				}
				if !match {
					continue
				}
			}
			for i := 0; i < t.NumMethods(); i++ {
				m := r.w.MethodOf(n, t.Method(i).Name())
				if m == nil {
					continue
				}
				if r.skip != nil && r.skip(&callbackSite{site, a, t.Method(i)}, m) {
					continue
				}
				push(m, nil, site)
			}
		}
	}
}

// callbackSite is a pseudo call instruction passed to skip() for callbacks made by external code.
type callbackSite struct {
	ssa.CallInstruction
	Arg    ssa.Value
	Method *types.Func
}

// Chain renders the call chain that led to a context.
func (r *Reach) Chain(k ctxKey) []string {
	var rev []string
	for n := 0; n < 60; n++ {
		s := fnName(k.fn)
		if k.bind != "" {
			s += "[" + k.bind + "]"
		}
		if site := r.via[k]; site != nil {
			s += " (called at " + r.w.relFile(instrPos(site)) + ")"
		}
		rev = append(rev, s)
		p, ok := r.parent[k]
		if !ok {
			break
		}
		k = p
	}
	for i, j := 0, len(rev)-1; i < j; i, j = i+1, j-1 {
		rev[i], rev[j] = rev[j], rev[i]
	}
	return rev
}

// ---- constant evaluation and feasible blocks ---------------------------------------------

type evaluator struct {
	bind   binding
	edgeOK map[[2]*ssa.BasicBlock]bool
	memo   map[ssa.Value]constant.Value
	known  map[ssa.Value]bool
}

func (e *evaluator) eval(v ssa.Value) (constant.Value, bool) {
	switch x := v.(type) {
	case *ssa.Const:
		if x.Value == nil {
			return nil, false
		}
		return x.Value, true
	case *ssa.Parameter:
		c, ok := e.bind[x]
		return c, ok
	}
	if e.known[v] {
		c := e.memo[v]
		return c, c != nil
	}
	e.known[v] = true
	e.memo[v] = nil
	var out constant.Value
	switch x := v.(type) {
	case *ssa.BinOp:
		a, ok1 := e.eval(x.X)
		b, ok2 := e.eval(x.Y)
		if ok1 && ok2 {
			out = foldBin(x.Op, a, b)
		}
	case *ssa.UnOp:
		a, ok := e.eval(x.X)
		if ok {
			switch x.Op {
			case token.NOT:
				if a.Kind() == constant.Bool {
					out = constant.MakeBool(!constant.BoolVal(a))
				}
			case token.SUB:
				out = constant.UnaryOp(token.SUB, a, 0)
			}
		}
	case *ssa.Convert:
		a, ok := e.eval(x.X)
		if ok && a.Kind() == constant.Int && typeBits(x.Type()) > 0 {
			out = a
		}
	case *ssa.ChangeType:
		a, ok := e.eval(x.X)
		if ok {
			out = a
		}
	case *ssa.Phi:
		var c constant.Value
		all := true
		n := 0
		for i, ed := range x.Edges {
			pred := x.Block().Preds[i]
			if e.edgeOK != nil && !e.edgeOK[[2]*ssa.BasicBlock{pred, x.Block()}] {
				continue
			}
			n++
			ev, ok := e.eval(ed)
			if !ok {
				all = false
				break
			}
			if c == nil {
				c = ev
			} else if !constant.Compare(c, token.EQL, ev) {
				all = false
				break
			}
		}
		if all && n > 0 {
			out = c
		}
	}
	e.memo[v] = out
	return out, out != nil
}

func foldBin(op token.Token, a, b constant.Value) (out constant.Value) {
	defer func() {
		if recover() != nil {
			out = nil
		}
	}()
	switch op {
	case token.EQL, token.NEQ, token.LSS, token.LEQ, token.GTR, token.GEQ:
		if a.Kind() != b.Kind() {
			return nil
		}
		return constant.MakeBool(constant.Compare(a, op, b))
	case token.SHL, token.SHR:
		s, ok := constant.Uint64Val(b)
		if !ok || s > 64 {
			return nil
		}
		return constant.Shift(a, op, uint(s))
	case token.ADD, token.SUB, token.MUL, token.AND, token.OR, token.XOR, token.AND_NOT:
		if a.Kind() != b.Kind() {
			return nil
		}
		return constant.BinaryOp(a, op, b)
	case token.QUO, token.REM:
		if a.Kind() == constant.Int && b.Kind() == constant.Int && constant.Sign(b) != 0 {
			if op == token.QUO {
				return constant.BinaryOp(a, token.QUO_ASSIGN, b)
			}
			return constant.BinaryOp(a, token.REM, b)
		}
	}
	return nil
}

// feasibleBlocks computes the blocks of fn reachable from the entry when parameters have the given
// constant bindings. edgeFilter may additionally refuse edges.
func (w *World) feasibleBlocks(fn *ssa.Function, bind binding, edgeFilter func(*ssa.BasicBlock, int, binding) bool) (map[*ssa.BasicBlock]bool, *evaluator) {
	edgeOK := map[[2]*ssa.BasicBlock]bool{}
	var blocks map[*ssa.BasicBlock]bool
	var ev *evaluator
	for iter := 0; iter < 20; iter++ {
		ev = &evaluator{bind: bind, edgeOK: edgeOK, memo: map[ssa.Value]constant.Value{}, known: map[ssa.Value]bool{}}
		blocks = map[*ssa.BasicBlock]bool{}
		newEdges := map[[2]*ssa.BasicBlock]bool{}
		var stack []*ssa.BasicBlock
		if len(fn.Blocks) > 0 {
			stack = append(stack, fn.Blocks[0])
			blocks[fn.Blocks[0]] = true
		}
		if fn.Recover != nil {
			stack = append(stack, fn.Recover)
			blocks[fn.Recover] = true
		}
		for len(stack) > 0 {
			b := stack[len(stack)-1]
			stack = stack[:len(stack)-1]
			follow := func(idx int) {
				if edgeFilter != nil && !edgeFilter(b, idx, bind) {
					return
				}
				s := b.Succs[idx]
				newEdges[[2]*ssa.BasicBlock{b, s}] = true
				if !blocks[s] {
					blocks[s] = true
					stack = append(stack, s)
				}
			}
			if iff, ok := lastInstr(b).(*ssa.If); ok && (len(bind) > 0) {
				if c, ok := ev.eval(iff.Cond); ok && c.Kind() == constant.Bool {
					if constant.BoolVal(c) {
						follow(0)
					} else {
						follow(1)
					}
					continue
				}
			}
			for i := range b.Succs {
				follow(i)
			}
		}
		same := len(newEdges) == len(edgeOK)
		if same {
			for e := range newEdges {
				if !edgeOK[e] {
					same = false
				}
			}
		}
		if same || len(bind) == 0 {
			break
		}
		// refinement: each round evaluates phis over the (shrinking, always sound) edge set of the previous round
		edgeOK = newEdges
	}
	return blocks, ev
}

var _ = fmt.Sprint

// receiverIsExternal: every provenance root of v is the result of a call to a function outside the module
// (or a constant): the value's dynamic type was chosen by external code.
func (w *World) receiverIsExternal(v ssa.Value) bool {
	p := w.prov(v, provOpts{})
	if len(p.Roots) == 0 || p.Truncated {
		return false
	}
	for _, rt := range p.Roots {
		switch rt.Kind {
		case RConst:
		case RCall:
			if rt.Fn == nil || w.inModule(rt.Fn) {
				return false
			}
		default:
			return false
		}
	}
	return true
}

package main

// C09 — repartitioning a GPT disk is atomic across power loss.
// Decides the mechanism: write order BA→BH→PA→PH, a sync after every write, error
// short-circuit, CRC validation dominating every success return of the reader, and the
// content-error ⇒ backup fallback.

import (
	"fmt"
	"go/token"
	"go/types"
	"sort"
	"strings"

	"golang.org/x/tools/go/ssa"
)

func init() {
	register("C09", runC09, `Mechanism-level decision of GPT crash atomicity by static analysis of gpt.(*Table).Write and gpt.Read.
Rules: C09-a every device write in Write is classified by the provenance of its data and offset (BA=array bytes at the backup array sector, BH=header(false) at secondaryHeader, PA, PH, M=protective MBR at a constant offset<512) and data/offset sides must agree;
C09-b along every CFG path the classified writes occur in the order BA<BH<PA<PH and a success return requires all four;
C09-c after each write a call reaching Sync() on the same file occurs before the next write or a success return, and the sync error is propagated;
C09-e the error of every WriteAt leads to an error return;
C09-f in every function reachable from gpt.Read that computes a CRC-32, every success return is dominated by the equal-edge of the comparison of that CRC with a stored value, the header CRC range covers every decoded header byte, and the entries that are decoded are exactly the checksummed buffer;
C09-g content errors (header decode error, entries CRC mismatch) are wrapped in the error type that gpt.Read tests with errors.As, and on that edge every success return passes the backup read at (diskSize/lbs)-1. Behind the nil-error edge of the backup read no error return is reachable: a backup that validated is handed out.
Argument: with sector-atomic writes and Sync as a barrier, at any cut at most one region is in flight, all earlier regions are new and all later ones old; by C09-b the reachable disk states are {backup in flight, primary old}, {backup new, primary old}, {primary array in flight/new, primary header old}, {primary header old|new}; C09-f/g make the reader return the old list, or the new list from the fully written backup, in each. Decides the mechanism, not the run-time behaviour.`)
}

type c09Class int

const (
	clsNone c09Class = iota
	clsM
	clsBA
	clsBH
	clsPA
	clsPH
)

func (c c09Class) String() string {
	return [...]string{"?", "M", "BA", "BH", "PA", "PH"}[c]
}

type c09Roles struct {
	headerEnc *ssa.Function // encoder that computes the header CRC
	arrayEnc  *ssa.Function // encoder of the entries array (its output feeds the array CRC)
	sectorFn  *ssa.Function // bool -> array start sector
}

func runC09(w *World, r *Report) {
	write := w.Method("partition/gpt", "Table", "Write")
	read := w.Func("partition/gpt", "Read")
	roles := c09FindRoles(w, write)
	c09Write(w, r, write, roles)
	c09Reader(w, r, read)
	c09Fallback(w, r, read)
	r.Assume("a single-sector write is atomic; Sync() is a durability barrier; CRC-32 collisions are ignored")
	r.Assume("the backing file implements Sync (true for *os.File returned by rawBackend.Writable); backends without Sync are documented no-ops")
	r.Floor("C09-a", r.countRule("C09-a"), 4)
	r.Floor("C09-c", r.countRule("C09-c"), 2)
	r.Floor("C09-f", r.countRule("C09-f"), 4)
	r.Floor("C09-g", r.countRule("C09-g"), 3)
}

func c09FindRoles(w *World, write *ssa.Function) c09Roles {
	var roles c09Roles
	// header encoder: a static in-module callee of Write that itself calls crc32.ChecksumIEEE
	for _, c := range calls(write, true, func(c ssa.CallInstruction) bool { return true }) {
		f := c.Common().StaticCallee()
		if f == nil || !w.fnSet[f] {
			continue
		}
		crcs := calls(f, false, func(c ssa.CallInstruction) bool { return isStdCall(c, "hash/crc32.ChecksumIEEE") })
		if len(crcs) == 0 {
			continue
		}
		roles.headerEnc = f
		for _, cc := range crcs {
			p := w.prov(cc.Common().Args[0], provOpts{})
			for _, rt := range p.Roots {
				if rt.Kind == RCall && rt.Fn != nil && w.fnSet[rt.Fn] {
					roles.arrayEnc = rt.Fn
				}
			}
		}
	}
	if roles.headerEnc == nil || roles.arrayEnc == nil {
		fatalf("C09: cannot identify header/array encoders by role from %s", fnName(write))
	}
	// sector function: in-module callee (of Write or the header encoder) with exactly one bool parameter returning an integer
	for _, host := range []*ssa.Function{write, roles.headerEnc} {
		for _, c := range calls(host, true, func(c ssa.CallInstruction) bool { return true }) {
			f := c.Common().StaticCallee()
			if f == nil || !w.fnSet[f] || f == roles.headerEnc {
				continue
			}
			ps := f.Signature.Params()
			if ps.Len() == 1 && isBoolType(ps.At(0).Type()) && f.Signature.Results().Len() == 1 && typeBits(f.Signature.Results().At(0).Type()) > 0 {
				roles.sectorFn = f
			}
		}
	}
	if roles.sectorFn == nil {
		fatalf("C09: cannot identify the array-sector function by role")
	}
	return roles
}

func isBoolType(t types.Type) bool {
	b, ok := t.Underlying().(*types.Basic)
	return ok && b.Kind() == types.Bool
}

// ---- write side -------------------------------------------------------------------------

// The write side is analysed on the call tree of Table.Write with every in-module helper that reaches a
// device write or a sync inlined context-sensitively (its parameters and captured variables stand for the
// values of the call site), so that the analysis does not depend on how Write is split into helpers.

type c09An struct {
	w        *World
	r        *Report
	write    *ssa.Function
	roles    c09Roles
	relevant map[*ssa.Function]bool
	syncFns  map[*ssa.Function]bool
	memo     map[string]*summary
	classes  map[string]c09Class // per (stack, instruction)
	reported map[string]bool
	nWrites  int
	nSyncs   int
	checked  map[ssa.Instruction]bool
	// ambiguous: some write could not be classified because its operands flow through an aggregate
	ambiguous bool
}

const c09Bad = 5

func c09State(order, dirty int) int { return order*2 + dirty }

type c09Frame struct {
	site   ssa.CallInstruction
	callee *ssa.Function
	mc     *ssa.MakeClosure // when the callee is a closure: where it was created (free-variable bindings)
	// item: when the call is made once per element of a table of structs (a loop over a slice literal), the element
	// this frame stands for: field index -> value stored into that field; argIdx is the callee parameter that receives it
	item   *c09Item
	argIdx int
}

// c09Item is one element of a table of regions built in the writing function.
type c09Item struct {
	fields   map[int]ssa.Value
	optional bool // appended under a condition
	id       string
}

// c09TableLoop: a call made for every element of such a table.
type c09TableLoop struct {
	site    ssa.CallInstruction
	callee  *ssa.Function
	argIdx  int
	header  *ssa.BasicBlock
	exitIdx int
	items   []*c09Item
}

// resolveClosure finds the closure a called value denotes, looking through captured variables and cells.
func resolveClosure(w *World, v ssa.Value, env map[ssa.Value][]ssa.Value) *ssa.MakeClosure {
	p := w.prov(v, provOpts{env: env})
	var found *ssa.MakeClosure
	n := 0
	for _, rt := range p.Roots {
		if mc, ok := rt.Val.(*ssa.MakeClosure); ok {
			found = mc
			n++
		}
	}
	if n == 1 {
		return found
	}
	return nil
}

func stackKey(st []c09Frame) string {
	var sb strings.Builder
	for _, f := range st {
		fmt.Fprintf(&sb, "%p/", f.site)
		if f.item != nil {
			sb.WriteString(f.item.id + "/")
		}
	}
	return sb.String()
}

func stackEnv(st []c09Frame) map[ssa.Value][]ssa.Value {
	env := map[ssa.Value][]ssa.Value{}
	for _, f := range st {
		cc := f.site.Common()
		for i, p := range f.callee.Params {
			if i < len(cc.Args) {
				env[p] = []ssa.Value{cc.Args[i]}
			}
		}
		if f.item != nil && f.argIdx < len(f.callee.Params) {
			// the parameter is one element of the table: its fields are the values stored into that element
			p := f.callee.Params[f.argIdx]
			delete(env, p)
			// go/ssa spills a by-value struct parameter into a local when its fields are addressed
			holders := map[ssa.Value]bool{p: true}
			allInstrs(f.callee, func(ins ssa.Instruction) {
				if st, ok := ins.(*ssa.Store); ok && st.Val == ssa.Value(p) {
					if al, ok := st.Addr.(*ssa.Alloc); ok {
						holders[al] = true
					}
				}
			})
			allInstrs(f.callee, func(ins ssa.Instruction) {
				switch x := ins.(type) {
				case *ssa.Field:
					if holders[x.X] {
						if v, ok := f.item.fields[x.Field]; ok {
							env[x] = []ssa.Value{v}
						}
					}
				case *ssa.UnOp:
					if fa, ok := x.X.(*ssa.FieldAddr); ok && x.Op == token.MUL && holders[fa.X] {
						if v, ok := f.item.fields[fa.Field]; ok {
							env[x] = []ssa.Value{v}
						}
					}
				}
			})
		}
		mc := f.mc
		if mc == nil {
			mc, _ = cc.Value.(*ssa.MakeClosure)
		}
		if mc != nil {
			for i, fv := range f.callee.FreeVars {
				if i < len(mc.Bindings) {
					env[fv] = []ssa.Value{mc.Bindings[i]}
				}
			}
		}
	}
	return env
}

func (a *c09An) isSync(ins ssa.Instruction) bool {
	c, ok := ins.(*ssa.Call)
	if !ok {
		return false
	}
	if isSyncCall(c) {
		return true
	}
	g := c.Common().StaticCallee()
	if g == nil || !a.w.fnSet[g] {
		return false
	}
	if v, ok := a.syncFns[g]; ok {
		return v
	}
	v := c09IsSyncHelper(a.w, g)
	a.syncFns[g] = v
	return v
}

func (a *c09An) isRelevant(g *ssa.Function) bool {
	if v, ok := a.relevant[g]; ok {
		return v
	}
	a.relevant[g] = false
	reach := a.w.reachableFrom([]*ssa.Function{g}, func(f *ssa.Function) bool { return strings.HasSuffix(a.w.pkgOf(f), "partition/gpt") })
	for f := range reach {
		if len(calls(f, false, isWriteAt)) > 0 || len(calls(f, false, isSyncCall)) > 0 {
			a.relevant[g] = true
		}
	}
	return a.relevant[g]
}

func (a *c09An) flow(fn *ssa.Function, s int, st []c09Frame) *summary {
	key := fmt.Sprintf("%p|%d|%s", fn, s, stackKey(st))
	if sm, ok := a.memo[key]; ok {
		return sm
	}
	if len(st) > 6 {
		a.r.Undecided("C09-a", fnName(a.write), "helper nesting", a.w.relFile(fn.Pos()), "device writes are nested more than 6 helpers deep")
		return &summary{succ: 1 << uint(s), err: 1 << uint(s)}
	}
	a.memo[key] = &summary{} // recursion guard
	env := stackEnv(st)
	fname := fnName(a.write)
	rule := &flowRule{w: a.w}
	tables := a.tableLoops(fn, env)
	rule.inline = func(callee *ssa.Function, site ssa.CallInstruction) bool {
		if tables[site] != nil {
			return false // accounted for, element by element, on the loop's exit edge
		}
		return !a.syncFns[callee] && !a.isSync(site.(ssa.Instruction)) && a.isRelevant(callee)
	}
	rule.edge = func(b *ssa.BasicBlock, idx int, s2 int) (uint64, bool) {
		for _, tl := range tables {
			if tl.header != b || tl.exitIdx != idx {
				continue
			}
			// the loop as a whole: the callee once per element, in the order of the table
			a.checkErr(tl.site, "write helper "+tl.callee.Name())
			states := uint64(1) << uint(s2)
			for _, it := range tl.items {
				var next uint64
				bits(states, func(t int) {
					fr := c09Frame{site: tl.site, callee: tl.callee, item: it, argIdx: tl.argIdx}
					sm := a.flow(tl.callee, t, append(append([]c09Frame{}, st...), fr))
					next |= sm.succ
					if it.optional {
						next |= 1 << uint(t)
					}
				})
				states = next
			}
			return states, true
		}
		return 0, false
	}
	rule.dyn = func(site ssa.CallInstruction) []*ssa.Function {
		if site.Common().IsInvoke() {
			return nil
		}
		if mc := resolveClosure(a.w, site.Common().Value, env); mc != nil {
			if g, ok := mc.Fn.(*ssa.Function); ok && a.isRelevant(g) {
				return []*ssa.Function{g}
			}
		}
		return nil
	}
	rule.summariseHook = func(g *ssa.Function, site ssa.CallInstruction, s2 int) *summary {
		a.checkErr(site, "write helper "+g.Name())
		fr := c09Frame{site: site, callee: g}
		if site.Common().StaticCallee() == nil {
			fr.mc = resolveClosure(a.w, site.Common().Value, env)
		}
		return a.flow(g, s2, append(append([]c09Frame{}, st...), fr))
	}
	rule.step = func(ins ssa.Instruction, s2 int) (uint64, bool) {
		order, dirty := s2/2, s2%2
		if c, ok := ins.(ssa.CallInstruction); ok && isWriteAt(c) {
			args := argsOf(c)
			ck := stackKey(st) + fmt.Sprintf("%p", ins)
			cls, seen := a.classes[ck]
			if !seen {
				var why string
				cls, why = c09Classify(a.w, a.write, a.roles, args[0], args[1], env)
				a.classes[ck] = cls
				a.nWrites++
				at := a.w.relFile(ins.Pos())
				if len(st) > 0 {
					at = a.w.relFile(st[0].site.Pos())
				}
				if cls == clsBA || cls == clsPA {
					// the array region must receive exactly the bytes the array encoder produced (the same bytes the
					// header's array CRC covers and the array-sector arithmetic assumes): no padding, no re-slicing
					dv := args[0]
					for i := 0; i < 8; i++ {
						vs, ok := env[stripConv(dv)]
						if !ok || len(vs) != 1 {
							break
						}
						dv = vs[0]
					}
					exact := false
					switch x := stripConv(dv).(type) {
					case *ssa.Extract:
						if cl, ok := x.Tuple.(*ssa.Call); ok && cl.Call.StaticCallee() == a.roles.arrayEnc {
							exact = true
						}
					case *ssa.Call:
						exact = x.Call.StaticCallee() == a.roles.arrayEnc
					}
					a.r.Check(exact, "C09-a", fname, "write "+cls.String()+" carries the encoder's array bytes unchanged", at, "",
						"the entries-array region is written from a value that is not exactly the array encoder's result ("+shortVal(dv)+"): its length no longer matches the array-sector arithmetic and the CRC'd bytes")
				}
				if cls == clsNone && c09ThroughAggregate(a.w, args[0], args[1], env) {
					// the data or the offset reaches the write through a container (a table of regions, a struct element):
					// which region it is, and in which order the regions are written, is not something this analysis can order
					a.ambiguous = true
					a.r.Undecided("C09-a", fname, "write#"+why, at, "cannot classify this device write: its data or offset flows through an aggregate (a table of regions built at run time); the order of the regions is not decided by this analysis: "+why)
				} else if cls == clsNone {
					a.r.Fail("C09-a", fname, "write#"+why, at, "device write whose data/offset provenance fits no region class or whose data and offset belong to different sides: "+why)
				} else {
					a.r.Ok("C09-a", fname, "write "+cls.String(), at, why)
				}
				if cc, isCall := c.(*ssa.Call); isCall {
					a.checkErr(cc, "WriteAt")
					// the file written is Write's own file parameter
					pr := a.w.prov(recvOf(c), provOpts{env: env})
					single := len(pr.Roots) == 1 && pr.Roots[0].Kind == RParam && pr.Roots[0].Param.Parent() == a.write
					a.r.Check(single, "C09-c", fname, "write "+cls.String()+" targets the file given to Write", at, "", "the device write goes to something other than Write's file parameter: "+strings.Join(pr.rootStrings(), ","))
				} else {
					a.r.Fail("C09-c", fname, "deferred/go write", at, "device write is deferred or asynchronous")
				}
			}
			if dirty == 1 {
				k := "unsynced|" + ck
				if !a.reported[k] {
					a.reported[k] = true
					a.r.Fail("C09-c", fname, "write "+cls.String()+" while the previous write is unsynced", a.w.relFile(ins.Pos()),
						"a device write is reachable before the previous write was followed by a call reaching Sync(): the two regions share a durability epoch and may persist in either order")
				}
			}
			next := order
			if order != c09Bad {
				want := map[c09Class]int{clsBA: 0, clsBH: 1, clsPA: 2, clsPH: 3}
				switch cls {
				case clsM:
				case clsNone:
					next = c09Bad
				default:
					if order == want[cls] {
						next = order + 1
					} else {
						next = c09Bad
						k := "order|" + ck
						if !a.reported[k] {
							a.reported[k] = true
							a.r.Fail("C09-b", fname, "order:"+cls.String(), a.w.relFile(ins.Pos()),
								fmt.Sprintf("region write out of order: %s written when %d of the regions BA,BH,PA,PH had been written (required: backup array, backup header, primary array, primary header)", cls, order))
						}
					}
				}
			}
			return 1 << uint(c09State(next, 1)), true
		}
		if a.isSync(ins) {
			c := ins.(*ssa.Call)
			if !a.checked[ins] {
				a.nSyncs++
				a.checkErr(c, "sync")
				var target ssa.Value
				if isSyncCall(c) {
					target = recvOf(c)
				} else if len(c.Call.Args) > 0 {
					target = c.Call.Args[0]
				}
				pr := a.w.prov(target, provOpts{env: env})
				single := len(pr.Roots) == 1 && pr.Roots[0].Kind == RParam && pr.Roots[0].Param.Parent() == a.write
				a.r.Check(single, "C09-c", fname, "sync targets the file given to Write #"+ordinal(ins.Parent(), c), a.w.relFile(ins.Pos()), "", "Sync is applied to something other than the file that is written: "+strings.Join(pr.rootStrings(), ","))
			}
			return 1 << uint(c09State(order, 0)), true
		}
		return 0, false
	}
	res := rule.run(fn, 1<<uint(s), 0)
	succ, errm := res.exitMasks()
	sm := &summary{succ, errm}
	a.memo[key] = sm
	if len(st) == 0 {
		// root: judge the success returns
		nsucc := 0
		okAll := true
		for ret, m := range res.successReturns() {
			nsucc++
			bits(m, func(s2 int) {
				order, dirty := s2/2, s2%2
				if order != 4 {
					okAll = false
					a.r.Fail("C09-b", fname, "success-return", a.w.relFile(instrPos(ret)), fmt.Sprintf("a success return is reachable with %d of the 4 regions written in order (5 = out of order)", order), trailTo(a.w, ret.Block())...)
				}
				if dirty != 0 {
					okAll = false
					a.r.Fail("C09-c", fname, "sync-after-last-write", a.w.relFile(instrPos(ret)), "a success return is reachable after a device write with no call reaching Sync() in between", trailTo(a.w, ret.Block())...)
				}
			})
		}
		if nsucc == 0 {
			a.r.Fail("C09-b", fname, "success-return", a.w.relFile(fn.Pos()), "no success return found")
		} else if okAll {
			a.r.Ok("C09-b", fname, "order BA<BH<PA<PH on all paths", a.w.relFile(fn.Pos()), fmt.Sprintf("%d success return(s), all with 4 regions in order and synced", nsucc))
			a.r.Ok("C09-c", fname, "sync-after-write", a.w.relFile(fn.Pos()), "every device write is followed by a call reaching Sync() before the next write or a success return")
		}
	}
	return sm
}

func (a *c09An) checkErr(site ssa.CallInstruction, what string) {
	ins := site.(ssa.Instruction)
	if a.checked[ins] {
		return
	}
	a.checked[ins] = true
	c, ok := site.(*ssa.Call)
	if !ok {
		a.r.Fail("C09-e", fnName(site.Parent()), "error of "+what, a.w.relFile(site.Pos()), what+" is deferred or asynchronous")
		return
	}
	ok2, why := errorIsChecked(c)
	rule := "C09-e"
	if what == "sync" {
		rule = "C09-c"
	}
	a.r.Check(ok2, rule, fnName(site.Parent()), "error of "+what+" #"+ordinal(site.Parent(), site), a.w.relFile(c.Pos()), why, "the error of the "+what+" is not propagated: "+why)
}

func c09Write(w *World, r *Report, write *ssa.Function, roles c09Roles) {
	a := &c09An{w: w, r: r, write: write, roles: roles, relevant: map[*ssa.Function]bool{}, syncFns: map[*ssa.Function]bool{},
		memo: map[string]*summary{}, classes: map[string]c09Class{}, reported: map[string]bool{}, checked: map[ssa.Instruction]bool{}}
	before := len(r.Obls)
	a.flow(write, c09State(0, 0), nil)
	if a.ambiguous {
		// order and sync verdicts rest on the classification that could not be made
		for _, o := range r.Obls[before:] {
			if o.Status == Violated && (o.Rule == "C09-b" || o.Rule == "C09-c") {
				o.Status = Undecided
				o.Detail = "not decided, because a device write could not be classified (see C09-a): " + o.Detail
			}
		}
	}
	if a.nSyncs == 0 {
		r.Fail("C09-c", fnName(write), "sync call", w.relFile(write.Pos()), "no call reaching Sync() is made while writing the table")
	}
	if a.nWrites == 0 {
		r.Fail("C09-a", fnName(write), "device writes", w.relFile(write.Pos()), "no device write found in Table.Write")
	}
}

func sameRootValue(w *World, a, b ssa.Value) bool {
	if a == nil || b == nil {
		return false
	}
	pa := w.prov(a, provOpts{}).rootStrings()
	pb := w.prov(b, provOpts{}).rootStrings()
	if len(pa) == 0 || len(pb) == 0 {
		return false
	}
	return strings.Join(pa, ",") == strings.Join(pb, ",")
}

// c09IsSyncHelper: g(f) reaches f.Sync() on every path except the one where the type assertion to a
// Sync-capable interface fails (documented no-op), and returns the Sync error.
func c09IsSyncHelper(w *World, g *ssa.Function) bool {
	syncs := calls(g, false, isSyncCall)
	if len(syncs) == 0 {
		return false
	}
	bad := mustPass(w, g, func(ins ssa.Instruction) bool {
		c, ok := ins.(ssa.CallInstruction)
		return ok && isSyncCall(c)
	}, func(b *ssa.BasicBlock, idx int) bool {
		// the !ok edge of `s, ok := f.(interface{Sync() error})`
		iff, ok := lastInstr(b).(*ssa.If)
		if !ok {
			return false
		}
		v, trueIdx := boolCondEdge(iff)
		ex, ok := v.(*ssa.Extract)
		if !ok || ex.Index != 1 {
			return false
		}
		ta, ok := ex.Tuple.(*ssa.TypeAssert)
		if !ok || !ta.CommaOk {
			return false
		}
		it, ok := ta.AssertedType.Underlying().(*types.Interface)
		if !ok {
			return false
		}
		has := false
		for i := 0; i < it.NumMethods(); i++ {
			if it.Method(i).Name() == "Sync" {
				has = true
			}
		}
		return has && idx != trueIdx
	})
	if len(bad) > 0 {
		return false
	}
	for _, s := range syncs {
		c, ok := s.(*ssa.Call)
		if !ok {
			return false
		}
		if ok2, _ := errorIsChecked(c); !ok2 {
			return false
		}
	}
	return true
}

// c09Classify classifies a device write by provenance of data and offset.
func c09Classify(w *World, write *ssa.Function, roles c09Roles, data, off ssa.Value, env map[ssa.Value][]ssa.Value) (c09Class, string) {
	opaque := func(f *ssa.Function) bool { return f == roles.headerEnc || f == roles.arrayEnc || f == roles.sectorFn }
	dp := w.prov(data, provOpts{followCalls: true, opaque: opaque, env: env})
	op := w.prov(off, provOpts{followCalls: true, opaque: opaque, env: env})
	// data side
	dataKind := "" // "array", "hdrP", "hdrB", "mbr"
	var dk []string
	for _, rt := range dp.Roots {
		if rt.Kind != RCall || rt.Fn == nil {
			continue
		}
		switch rt.Fn {
		case roles.arrayEnc:
			dk = append(dk, "array")
		case roles.headerEnc:
			args := rt.Call.Common().Args
			k := "hdr?"
			for _, a := range args {
				if c, ok := a.(*ssa.Const); ok && isBoolType(c.Type()) {
					if c.Value.String() == "true" {
						k = "hdrP"
					} else {
						k = "hdrB"
					}
				}
			}
			dk = append(dk, k)
		}
	}
	dk = uniq(dk)
	if len(dk) == 1 {
		dataKind = dk[0]
	} else if len(dk) > 1 {
		return clsNone, "data mixes " + strings.Join(dk, "+")
	}
	// offset side
	offKind := ""
	var ok []string
	for _, rt := range op.Roots {
		if rt.Kind == RCall && rt.Fn == roles.sectorFn {
			k := "arr?"
			for _, a := range rt.Call.Common().Args {
				if c, isC := a.(*ssa.Const); isC && isBoolType(c.Type()) {
					if c.Value.String() == "true" {
						k = "arrP"
					} else {
						k = "arrB"
					}
				}
			}
			ok = append(ok, k)
		}
	}
	ok = uniq(ok)
	if len(ok) == 1 {
		offKind = ok[0]
	} else if len(ok) > 1 {
		return clsNone, "offset mixes " + strings.Join(ok, "+")
	} else {
		// header or MBR offsets
		var offConst *int64
		if len(op.Roots) == 1 && op.Roots[0].Kind == RConst && len(op.BinOps) == 0 {
			if cv, isC := constInt(op.Roots[0].Val); isC {
				offConst = &cv
			}
		}
		if offConst != nil {
			c := *offConst
			if c >= 0 && c < 512 {
				offKind = "mbr"
			} else {
				offKind = fmt.Sprintf("const%d", c)
			}
		} else if op.hasField("Table", "secondaryHeader") {
			offKind = "hdrB"
		} else {
			// only sector size / constants / primaryHeader
			fine := true
			for _, rt := range op.Roots {
				switch rt.Kind {
				case RConst:
				case RField:
					if !(rt.Field.Name() == "LogicalSectorSize" || rt.Field.Name() == "primaryHeader") {
						fine = false
					}
				default:
					fine = false
				}
			}
			if fine {
				offKind = "hdrP"
			} else {
				offKind = "other(" + strings.Join(op.rootStrings(), ",") + ")"
			}
		}
	}
	why := "data=" + orq(dataKind) + " offset=" + orq(offKind)
	switch {
	case dataKind == "array" && offKind == "arrB":
		return clsBA, why
	case dataKind == "array" && offKind == "arrP":
		return clsPA, why
	case dataKind == "hdrB" && offKind == "hdrB":
		return clsBH, why
	case dataKind == "hdrP" && offKind == "hdrP":
		return clsPH, why
	case dataKind == "" && offKind == "mbr":
		return clsM, why
	}
	return clsNone, why
}

func orq(s string) string {
	if s == "" {
		return "?"
	}
	return s
}

func uniq(xs []string) []string {
	sort.Strings(xs)
	var out []string
	for i, x := range xs {
		if i == 0 || x != xs[i-1] {
			out = append(out, x)
		}
	}
	return out
}

// ---- reader side -----------------------------------------------------------------------

func c09Reader(w *World, r *Report, read *ssa.Function) {
	reach := w.reachableFrom([]*ssa.Function{read}, func(f *ssa.Function) bool { return strings.HasSuffix(w.pkgOf(f), "partition/gpt") })
	n := 0
	for _, f := range sortedFns(reach) {
		crcs := calls(f, false, func(c ssa.CallInstruction) bool { return isStdCall(c, "hash/crc32.ChecksumIEEE") })
		for _, cc := range crcs {
			c, ok := cc.(*ssa.Call)
			if !ok {
				continue
			}
			n++
			c09CrcDominates(w, r, f, c)
		}
	}
	if n < 2 {
		r.Fail("C09-f", fnName(read), "crc checks", w.relFile(read.Pos()), fmt.Sprintf("only %d CRC-32 computations are reachable from the reader (header and entries array need one each)", n))
	}
}

func c09CrcDominates(w *World, r *Report, f *ssa.Function, crc *ssa.Call) {
	fname := fnName(f)
	// find the If comparing the crc value
	var cmpIf *ssa.If
	eqIdx := 0
	for _, ref := range *crc.Referrers() {
		b, ok := ref.(*ssa.BinOp)
		if !ok {
			continue
		}
		for _, r2 := range *b.Referrers() {
			if iff, ok := r2.(*ssa.If); ok {
				if _, _, idx, ok := eqEdge(iff); ok {
					cmpIf, eqIdx = iff, idx
				}
			}
		}
	}
	if cmpIf == nil {
		r.Fail("C09-f", fname, "crc compared", w.relFile(crc.Pos()), "the computed CRC-32 is never compared with a stored value")
		return
	}
	a, b, _, _ := eqEdge(cmpIf)
	other := a
	if stripConv(a) == ssa.Value(crc) {
		other = b
	}
	// comparand must be device-derived: binary.*.Uint32 of bytes or a Table field set from it
	op := w.prov(other, provOpts{deepFields: true})
	derived := op.hasCallNamed("Uint32")
	r.Check(derived, "C09-f", fname, "crc comparand is read from the device", w.relFile(cmpIf.Pos()),
		"comparand roots: "+strings.Join(op.rootStrings(), ","), "the value the CRC is compared with is not decoded from the device bytes: "+strings.Join(op.rootStrings(), ","))
	bad := mustPass(w, f, nil, func(bl *ssa.BasicBlock, idx int) bool { return lastInstr(bl) == ssa.Instruction(cmpIf) && idx == eqIdx })
	if len(bad) == 0 {
		r.Ok("C09-f", fname, "crc equality dominates success", w.relFile(cmpIf.Pos()), "every success return lies behind the equal edge")
	}
	for _, ret := range bad {
		r.Fail("C09-f", fname, "crc equality dominates success", w.relFile(instrPos(ret)), "a success return is reachable without passing the CRC equality edge", trailTo(w, ret.Block())...)
	}
	// coverage of the checksummed range
	arg := crc.Call.Args[0]
	if sl, ok := arg.(*ssa.Slice); ok && (sl.Low != nil || sl.High != nil) {
		lo, hi := int64(0), int64(-1)
		if sl.Low != nil {
			lo, _ = constInt(sl.Low)
		}
		if sl.High != nil {
			if h, ok := constInt(sl.High); ok {
				hi = h
			}
		}
		base := sl.X
		maxHi := int64(0)
		nsl := 0
		allInstrs(f, func(ins ssa.Instruction) {
			s2, ok := ins.(*ssa.Slice)
			if !ok || s2.X != base || s2 == sl {
				return
			}
			if s2.High == nil {
				return
			}
			if h, ok := constInt(s2.High); ok {
				nsl++
				if h > maxHi {
					maxHi = h
				}
			}
		})
		good := lo == 0 && hi >= maxHi && nsl > 0
		r.Check(good, "C09-f", fname, "crc range covers decoded header bytes", w.relFile(crc.Pos()),
			fmt.Sprintf("crc over [%d:%d], decoded fields end at %d (%d slices)", lo, hi, maxHi, nsl),
			fmt.Sprintf("CRC computed over [%d:%d] but header fields are decoded up to byte %d", lo, hi, maxHi))
	} else {
		// whole buffer: the decoded value must come from exactly this buffer
		used := false
		for _, ref := range *arg.Referrers() {
			if c, ok := ref.(*ssa.Call); ok && c != crc {
				if g := c.Common().StaticCallee(); g != nil && w.fnSet[g] {
					for _, a := range c.Common().Args {
						if a == arg {
							used = true
						}
					}
				}
			}
		}
		r.Check(used, "C09-f", fname, "checksummed buffer is the decoded buffer", w.relFile(crc.Pos()),
			"the same SSA value is checksummed and passed to the entry decoder", "the buffer that is checksummed is not the one handed to the entry decoder")
		// entries stored to Partitions only behind the equality edge
		allInstrs(f, func(ins ssa.Instruction) {
			st, ok := ins.(*ssa.Store)
			if !ok {
				return
			}
			if _, fld, _, ok := fieldOfAddr(st.Addr); ok && fld.Name() == "Partitions" {
				dom := edgeDominates(cmpIf.Block(), eqIdx, st.Block())
				r.Check(dom, "C09-f", fname, "Partitions assigned only after CRC match", w.relFile(st.Pos()), "store dominated by equal edge", "Table.Partitions is assigned on a path that has not passed the entries CRC comparison")
			}
		})
	}
}

// ---- fallback ---------------------------------------------------------------------------

func c09Fallback(w *World, r *Report, read *ssa.Function) {
	fname := fnName(read)
	// calls in Read returning (*Table, error)
	var tcalls []*ssa.Call
	for _, c := range calls(read, false, func(c ssa.CallInstruction) bool {
		g := c.Common().StaticCallee()
		if g == nil || !w.fnSet[g] {
			return false
		}
		rs := g.Signature.Results()
		return rs.Len() == 2 && typeIs(rs.At(0).Type(), "partition/gpt", "Table") && types.Identical(rs.At(1).Type(), errorType)
	}) {
		if cc, ok := c.(*ssa.Call); ok {
			tcalls = append(tcalls, cc)
		}
	}
	if len(tcalls) < 2 {
		r.Fail("C09-g", fname, "primary+backup reads", w.relFile(read.Pos()), fmt.Sprintf("gpt.Read makes %d table-reading calls; a primary read and a backup read are required", len(tcalls)))
		return
	}
	// primary = the one in the entry-dominating position
	sort.Slice(tcalls, func(i, j int) bool { return tcalls[i].Block().Dominates(tcalls[j].Block()) && tcalls[i] != tcalls[j] })
	primary, backup := tcalls[0], tcalls[len(tcalls)-1]
	if primary.Common().StaticCallee() == backup.Common().StaticCallee() {
		r.Fail("C09-g", fname, "primary+backup reads", w.relFile(read.Pos()), "primary and backup reads use the same function with no distinct backup location")
		return
	}
	// errors.As edge
	var asIf *ssa.If
	asTrue := 0
	var asTarget types.Type
	for _, b := range read.Blocks {
		iff, ok := lastInstr(b).(*ssa.If)
		if !ok {
			continue
		}
		v, ti := boolCondEdge(iff)
		c, ok := v.(*ssa.Call)
		if !ok || !isStdCall(c, "errors.As") {
			continue
		}
		asIf, asTrue = iff, ti
		// target type: **T
		if mi, ok := c.Call.Args[1].(*ssa.MakeInterface); ok {
			asTarget = deref(mi.X.Type())
		}
	}
	if asIf == nil || asTarget == nil {
		r.Undecided("C09-g", fname, "content-error test", w.relFile(read.Pos()), "no errors.As test on the primary read's error found: how Read tells a content error from an I/O error is not recognised by this analysis")
		return
	}
	// (iii) every success return other than the primary-success one passes the backup call's nil-error edge
	bad := mustPass(w, read, func(ins ssa.Instruction) bool { return ins == ssa.Instruction(backup) }, func(b *ssa.BasicBlock, idx int) bool {
		// primary success edge counts as "passed" as well
		iff, ok := lastInstr(b).(*ssa.If)
		if !ok {
			return false
		}
		x, trueNonNil, ok := nilTest(iff.Cond)
		if !ok || errSourceCall(x) != primary {
			return false
		}
		return (idx == 0) != trueNonNil
	})
	if len(bad) == 0 {
		r.Ok("C09-g", fname, "success only from primary or backup read", w.relFile(read.Pos()), "")
	}
	for _, ret := range bad {
		r.Fail("C09-g", fname, "success only from primary or backup read", w.relFile(instrPos(ret)), "a success return is reachable without a successful primary read or a backup read")
	}
	// a backup that validated is handed out: behind the nil-error edge of the backup read no error return is reachable
	// (the atomicity argument needs the reader to take the new list from the complete backup whenever the primary is
	// torn, whatever else the two copies differ in)
	if biff, bnil := errNilEdge(read, backup); biff != nil {
		seenB := map[*ssa.BasicBlock]bool{}
		stB := []*ssa.BasicBlock{biff.Block().Succs[bnil]}
		rejected := ""
		for len(stB) > 0 {
			b := stB[len(stB)-1]
			stB = stB[:len(stB)-1]
			if seenB[b] {
				continue
			}
			seenB[b] = true
			if ret, ok := lastInstr(b).(*ssa.Return); ok {
				if classifyReturn(ret) == RetError {
					rejected = w.relFile(instrPos(ret))
				}
				continue
			}
			stB = append(stB, b.Succs...)
		}
		r.Check(rejected == "", "C09-g", fname, "a validated backup is returned", w.relFile(backup.Pos()), "",
			"after the backup read succeeded (header CRC, entries CRC and self-LBA valid) gpt.Read can still return an error at "+rejected+": a crash that leaves the primary torn and the backup complete then reads as an error instead of the new (or old) table")
	} else {
		r.Undecided("C09-g", fname, "a validated backup is returned", w.relFile(backup.Pos()), "the error of the backup read is not tested in gpt.Read")
	}
	// the backup call is reached on the errors.As-true edge, not on the false edge
	tb := asIf.Block().Succs[asTrue]
	reachB := blockReaches(tb, backup.Block())
	r.Check(reachB, "C09-g", fname, "content error reaches backup read", w.relFile(asIf.Pos()), "errors.As true edge reaches "+fnName(backup.Common().StaticCallee()), "the backup read is not reachable from the content-error edge")
	// backup location: (size / lbs) - 1 with size from a Seek to the end
	var locArg ssa.Value
	for _, a := range backup.Call.Args {
		if typeBits(a.Type()) == 64 {
			if _, isParam := stripConv(a).(*ssa.Parameter); !isParam {
				locArg = a
			}
		}
	}
	if locArg != nil {
		lp := w.prov(locArg, provOpts{followCalls: true})
		hasSeek := lp.hasCallNamed("Seek")
		hasMinus1 := false
		for _, t := range addends(locArg) {
			if c, ok := constInt(t.v); ok && c == 1 && t.neg {
				hasMinus1 = true
			}
		}
		r.Check(hasSeek && hasMinus1, "C09-g", fname, "backup located at last sector", w.relFile(backup.Pos()), "(device size from Seek)/lbs - 1", "backup header location is not (device size / sector size) - 1: roots "+strings.Join(lp.rootStrings(), ","))
	} else {
		r.Undecided("C09-g", fname, "backup located at last sector", w.relFile(backup.Pos()), "cannot find the backup location argument")
	}
	// (i)+(ii): content errors are wrapped in the errors.As target type
	pf := primary.Common().StaticCallee()
	reach := w.reachableFrom([]*ssa.Function{pf}, func(f *ssa.Function) bool { return strings.HasSuffix(w.pkgOf(f), "partition/gpt") })
	// (ii) functions comparing a CRC reachable from primary and having a Partitions store: mismatch edge returns target type
	for _, f := range sortedFns(reach) {
		for _, cc := range calls(f, false, func(c ssa.CallInstruction) bool { return isStdCall(c, "hash/crc32.ChecksumIEEE") }) {
			crc := cc.(*ssa.Call)
			for _, ref := range *crc.Referrers() {
				b, ok := ref.(*ssa.BinOp)
				if !ok {
					continue
				}
				for _, r2 := range *b.Referrers() {
					iff, ok := r2.(*ssa.If)
					if !ok {
						continue
					}
					_, _, eqIdx, ok := eqEdge(iff)
					if !ok {
						continue
					}
					neq := iff.Block().Succs[1-eqIdx]
					wrapped := c09ReturnsWrapped(w, f, neq, asTarget, pf, reach)
					r.Check(wrapped, "C09-g", fnName(f), "CRC mismatch surfaces as content error", w.relFile(iff.Pos()),
						"mismatch edge yields "+asTarget.String()+" before reaching gpt.Read", "a CRC mismatch is returned as a plain error, so gpt.Read will not fall back to the backup")
				}
			}
		}
	}
}

func blockReaches(from, to *ssa.BasicBlock) bool {
	seen := map[*ssa.BasicBlock]bool{}
	var dfs func(b *ssa.BasicBlock) bool
	dfs = func(b *ssa.BasicBlock) bool {
		if b == to {
			return true
		}
		if seen[b] {
			return false
		}
		seen[b] = true
		for _, s := range b.Succs {
			if dfs(s) {
				return true
			}
		}
		return false
	}
	return dfs(from)
}

// c09ReturnsWrapped: the error produced at block `at` of f is, by the time it leaves pf (the primary
// reader), an instance of target: either f itself returns MakeInterface(target) there, or the caller
// between f and pf wraps errors of that call in target.
func c09ReturnsWrapped(w *World, f *ssa.Function, at *ssa.BasicBlock, target types.Type, pf *ssa.Function, reach map[*ssa.Function]*ssa.Function) bool {
	isTarget := func(v ssa.Value) bool {
		mi, ok := v.(*ssa.MakeInterface)
		return ok && types.Identical(mi.X.Type(), target)
	}
	ret, ok := lastInstr(at).(*ssa.Return)
	if ok {
		idx := errResultIndex(f.Signature)
		if idx >= 0 && isTarget(ret.Results[idx]) {
			return true
		}
	}
	// walk up the call chain: some caller on the path to pf must wrap the error of the call to its callee
	cur := f
	for depth := 0; cur != nil && depth < 6; depth++ {
		caller := reach[cur]
		if caller == nil {
			return false
		}
		for _, cc := range calls(caller, false, func(c ssa.CallInstruction) bool { return c.Common().StaticCallee() == cur }) {
			c, ok := cc.(*ssa.Call)
			if !ok {
				continue
			}
			// error of c tested; non-nil edge returns target
			for _, b := range caller.Blocks {
				iff, ok := lastInstr(b).(*ssa.If)
				if !ok {
					continue
				}
				x, trueNonNil, ok := nilTest(iff.Cond)
				if !ok || errSourceCall(x) != c {
					continue
				}
				idx := 1
				if trueNonNil {
					idx = 0
				}
				if rr, ok := lastInstr(b.Succs[idx]).(*ssa.Return); ok {
					ei := errResultIndex(caller.Signature)
					if ei >= 0 && isTarget(rr.Results[ei]) {
						return true
					}
				}
			}
		}
		cur = caller
	}
	return false
}

func paramIndex(fn *ssa.Function, v ssa.Value) int {
	v = stripConv(v)
	for i, p := range fn.Params {
		if p == v {
			return i
		}
	}
	return -1
}

// c09ThroughAggregate: the data or the offset of a write derives from a field of a struct other than the table and
// partition types (an element of a table of regions), i.e. it passed through a container.
func c09ThroughAggregate(w *World, data, off ssa.Value, env map[ssa.Value][]ssa.Value) bool {
	for _, v := range []ssa.Value{data, off} {
		for _, rt := range w.prov(v, provOpts{env: env}).Roots {
			if rt.Kind == RField && rt.Owner != nil {
				switch rt.Owner.Obj().Name() {
				case "Table", "Partition":
				default:
					return true
				}
			}
		}
	}
	return false
}

// tableLoops finds, in fn, calls of a relevant in-module function made once per element of a slice of structs that fn
// itself builds from composite literals (make + append, or a slice literal): `for _, r := range regions { r.write(f) }`.
// Such a loop is analysed as the sequence of its elements (see rule.edge in flow).
func (a *c09An) tableLoops(fn *ssa.Function, env map[ssa.Value][]ssa.Value) map[ssa.CallInstruction]*c09TableLoop {
	out := map[ssa.CallInstruction]*c09TableLoop{}
	for _, c := range calls(fn, false, func(c ssa.CallInstruction) bool {
		g := c.Common().StaticCallee()
		return g != nil && a.w.fnSet[g] && g.Blocks != nil
	}) {
		g := c.Common().StaticCallee()
		loop := cycleThrough(c.Block())
		if len(loop) == 0 || !a.isRelevant(g) {
			continue
		}
		for ai, arg := range c.Common().Args {
			ld, ok := stripConv(arg).(*ssa.UnOp)
			var ia *ssa.IndexAddr
			if ok && ld.Op == token.MUL {
				ia, _ = ld.X.(*ssa.IndexAddr)
			} else if x, isIA := stripConv(arg).(*ssa.IndexAddr); isIA {
				ia = x // pointer receiver: &table[i]
			}
			if ia == nil {
				continue
			}
			ixv := stripConv(ia.Index)
			if bo, isB := ixv.(*ssa.BinOp); isB && bo.Op == token.ADD {
				ixv = stripConv(bo.X) // go/ssa's range-index loop: phi(-1, next) + 1
			}
			ph, ok := ixv.(*ssa.Phi)
			if !ok || !loop[ph.Block()] {
				continue
			}
			iff, ok := lastInstr(ph.Block()).(*ssa.If)
			if !ok {
				continue
			}
			exitIdx := -1
			for k, sc := range ph.Block().Succs {
				if !loop[sc] {
					exitIdx = k
				}
			}
			_ = iff
			if exitIdx < 0 {
				continue
			}
			items, ok := c09SliceSeq(ia.X, 0)
			if !ok {
				continue
			}
			out[c] = &c09TableLoop{site: c, callee: g, argIdx: ai, header: ph.Block(), exitIdx: exitIdx, items: items}
		}
	}
	return out
}

// c09SliceSeq resolves a slice value into the ordered list of struct elements it holds, when it is built from
// make/append of composite literals in straight-line code with optional (conditional) appends.
func c09SliceSeq(v ssa.Value, depth int) ([]*c09Item, bool) {
	if depth > 12 {
		return nil, false
	}
	switch x := v.(type) {
	case *ssa.MakeSlice:
		if k, ok := constInt(x.Len); ok && k == 0 {
			return nil, true
		}
		return nil, false
	case *ssa.Const:
		return nil, x.IsNil()
	case *ssa.Slice:
		// a slice of an array literal: the elements stored into the array
		al, ok := x.X.(*ssa.Alloc)
		if !ok || x.Low != nil {
			return nil, false
		}
		if x.High != nil {
			// make([]T, 0, n) is lowered to new [n]T sliced [:0]
			if k, isC := constInt(x.High); isC && k == 0 {
				return nil, true
			}
			return nil, false
		}
		return c09ArrayItems(al)
	case *ssa.Call:
		b, ok := x.Call.Value.(*ssa.Builtin)
		if !ok || b.Name() != "append" || len(x.Call.Args) != 2 {
			return nil, false
		}
		base, ok := c09SliceSeq(x.Call.Args[0], depth+1)
		if !ok {
			return nil, false
		}
		more, ok := c09SliceSeq(x.Call.Args[1], depth+1)
		if !ok {
			return nil, false
		}
		return append(append([]*c09Item{}, base...), more...), true
	case *ssa.Phi:
		if len(x.Edges) != 2 {
			return nil, false
		}
		s0, ok0 := c09SliceSeq(x.Edges[0], depth+1)
		s1, ok1 := c09SliceSeq(x.Edges[1], depth+1)
		if !ok0 || !ok1 {
			return nil, false
		}
		if len(s0) > len(s1) {
			s0, s1 = s1, s0
		}
		for i := range s0 {
			if s0[i].id != s1[i].id {
				return nil, false
			}
		}
		outp := append([]*c09Item{}, s0...)
		for _, it := range s1[len(s0):] {
			cp := *it
			cp.optional = true
			outp = append(outp, &cp)
		}
		return outp, true
	}
	return nil, false
}

// c09ArrayItems: the struct elements stored, at constant indices, into a local array (the backing store of a slice
// literal or of the variadic arguments of append).
func c09ArrayItems(al *ssa.Alloc) ([]*c09Item, bool) {
	arr, ok := deref(al.Type()).Underlying().(*types.Array)
	if !ok {
		return nil, false
	}
	items := make([]*c09Item, arr.Len())
	for i := range items {
		items[i] = &c09Item{fields: map[int]ssa.Value{}, id: fmt.Sprintf("%p#%d", al, i)}
	}
	okAll := true
	for _, ref := range *al.Referrers() {
		switch r := ref.(type) {
		case *ssa.IndexAddr:
			k, isC := constInt(r.Index)
			if !isC || k < 0 || int(k) >= len(items) {
				okAll = false
				continue
			}
			for _, u := range *r.Referrers() {
				switch y := u.(type) {
				case *ssa.FieldAddr:
					for _, u2 := range *y.Referrers() {
						if st, ok := u2.(*ssa.Store); ok && st.Addr == ssa.Value(y) {
							items[k].fields[y.Field] = st.Val
						}
					}
				case *ssa.Store:
					// whole-struct store of a composite literal built in a local: its field stores
					if y.Addr != ssa.Value(r) {
						continue
					}
					ld, isLd := y.Val.(*ssa.UnOp)
					var lit *ssa.Alloc
					if isLd && ld.Op == token.MUL {
						lit, _ = ld.X.(*ssa.Alloc)
					}
					if lit == nil {
						okAll = false
						continue
					}
					for _, u2 := range *lit.Referrers() {
						if fa, ok := u2.(*ssa.FieldAddr); ok {
							for _, u3 := range *fa.Referrers() {
								if st, ok := u3.(*ssa.Store); ok && st.Addr == ssa.Value(fa) {
									items[k].fields[fa.Field] = st.Val
								}
							}
						}
					}
				}
			}
		case *ssa.Slice:
		default:
			okAll = false
		}
	}
	return items, okAll
}

package main

// C09 — repartitioning a GPT disk is atomic across power loss.
// Decides the mechanism: write order BA→BH→PA→PH, a sync after every write, error
// short-circuit, CRC validation dominating every success return of the reader, and the
// content-error ⇒ backup fallback.

import (
	"fmt"
	"go/types"
	"sort"
	"strings"

	"golang.org/x/tools/go/ssa"
)

func init() {
	register("C09", runC09, `Mechanism-level decision of GPT crash atomicity by static analysis of gpt.(*Table).Write and gpt.Read.
Rules: C09-a every device write in Write is classified by the provenance of its data and offset (BA=array bytes at the backup array sector, BH=header(false) at secondaryHeader, PA, PH, M=protective MBR at a constant offset<512) and data/offset sides must agree;
C09-b along every CFG path the classified writes occur in the order BA<BH<PA<PH and a success return requires all four;
C09-c after each write a call reaching Sync() on the same file occurs before the next write or a success return, and the sync error is propagated;
C09-e the error of every WriteAt leads to an error return;
C09-f in every function reachable from gpt.Read that computes a CRC-32, every success return is dominated by the equal-edge of the comparison of that CRC with a stored value, the header CRC range covers every decoded header byte, and the entries that are decoded are exactly the checksummed buffer;
C09-g content errors (header decode error, entries CRC mismatch) are wrapped in the error type that gpt.Read tests with errors.As, and on that edge every success return passes the backup read at (diskSize/lbs)-1.
Argument: with sector-atomic writes and Sync as a barrier, at any cut at most one region is in flight, all earlier regions are new and all later ones old; by C09-b the reachable disk states are {backup in flight, primary old}, {backup new, primary old}, {primary array in flight/new, primary header old}, {primary header old|new}; C09-f/g make the reader return the old list, or the new list from the fully written backup, in each. Decides the mechanism, not the run-time behaviour.`)
}

type c09Class int

const (
	clsNone c09Class = iota
	clsM
	clsBA
	clsBH
	clsPA
	clsPH
)

func (c c09Class) String() string {
	return [...]string{"?", "M", "BA", "BH", "PA", "PH"}[c]
}

type c09Roles struct {
	headerEnc *ssa.Function // encoder that computes the header CRC
	arrayEnc  *ssa.Function // encoder of the entries array (its output feeds the array CRC)
	sectorFn  *ssa.Function // bool -> array start sector
}

func runC09(w *World, r *Report) {
	write := w.Method("partition/gpt", "Table", "Write")
	read := w.Func("partition/gpt", "Read")
	roles := c09FindRoles(w, write)
	c09Write(w, r, write, roles)
	c09Reader(w, r, read)
	c09Fallback(w, r, read)
	r.Assume("a single-sector write is atomic; Sync() is a durability barrier; CRC-32 collisions are ignored")
	r.Assume("the backing file implements Sync (true for *os.File returned by rawBackend.Writable); backends without Sync are documented no-ops")
	r.Floor("C09-a", r.countRule("C09-a"), 4)
	r.Floor("C09-c", r.countRule("C09-c"), 2)
	r.Floor("C09-f", r.countRule("C09-f"), 4)
	r.Floor("C09-g", r.countRule("C09-g"), 3)
}

func c09FindRoles(w *World, write *ssa.Function) c09Roles {
	var roles c09Roles
	// header encoder: a static in-module callee of Write that itself calls crc32.ChecksumIEEE
	for _, c := range calls(write, true, func(c ssa.CallInstruction) bool { return true }) {
		f := c.Common().StaticCallee()
		if f == nil || !w.fnSet[f] {
			continue
		}
		crcs := calls(f, false, func(c ssa.CallInstruction) bool { return isStdCall(c, "hash/crc32.ChecksumIEEE") })
		if len(crcs) == 0 {
			continue
		}
		roles.headerEnc = f
		for _, cc := range crcs {
			p := w.prov(cc.Common().Args[0], provOpts{})
			for _, rt := range p.Roots {
				if rt.Kind == RCall && rt.Fn != nil && w.fnSet[rt.Fn] {
					roles.arrayEnc = rt.Fn
				}
			}
		}
	}
	if roles.headerEnc == nil || roles.arrayEnc == nil {
		fatalf("C09: cannot identify header/array encoders by role from %s", fnName(write))
	}
	// sector function: in-module callee (of Write or the header encoder) with exactly one bool parameter returning an integer
	for _, host := range []*ssa.Function{write, roles.headerEnc} {
		for _, c := range calls(host, true, func(c ssa.CallInstruction) bool { return true }) {
			f := c.Common().StaticCallee()
			if f == nil || !w.fnSet[f] || f == roles.headerEnc {
				continue
			}
			ps := f.Signature.Params()
			if ps.Len() == 1 && isBoolType(ps.At(0).Type()) && f.Signature.Results().Len() == 1 && typeBits(f.Signature.Results().At(0).Type()) > 0 {
				roles.sectorFn = f
			}
		}
	}
	if roles.sectorFn == nil {
		fatalf("C09: cannot identify the array-sector function by role")
	}
	return roles
}

func isBoolType(t types.Type) bool {
	b, ok := t.Underlying().(*types.Basic)
	return ok && b.Kind() == types.Bool
}

// ---- write side -------------------------------------------------------------------------

type c09Event struct {
	site   ssa.CallInstruction // call in Write (wrapper call or direct WriteAt)
	data   ssa.Value
	off    ssa.Value
	cls    c09Class
	why    string
	direct bool
}

type c09Wrapper struct {
	fn              *ssa.Function
	dataIdx, offIdx int // parameter indices
	writeCall       *ssa.Call
}

func paramIndex(fn *ssa.Function, v ssa.Value) int {
	v = stripConv(v)
	for i, p := range fn.Params {
		if p == v {
			return i
		}
	}
	return -1
}

func c09Write(w *World, r *Report, write *ssa.Function, roles c09Roles) {
	fname := fnName(write)
	wrappers := map[*ssa.Function]*c09Wrapper{}
	var events []*c09Event
	evBySite := map[ssa.Instruction]*c09Event{}

	// find wrappers among the callees of Write and direct writes
	for _, c := range calls(write, false, func(c ssa.CallInstruction) bool { return true }) {
		if isWriteAt(c) {
			a := argsOf(c)
			ev := &c09Event{site: c, data: a[0], off: a[1], direct: true}
			events = append(events, ev)
			evBySite[c] = ev
			continue
		}
		g := c.Common().StaticCallee()
		if g == nil || !w.fnSet[g] || g.Blocks == nil {
			continue
		}
		wcalls := calls(g, true, isWriteAt)
		if len(wcalls) == 0 {
			// does g reach a WriteAt deeper? then the write is hidden from classification
			reach := w.reachableFrom([]*ssa.Function{g}, nil)
			for f := range reach {
				if len(calls(f, false, isWriteAt)) > 0 && f != g {
					r.Undecided("C09-a", fname, "call "+fnName(g), w.relFile(c.Pos()),
						"callee reaches a device write through "+fnName(f)+" more than one level down; cannot classify")
				}
			}
			continue
		}
		wr := wrappers[g]
		if wr == nil {
			if len(wcalls) != 1 {
				r.Undecided("C09-a", fname, "call "+fnName(g), w.relFile(c.Pos()), "callee performs several device writes; cannot classify per call site")
				continue
			}
			wc, _ := wcalls[0].(*ssa.Call)
			if wc == nil || wc.Parent() != g {
				r.Undecided("C09-a", fname, "call "+fnName(g), w.relFile(c.Pos()), "device write is in a nested closure or deferred")
				continue
			}
			a := argsOf(wc)
			di, oi := paramIndex(g, a[0]), paramIndex(g, a[1])
			if di < 0 || oi < 0 {
				r.Undecided("C09-a", fname, "call "+fnName(g), w.relFile(wc.Pos()), "write data/offset are not parameters of the wrapper")
				continue
			}
			wr = &c09Wrapper{fn: g, dataIdx: di, offIdx: oi, writeCall: wc}
			wrappers[g] = wr
		}
		args := c.Common().Args
		ev := &c09Event{site: c, data: args[wr.dataIdx], off: args[wr.offIdx]}
		events = append(events, ev)
		evBySite[c] = ev
	}

	// C09-a classify
	for _, ev := range events {
		ev.cls, ev.why = c09Classify(w, write, roles, ev.data, ev.off)
		cons := fmt.Sprintf("write#%s", ev.why)
		if ev.cls == clsNone {
			r.Fail("C09-a", fname, cons, w.relFile(ev.site.Pos()), "device write whose data/offset provenance fits no region class or whose data and offset belong to different sides: "+ev.why)
		} else {
			r.Ok("C09-a", fname, "write "+ev.cls.String(), w.relFile(ev.site.Pos()), ev.why)
		}
	}

	// C09-b ordering automaton: states 0..4 = number of regions written in order; 5 = out of order
	const bad = 5
	var badSites = map[ssa.Instruction]string{}
	rule := &flowRule{w: w}
	rule.step = func(ins ssa.Instruction, s int) (uint64, bool) {
		ev := evBySite[ins]
		if ev == nil {
			return 0, false
		}
		if s == bad {
			return 1 << bad, true
		}
		var want int
		switch ev.cls {
		case clsM:
			return 0, false
		case clsBA:
			want = 0
		case clsBH:
			want = 1
		case clsPA:
			want = 2
		case clsPH:
			want = 3
		default:
			return 1 << bad, true
		}
		if s == want {
			return 1 << uint(s+1), true
		}
		badSites[ins] = fmt.Sprintf("%s written when %d of the regions BA,BH,PA,PH had been written", ev.cls, s)
		return 1 << bad, true
	}
	res := rule.run(write, 1, 0)
	okOrder := true
	for ins, why := range badSites {
		okOrder = false
		r.Fail("C09-b", fname, "order:"+evBySite[ins].cls.String(), w.relFile(ins.Pos()), "region write out of order: "+why+" (required: backup array, backup header, primary array, primary header)", trailTo(w, ins.Block())...)
	}
	nsucc := 0
	for ret, m := range res.successReturns() {
		nsucc++
		if m&^(1<<4) != 0 {
			okOrder = false
			var st []string
			bits(m, func(s int) { st = append(st, fmt.Sprint(s)) })
			r.Fail("C09-b", fname, "success-return", w.relFile(instrPos(ret)), "a success return is reachable with only {"+strings.Join(st, ",")+"} of 4 regions written in order", trailTo(w, ret.Block())...)
		}
	}
	if okOrder && nsucc > 0 {
		r.Ok("C09-b", fname, "order BA<BH<PA<PH on all paths", w.relFile(write.Pos()), fmt.Sprintf("%d success return(s) all in state 4", nsucc))
	}
	if nsucc == 0 {
		r.Fail("C09-b", fname, "success-return", w.relFile(write.Pos()), "no success return found")
	}

	// C09-c / C09-e on wrappers and on direct writes
	var wl []*c09Wrapper
	for _, x := range wrappers {
		wl = append(wl, x)
	}
	sort.Slice(wl, func(i, j int) bool { return wl[i].fn.String() < wl[j].fn.String() })
	for _, wr := range wl {
		c09SyncAfterWrite(w, r, wr.fn, []*ssa.Call{wr.writeCall})
	}
	var direct []*ssa.Call
	for _, ev := range events {
		if ev.direct {
			if c, ok := ev.site.(*ssa.Call); ok {
				direct = append(direct, c)
			} else {
				r.Fail("C09-c", fname, "deferred/go write", w.relFile(ev.site.Pos()), "device write is deferred or asynchronous")
			}
		}
	}
	if len(direct) > 0 {
		c09SyncAfterWrite(w, r, write, direct)
	}
	// every call of a wrapper must have its error checked
	for _, ev := range events {
		if ev.direct {
			continue
		}
		c, ok := ev.site.(*ssa.Call)
		if !ok {
			r.Fail("C09-e", fname, "wrapper call "+ev.cls.String(), w.relFile(ev.site.Pos()), "write helper is deferred or asynchronous")
			continue
		}
		ok2, why := errorIsChecked(c)
		r.Check(ok2, "C09-e", fname, "error of write "+ev.cls.String(), w.relFile(c.Pos()), why, "error of the region write is not propagated: "+why)
	}
}

// c09SyncAfterWrite: in fn, after each of the given WriteAt calls and before a success return or
// another write, a call that reaches Sync() on the same file must occur; errors of both are propagated.
func c09SyncAfterWrite(w *World, r *Report, fn *ssa.Function, writes []*ssa.Call) {
	fname := fnName(fn)
	isW := map[ssa.Instruction]bool{}
	for _, c := range writes {
		isW[c] = true
		ok, why := errorIsChecked(c)
		r.Check(ok, "C09-e", fname, "error of WriteAt", w.relFile(c.Pos()), why, "error of the device write is not propagated: "+why)
	}
	syncFns := map[*ssa.Function]bool{}
	var syncCalls []*ssa.Call
	isSync := func(ins ssa.Instruction) bool {
		c, ok := ins.(*ssa.Call)
		if !ok {
			return false
		}
		if isSyncCall(c) {
			return true
		}
		g := c.Common().StaticCallee()
		if g == nil || !w.fnSet[g] {
			return false
		}
		if v, ok := syncFns[g]; ok {
			return v
		}
		v := c09IsSyncHelper(w, g)
		syncFns[g] = v
		return v
	}
	// 0 = clean, 1 = written & unsynced, 2 = a second write happened while unsynced
	var doubleAt ssa.Instruction
	rule := &flowRule{w: w}
	rule.step = func(ins ssa.Instruction, s int) (uint64, bool) {
		if isW[ins] {
			if s == 1 {
				doubleAt = ins
				return 1 << 2, true
			}
			return 1 << 1, true
		}
		if isSync(ins) {
			if s == 1 {
				return 1 << 0, true
			}
			return 0, false
		}
		return 0, false
	}
	res := rule.run(fn, 1, 0)
	ok := true
	for ret, m := range res.successReturns() {
		if m&(1<<1|1<<2) != 0 {
			ok = false
			r.Fail("C09-c", fname, "sync-after-write", w.relFile(instrPos(ret)), "a success return is reachable after a device write with no call reaching Sync() in between", trailTo(w, ret.Block())...)
		}
	}
	if doubleAt != nil {
		ok = false
		r.Fail("C09-c", fname, "write-while-unsynced", w.relFile(doubleAt.Pos()), "a second device write is reachable before the previous one was synced")
	}
	if ok {
		r.Ok("C09-c", fname, "sync-after-write", w.relFile(fn.Pos()), "every path from a device write to a success return passes a call reaching Sync()")
	}
	// sync errors propagated; sync on the same file as the write
	allInstrs(fn, func(ins ssa.Instruction) {
		if !isSync(ins) {
			return
		}
		c := ins.(*ssa.Call)
		syncCalls = append(syncCalls, c)
		ok, why := errorIsChecked(c)
		r.Check(ok, "C09-c", fname, "error of sync", w.relFile(c.Pos()), why, "the sync error is not propagated: "+why)
		// same file
		var fileArg ssa.Value
		if isSyncCall(c) {
			fileArg = recvOf(c)
		} else if len(c.Common().Args) > 0 {
			fileArg = c.Common().Args[0]
		}
		for _, wc := range writes {
			same := sameRootValue(w, fileArg, recvOf(wc))
			r.Check(same, "C09-c", fname, "sync targets the written file", w.relFile(c.Pos()), "same root value", "Sync is applied to a different value than the one written to")
		}
	})
	if len(syncCalls) == 0 {
		r.Fail("C09-c", fname, "sync call", w.relFile(fn.Pos()), "no call reaching Sync() found in the function that performs the device write")
	}
}

func sameRootValue(w *World, a, b ssa.Value) bool {
	if a == nil || b == nil {
		return false
	}
	pa := w.prov(a, provOpts{}).rootStrings()
	pb := w.prov(b, provOpts{}).rootStrings()
	if len(pa) == 0 || len(pb) == 0 {
		return false
	}
	return strings.Join(pa, ",") == strings.Join(pb, ",")
}

// c09IsSyncHelper: g(f) reaches f.Sync() on every path except the one where the type assertion to a
// Sync-capable interface fails (documented no-op), and returns the Sync error.
func c09IsSyncHelper(w *World, g *ssa.Function) bool {
	syncs := calls(g, false, isSyncCall)
	if len(syncs) == 0 {
		return false
	}
	bad := mustPass(w, g, func(ins ssa.Instruction) bool {
		c, ok := ins.(ssa.CallInstruction)
		return ok && isSyncCall(c)
	}, func(b *ssa.BasicBlock, idx int) bool {
		// the !ok edge of `s, ok := f.(interface{Sync() error})`
		iff, ok := lastInstr(b).(*ssa.If)
		if !ok {
			return false
		}
		v, trueIdx := boolCondEdge(iff)
		ex, ok := v.(*ssa.Extract)
		if !ok || ex.Index != 1 {
			return false
		}
		ta, ok := ex.Tuple.(*ssa.TypeAssert)
		if !ok || !ta.CommaOk {
			return false
		}
		it, ok := ta.AssertedType.Underlying().(*types.Interface)
		if !ok {
			return false
		}
		has := false
		for i := 0; i < it.NumMethods(); i++ {
			if it.Method(i).Name() == "Sync" {
				has = true
			}
		}
		return has && idx != trueIdx
	})
	if len(bad) > 0 {
		return false
	}
	for _, s := range syncs {
		c, ok := s.(*ssa.Call)
		if !ok {
			return false
		}
		if ok2, _ := errorIsChecked(c); !ok2 {
			return false
		}
	}
	return true
}

// c09Classify classifies a device write by provenance of data and offset.
func c09Classify(w *World, write *ssa.Function, roles c09Roles, data, off ssa.Value) (c09Class, string) {
	opaque := func(f *ssa.Function) bool { return f == roles.headerEnc || f == roles.arrayEnc || f == roles.sectorFn }
	dp := w.prov(data, provOpts{followCalls: true, opaque: opaque})
	op := w.prov(off, provOpts{followCalls: true, opaque: opaque})
	// data side
	dataKind := "" // "array", "hdrP", "hdrB", "mbr"
	var dk []string
	for _, rt := range dp.Roots {
		if rt.Kind != RCall || rt.Fn == nil {
			continue
		}
		switch rt.Fn {
		case roles.arrayEnc:
			dk = append(dk, "array")
		case roles.headerEnc:
			args := rt.Call.Common().Args
			k := "hdr?"
			for _, a := range args {
				if c, ok := a.(*ssa.Const); ok && isBoolType(c.Type()) {
					if c.Value.String() == "true" {
						k = "hdrP"
					} else {
						k = "hdrB"
					}
				}
			}
			dk = append(dk, k)
		}
	}
	dk = uniq(dk)
	if len(dk) == 1 {
		dataKind = dk[0]
	} else if len(dk) > 1 {
		return clsNone, "data mixes " + strings.Join(dk, "+")
	}
	// offset side
	offKind := ""
	var ok []string
	for _, rt := range op.Roots {
		if rt.Kind == RCall && rt.Fn == roles.sectorFn {
			k := "arr?"
			for _, a := range rt.Call.Common().Args {
				if c, isC := a.(*ssa.Const); isC && isBoolType(c.Type()) {
					if c.Value.String() == "true" {
						k = "arrP"
					} else {
						k = "arrB"
					}
				}
			}
			ok = append(ok, k)
		}
	}
	ok = uniq(ok)
	if len(ok) == 1 {
		offKind = ok[0]
	} else if len(ok) > 1 {
		return clsNone, "offset mixes " + strings.Join(ok, "+")
	} else {
		// header or MBR offsets
		if c, isC := constInt(stripConv(off)); isC {
			if c >= 0 && c < 512 {
				offKind = "mbr"
			} else {
				offKind = fmt.Sprintf("const%d", c)
			}
		} else if op.hasField("Table", "secondaryHeader") {
			offKind = "hdrB"
		} else {
			// only sector size / constants / primaryHeader
			fine := true
			for _, rt := range op.Roots {
				switch rt.Kind {
				case RConst:
				case RField:
					if !(rt.Field.Name() == "LogicalSectorSize" || rt.Field.Name() == "primaryHeader") {
						fine = false
					}
				default:
					fine = false
				}
			}
			if fine {
				offKind = "hdrP"
			} else {
				offKind = "other(" + strings.Join(op.rootStrings(), ",") + ")"
			}
		}
	}
	why := "data=" + orq(dataKind) + " offset=" + orq(offKind)
	switch {
	case dataKind == "array" && offKind == "arrB":
		return clsBA, why
	case dataKind == "array" && offKind == "arrP":
		return clsPA, why
	case dataKind == "hdrB" && offKind == "hdrB":
		return clsBH, why
	case dataKind == "hdrP" && offKind == "hdrP":
		return clsPH, why
	case dataKind == "" && offKind == "mbr":
		return clsM, why
	}
	return clsNone, why
}

func orq(s string) string {
	if s == "" {
		return "?"
	}
	return s
}

func uniq(xs []string) []string {
	sort.Strings(xs)
	var out []string
	for i, x := range xs {
		if i == 0 || x != xs[i-1] {
			out = append(out, x)
		}
	}
	return out
}

// ---- reader side -----------------------------------------------------------------------

func c09Reader(w *World, r *Report, read *ssa.Function) {
	reach := w.reachableFrom([]*ssa.Function{read}, func(f *ssa.Function) bool { return strings.HasSuffix(w.pkgOf(f), "partition/gpt") })
	n := 0
	for _, f := range sortedFns(reach) {
		crcs := calls(f, false, func(c ssa.CallInstruction) bool { return isStdCall(c, "hash/crc32.ChecksumIEEE") })
		for _, cc := range crcs {
			c, ok := cc.(*ssa.Call)
			if !ok {
				continue
			}
			n++
			c09CrcDominates(w, r, f, c)
		}
	}
	if n < 2 {
		r.Fail("C09-f", fnName(read), "crc checks", w.relFile(read.Pos()), fmt.Sprintf("only %d CRC-32 computations are reachable from the reader (header and entries array need one each)", n))
	}
}

func c09CrcDominates(w *World, r *Report, f *ssa.Function, crc *ssa.Call) {
	fname := fnName(f)
	// find the If comparing the crc value
	var cmpIf *ssa.If
	eqIdx := 0
	for _, ref := range *crc.Referrers() {
		b, ok := ref.(*ssa.BinOp)
		if !ok {
			continue
		}
		for _, r2 := range *b.Referrers() {
			if iff, ok := r2.(*ssa.If); ok {
				if _, _, idx, ok := eqEdge(iff); ok {
					cmpIf, eqIdx = iff, idx
				}
			}
		}
	}
	if cmpIf == nil {
		r.Fail("C09-f", fname, "crc compared", w.relFile(crc.Pos()), "the computed CRC-32 is never compared with a stored value")
		return
	}
	a, b, _, _ := eqEdge(cmpIf)
	other := a
	if stripConv(a) == ssa.Value(crc) {
		other = b
	}
	// comparand must be device-derived: binary.*.Uint32 of bytes or a Table field set from it
	op := w.prov(other, provOpts{deepFields: true})
	derived := op.hasCallNamed("Uint32")
	r.Check(derived, "C09-f", fname, "crc comparand is read from the device", w.relFile(cmpIf.Pos()),
		"comparand roots: "+strings.Join(op.rootStrings(), ","), "the value the CRC is compared with is not decoded from the device bytes: "+strings.Join(op.rootStrings(), ","))
	bad := mustPass(w, f, nil, func(bl *ssa.BasicBlock, idx int) bool { return lastInstr(bl) == ssa.Instruction(cmpIf) && idx == eqIdx })
	if len(bad) == 0 {
		r.Ok("C09-f", fname, "crc equality dominates success", w.relFile(cmpIf.Pos()), "every success return lies behind the equal edge")
	}
	for _, ret := range bad {
		r.Fail("C09-f", fname, "crc equality dominates success", w.relFile(instrPos(ret)), "a success return is reachable without passing the CRC equality edge", trailTo(w, ret.Block())...)
	}
	// coverage of the checksummed range
	arg := crc.Call.Args[0]
	if sl, ok := arg.(*ssa.Slice); ok && (sl.Low != nil || sl.High != nil) {
		lo, hi := int64(0), int64(-1)
		if sl.Low != nil {
			lo, _ = constInt(sl.Low)
		}
		if sl.High != nil {
			if h, ok := constInt(sl.High); ok {
				hi = h
			}
		}
		base := sl.X
		maxHi := int64(0)
		nsl := 0
		allInstrs(f, func(ins ssa.Instruction) {
			s2, ok := ins.(*ssa.Slice)
			if !ok || s2.X != base || s2 == sl {
				return
			}
			if s2.High == nil {
				return
			}
			if h, ok := constInt(s2.High); ok {
				nsl++
				if h > maxHi {
					maxHi = h
				}
			}
		})
		good := lo == 0 && hi >= maxHi && nsl > 0
		r.Check(good, "C09-f", fname, "crc range covers decoded header bytes", w.relFile(crc.Pos()),
			fmt.Sprintf("crc over [%d:%d], decoded fields end at %d (%d slices)", lo, hi, maxHi, nsl),
			fmt.Sprintf("CRC computed over [%d:%d] but header fields are decoded up to byte %d", lo, hi, maxHi))
	} else {
		// whole buffer: the decoded value must come from exactly this buffer
		used := false
		for _, ref := range *arg.Referrers() {
			if c, ok := ref.(*ssa.Call); ok && c != crc {
				if g := c.Common().StaticCallee(); g != nil && w.fnSet[g] {
					for _, a := range c.Common().Args {
						if a == arg {
							used = true
						}
					}
				}
			}
		}
		r.Check(used, "C09-f", fname, "checksummed buffer is the decoded buffer", w.relFile(crc.Pos()),
			"the same SSA value is checksummed and passed to the entry decoder", "the buffer that is checksummed is not the one handed to the entry decoder")
		// entries stored to Partitions only behind the equality edge
		allInstrs(f, func(ins ssa.Instruction) {
			st, ok := ins.(*ssa.Store)
			if !ok {
				return
			}
			if _, fld, _, ok := fieldOfAddr(st.Addr); ok && fld.Name() == "Partitions" {
				dom := edgeDominates(cmpIf.Block(), eqIdx, st.Block())
				r.Check(dom, "C09-f", fname, "Partitions assigned only after CRC match", w.relFile(st.Pos()), "store dominated by equal edge", "Table.Partitions is assigned on a path that has not passed the entries CRC comparison")
			}
		})
	}
}

// ---- fallback ---------------------------------------------------------------------------

func c09Fallback(w *World, r *Report, read *ssa.Function) {
	fname := fnName(read)
	// calls in Read returning (*Table, error)
	var tcalls []*ssa.Call
	for _, c := range calls(read, false, func(c ssa.CallInstruction) bool {
		g := c.Common().StaticCallee()
		if g == nil || !w.fnSet[g] {
			return false
		}
		rs := g.Signature.Results()
		return rs.Len() == 2 && typeIs(rs.At(0).Type(), "partition/gpt", "Table") && types.Identical(rs.At(1).Type(), errorType)
	}) {
		if cc, ok := c.(*ssa.Call); ok {
			tcalls = append(tcalls, cc)
		}
	}
	if len(tcalls) < 2 {
		r.Fail("C09-g", fname, "primary+backup reads", w.relFile(read.Pos()), fmt.Sprintf("gpt.Read makes %d table-reading calls; a primary read and a backup read are required", len(tcalls)))
		return
	}
	// primary = the one in the entry-dominating position
	sort.Slice(tcalls, func(i, j int) bool { return tcalls[i].Block().Dominates(tcalls[j].Block()) && tcalls[i] != tcalls[j] })
	primary, backup := tcalls[0], tcalls[len(tcalls)-1]
	if primary.Common().StaticCallee() == backup.Common().StaticCallee() {
		r.Fail("C09-g", fname, "primary+backup reads", w.relFile(read.Pos()), "primary and backup reads use the same function with no distinct backup location")
		return
	}
	// errors.As edge
	var asIf *ssa.If
	asTrue := 0
	var asTarget types.Type
	for _, b := range read.Blocks {
		iff, ok := lastInstr(b).(*ssa.If)
		if !ok {
			continue
		}
		v, ti := boolCondEdge(iff)
		c, ok := v.(*ssa.Call)
		if !ok || !isStdCall(c, "errors.As") {
			continue
		}
		asIf, asTrue = iff, ti
		// target type: **T
		if mi, ok := c.Call.Args[1].(*ssa.MakeInterface); ok {
			asTarget = deref(mi.X.Type())
		}
	}
	if asIf == nil || asTarget == nil {
		r.Fail("C09-g", fname, "content-error test", w.relFile(read.Pos()), "no errors.As test on the primary read's error found")
		return
	}
	// (iii) every success return other than the primary-success one passes the backup call's nil-error edge
	bad := mustPass(w, read, func(ins ssa.Instruction) bool { return ins == ssa.Instruction(backup) }, func(b *ssa.BasicBlock, idx int) bool {
		// primary success edge counts as "passed" as well
		iff, ok := lastInstr(b).(*ssa.If)
		if !ok {
			return false
		}
		x, trueNonNil, ok := nilTest(iff.Cond)
		if !ok || errSourceCall(x) != primary {
			return false
		}
		return (idx == 0) != trueNonNil
	})
	if len(bad) == 0 {
		r.Ok("C09-g", fname, "success only from primary or backup read", w.relFile(read.Pos()), "")
	}
	for _, ret := range bad {
		r.Fail("C09-g", fname, "success only from primary or backup read", w.relFile(instrPos(ret)), "a success return is reachable without a successful primary read or a backup read")
	}
	// the backup call is reached on the errors.As-true edge, not on the false edge
	tb := asIf.Block().Succs[asTrue]
	reachB := blockReaches(tb, backup.Block())
	r.Check(reachB, "C09-g", fname, "content error reaches backup read", w.relFile(asIf.Pos()), "errors.As true edge reaches "+fnName(backup.Common().StaticCallee()), "the backup read is not reachable from the content-error edge")
	// backup location: (size / lbs) - 1 with size from a Seek to the end
	var locArg ssa.Value
	for _, a := range backup.Call.Args {
		if typeBits(a.Type()) == 64 {
			if _, isParam := stripConv(a).(*ssa.Parameter); !isParam {
				locArg = a
			}
		}
	}
	if locArg != nil {
		lp := w.prov(locArg, provOpts{followCalls: true})
		hasSeek := lp.hasCallNamed("Seek")
		hasMinus1 := false
		for _, t := range addends(locArg) {
			if c, ok := constInt(t.v); ok && c == 1 && t.neg {
				hasMinus1 = true
			}
		}
		r.Check(hasSeek && hasMinus1, "C09-g", fname, "backup located at last sector", w.relFile(backup.Pos()), "(device size from Seek)/lbs - 1", "backup header location is not (device size / sector size) - 1: roots "+strings.Join(lp.rootStrings(), ","))
	} else {
		r.Fail("C09-g", fname, "backup located at last sector", w.relFile(backup.Pos()), "cannot find the backup location argument")
	}
	// (i)+(ii): content errors are wrapped in the errors.As target type
	pf := primary.Common().StaticCallee()
	reach := w.reachableFrom([]*ssa.Function{pf}, func(f *ssa.Function) bool { return strings.HasSuffix(w.pkgOf(f), "partition/gpt") })
	// (ii) functions comparing a CRC reachable from primary and having a Partitions store: mismatch edge returns target type
	for _, f := range sortedFns(reach) {
		for _, cc := range calls(f, false, func(c ssa.CallInstruction) bool { return isStdCall(c, "hash/crc32.ChecksumIEEE") }) {
			crc := cc.(*ssa.Call)
			for _, ref := range *crc.Referrers() {
				b, ok := ref.(*ssa.BinOp)
				if !ok {
					continue
				}
				for _, r2 := range *b.Referrers() {
					iff, ok := r2.(*ssa.If)
					if !ok {
						continue
					}
					_, _, eqIdx, ok := eqEdge(iff)
					if !ok {
						continue
					}
					neq := iff.Block().Succs[1-eqIdx]
					wrapped := c09ReturnsWrapped(w, f, neq, asTarget, pf, reach)
					r.Check(wrapped, "C09-g", fnName(f), "CRC mismatch surfaces as content error", w.relFile(iff.Pos()),
						"mismatch edge yields "+asTarget.String()+" before reaching gpt.Read", "a CRC mismatch is returned as a plain error, so gpt.Read will not fall back to the backup")
				}
			}
		}
	}
}

func blockReaches(from, to *ssa.BasicBlock) bool {
	seen := map[*ssa.BasicBlock]bool{}
	var dfs func(b *ssa.BasicBlock) bool
	dfs = func(b *ssa.BasicBlock) bool {
		if b == to {
			return true
		}
		if seen[b] {
			return false
		}
		seen[b] = true
		for _, s := range b.Succs {
			if dfs(s) {
				return true
			}
		}
		return false
	}
	return dfs(from)
}

// c09ReturnsWrapped: the error produced at block `at` of f is, by the time it leaves pf (the primary
// reader), an instance of target: either f itself returns MakeInterface(target) there, or the caller
// between f and pf wraps errors of that call in target.
func c09ReturnsWrapped(w *World, f *ssa.Function, at *ssa.BasicBlock, target types.Type, pf *ssa.Function, reach map[*ssa.Function]*ssa.Function) bool {
	isTarget := func(v ssa.Value) bool {
		mi, ok := v.(*ssa.MakeInterface)
		return ok && types.Identical(mi.X.Type(), target)
	}
	ret, ok := lastInstr(at).(*ssa.Return)
	if ok {
		idx := errResultIndex(f.Signature)
		if idx >= 0 && isTarget(ret.Results[idx]) {
			return true
		}
	}
	// walk up the call chain: some caller on the path to pf must wrap the error of the call to its callee
	cur := f
	for depth := 0; cur != nil && depth < 6; depth++ {
		caller := reach[cur]
		if caller == nil {
			return false
		}
		for _, cc := range calls(caller, false, func(c ssa.CallInstruction) bool { return c.Common().StaticCallee() == cur }) {
			c, ok := cc.(*ssa.Call)
			if !ok {
				continue
			}
			// error of c tested; non-nil edge returns target
			for _, b := range caller.Blocks {
				iff, ok := lastInstr(b).(*ssa.If)
				if !ok {
					continue
				}
				x, trueNonNil, ok := nilTest(iff.Cond)
				if !ok || errSourceCall(x) != c {
					continue
				}
				idx := 1
				if trueNonNil {
					idx = 0
				}
				if rr, ok := lastInstr(b.Succs[idx]).(*ssa.Return); ok {
					ei := errResultIndex(caller.Signature)
					if ei >= 0 && isTarget(rr.Results[ei]) {
						return true
					}
				}
			}
		}
		cur = caller
	}
	return false
}

package main

// Front end shared by every rule: load /repo's working tree (type-checked),
// build SSA, expose lookups by role (interfaces, exported API), and the CHA
// call graph. Nothing of go-diskfs is executed.

import (
	"fmt"
	"go/ast"
	"go/token"
	"go/types"
	"os"
	"path/filepath"
	"sort"
	"strings"

	"golang.org/x/tools/go/callgraph"
	"golang.org/x/tools/go/callgraph/cha"
	"golang.org/x/tools/go/packages"
	"golang.org/x/tools/go/ssa"
	"golang.org/x/tools/go/ssa/ssautil"
)

const modPath = "github.com/diskfs/go-diskfs"

type World struct {
	Repo          string
	Fset          *token.FileSet
	Pkgs          []*packages.Package
	PkgBy         map[string]*packages.Package
	Prog          *ssa.Program
	SSAPkg        map[string]*ssa.Package
	ModFns        []*ssa.Function // every function with a body that belongs to the module (incl. closures)
	fnSet         map[*ssa.Function]bool
	chaG          *callgraph.Graph
	astFunc       map[*ssa.Function]*ast.FuncDecl
	fieldStoreIdx map[*types.Var][]ssa.Value
	fieldStoreIns map[*types.Var][]*ssa.Store
}

// frontEndError aborts the run with exit status 2 (not a verdict).
type frontEndError struct{ msg string }

func fatalf(format string, a ...any) {
	panic(frontEndError{fmt.Sprintf(format, a...)})
}

func loadWorld(repo string) *World {
	os.Unsetenv("GOWORK")
	cfg := &packages.Config{
		Mode:  packages.LoadAllSyntax,
		Dir:   repo,
		Tests: false,
		Env:   append(os.Environ(), "GOWORK=off", "GOFLAGS=-mod=mod"),
	}
	pkgs, err := packages.Load(cfg, "./...")
	if err != nil {
		fatalf("load: %v", err)
	}
	nerr := 0
	packages.Visit(pkgs, nil, func(p *packages.Package) {
		for _, e := range p.Errors {
			fmt.Fprintf(os.Stderr, "load error: %s: %v\n", p.PkgPath, e)
			nerr++
		}
	})
	if nerr > 0 {
		fatalf("%d load/type errors", nerr)
	}
	minPkgs := 20
	if os.Getenv("GOOS") != "" || os.Getenv("GOARCH") != "" {
		minPkgs = 15
	}
	if len(pkgs) < minPkgs {
		fatalf("only %d packages loaded (need >= %d)", len(pkgs), minPkgs)
	}
	prog, spkgs := ssautil.AllPackages(pkgs, ssa.InstantiateGenerics)
	prog.Build()
	w := &World{Repo: repo, Pkgs: pkgs, Prog: prog, Fset: prog.Fset,
		SSAPkg: map[string]*ssa.Package{}, PkgBy: map[string]*packages.Package{},
		fnSet: map[*ssa.Function]bool{}, astFunc: map[*ssa.Function]*ast.FuncDecl{}}
	for i, p := range pkgs {
		w.PkgBy[p.PkgPath] = p
		if spkgs[i] != nil {
			w.SSAPkg[p.PkgPath] = spkgs[i]
		}
	}
	for fn := range ssautil.AllFunctions(prog) {
		if fn.Blocks == nil {
			continue
		}
		if w.inModule(fn) {
			w.fnSet[fn] = true
			if fn.Synthetic == "" || strings.HasPrefix(fn.Synthetic, "package init") {
				w.ModFns = append(w.ModFns, fn)
			}
		}
	}
	sort.Slice(w.ModFns, func(i, j int) bool {
		a, b := w.ModFns[i], w.ModFns[j]
		if a.Pos() != b.Pos() {
			return w.posKey(a.Pos()) < w.posKey(b.Pos())
		}
		return a.String() < b.String()
	})
	return w
}

func (w *World) posKey(p token.Pos) string {
	pp := w.Fset.Position(p)
	return fmt.Sprintf("%s:%08d:%04d", pp.Filename, pp.Line, pp.Column)
}

func (w *World) inModule(fn *ssa.Function) bool {
	for fn.Parent() != nil {
		fn = fn.Parent()
	}
	if o := fn.Origin(); o != nil {
		fn = o
	}
	if fn.Pkg != nil {
		return strings.HasPrefix(fn.Pkg.Pkg.Path(), modPath)
	}
	// wrappers / bound methods: look at the object
	if obj := fn.Object(); obj != nil && obj.Pkg() != nil {
		return strings.HasPrefix(obj.Pkg().Path(), modPath)
	}
	return false
}

// pkgOf returns the module-relative package path of fn ("partition/gpt").
func (w *World) pkgOf(fn *ssa.Function) string {
	for fn.Parent() != nil {
		fn = fn.Parent()
	}
	var p string
	if fn.Pkg != nil {
		p = fn.Pkg.Pkg.Path()
	} else if obj := fn.Object(); obj != nil && obj.Pkg() != nil {
		p = obj.Pkg().Path()
	}
	p = strings.TrimPrefix(p, modPath)
	return strings.TrimPrefix(p, "/")
}

func (w *World) CHA() *callgraph.Graph {
	if w.chaG == nil {
		w.chaG = cha.CallGraph(w.Prog)
	}
	return w.chaG
}

// Pkg returns the SSA package for a module-relative path; aborts if absent.
func (w *World) Pkg(rel string) *ssa.Package {
	p := modPath
	if rel != "" {
		p += "/" + rel
	}
	sp := w.SSAPkg[p]
	if sp == nil {
		fatalf("anchor: package %s not loaded", p)
	}
	return sp
}

func (w *World) HasPkg(rel string) bool {
	p := modPath
	if rel != "" {
		p += "/" + rel
	}
	return w.SSAPkg[p] != nil
}

// Func resolves a package-level function; aborts if absent.
func (w *World) Func(pkg, name string) *ssa.Function {
	f := w.Pkg(pkg).Func(name)
	if f == nil {
		fatalf("anchor: function %s.%s not found", pkg, name)
	}
	return f
}

func (w *World) FuncOpt(pkg, name string) *ssa.Function {
	if !w.HasPkg(pkg) {
		return nil
	}
	return w.Pkg(pkg).Func(name)
}

// Named resolves a named type in a package.
func (w *World) Named(pkg, name string) *types.Named {
	t := w.Pkg(pkg).Type(name)
	if t == nil {
		fatalf("anchor: type %s.%s not found", pkg, name)
	}
	n, ok := t.Type().(*types.Named)
	if !ok {
		fatalf("anchor: %s.%s is not a named type", pkg, name)
	}
	return n
}

// Method resolves a method on T or *T.
func (w *World) MethodOpt(pkg, typ, name string) *ssa.Function {
	if !w.HasPkg(pkg) {
		return nil
	}
	t := w.Pkg(pkg).Type(typ)
	if t == nil {
		return nil
	}
	n := t.Type()
	for _, recv := range []types.Type{n, types.NewPointer(n)} {
		ms := w.Prog.MethodSets.MethodSet(recv)
		if sel := ms.Lookup(t.Package().Pkg, name); sel != nil {
			fn := w.Prog.MethodValue(sel)
			if fn != nil {
				// unwrap promoted-method wrappers to the declared method
				return fn
			}
		}
	}
	return nil
}

func (w *World) Method(pkg, typ, name string) *ssa.Function {
	f := w.MethodOpt(pkg, typ, name)
	if f == nil {
		fatalf("anchor: method %s.%s.%s not found", pkg, typ, name)
	}
	return f
}

// Iface resolves an interface type.
func (w *World) Iface(pkg, name string) *types.Interface {
	n := w.Named(pkg, name)
	i, ok := n.Underlying().(*types.Interface)
	if !ok {
		fatalf("anchor: %s.%s is not an interface", pkg, name)
	}
	return i
}

// Implementers lists the module's named types T such that T or *T implements iface,
// sorted by package path and name.
func (w *World) Implementers(iface *types.Interface) []*types.Named {
	var out []*types.Named
	for path, sp := range w.SSAPkg {
		if !strings.HasPrefix(path, modPath) {
			continue
		}
		for _, m := range sp.Members {
			t, ok := m.(*ssa.Type)
			if !ok {
				continue
			}
			n, ok := t.Type().(*types.Named)
			if !ok || types.IsInterface(n) {
				continue
			}
			if n.TypeParams().Len() > 0 {
				continue
			}
			if types.Implements(n, iface) || types.Implements(types.NewPointer(n), iface) {
				out = append(out, n)
			}
		}
	}
	sort.Slice(out, func(i, j int) bool { return out[i].String() < out[j].String() })
	return out
}

// MethodOf returns the declared (non-wrapper) method `name` of named type n (on T or *T).
func (w *World) MethodOf(n *types.Named, name string) *ssa.Function {
	for _, recv := range []types.Type{types.NewPointer(n), n} {
		ms := w.Prog.MethodSets.MethodSet(recv)
		if sel := ms.Lookup(n.Obj().Pkg(), name); sel != nil {
			if fn := w.Prog.MethodValue(sel); fn != nil {
				if fn.Synthetic != "" {
					// wrapper: resolve the underlying declared function via its object
					if obj, ok := sel.Obj().(*types.Func); ok {
						if d := w.Prog.FuncValue(obj); d != nil {
							return d
						}
					}
				}
				return fn
			}
		}
	}
	return nil
}

func (w *World) relFile(p token.Pos) string {
	if !p.IsValid() {
		return "?"
	}
	pp := w.Fset.Position(p)
	rel, err := filepath.Rel(w.Repo, pp.Filename)
	if err != nil {
		rel = pp.Filename
	}
	return fmt.Sprintf("%s:%d", rel, pp.Line)
}

// fnName gives a compact, position-free name: gpt.(*Table).Write, gpt.Read, gpt.Read$1.
func fnName(fn *ssa.Function) string {
	if fn == nil {
		return "<nil>"
	}
	s := fn.String()
	s = strings.ReplaceAll(s, modPath+"/", "")
	s = strings.ReplaceAll(s, modPath+".", "diskfs.")
	s = strings.ReplaceAll(s, modPath+")", "diskfs)")
	// keep only the last path element of the package
	// forms: (*a/b/pkg.T).M   a/b/pkg.F   (a/b/pkg.T).M
	out := strings.Builder{}
	i := 0
	for i < len(s) {
		j := i
		for j < len(s) && (isIdent(s[j]) || s[j] == '/' || s[j] == '-') {
			j++
		}
		tok := s[i:j]
		if k := strings.LastIndex(tok, "/"); k >= 0 {
			tok = tok[k+1:]
		}
		out.WriteString(tok)
		if j < len(s) {
			out.WriteByte(s[j])
			j++
		}
		i = j
	}
	return out.String()
}

func isIdent(c byte) bool {
	return c == '_' || c == '.' && false || (c >= 'a' && c <= 'z') || (c >= 'A' && c <= 'Z') || (c >= '0' && c <= '9')
}

// instrPos gives the best position for an instruction.
func instrPos(ins ssa.Instruction) token.Pos {
	if ins.Pos().IsValid() {
		return ins.Pos()
	}
	if v, ok := ins.(ssa.Value); ok {
		for _, r := range *v.Referrers() {
			if r.Pos().IsValid() {
				return r.Pos()
			}
		}
	}
	// fall back to any instruction of the block
	for _, i := range ins.Block().Instrs {
		if i.Pos().IsValid() {
			return i.Pos()
		}
	}
	return ins.Parent().Pos()
}

// ---- callee resolution -------------------------------------------------------

// calleeInfo describes the target of a call instruction.
type calleeInfo struct {
	Static *ssa.Function // non-nil for static calls and immediately-applied closures
	Iface  *types.Func   // non-nil for interface invokes
	Value  ssa.Value     // the called value for dynamic calls
}

func callee(c ssa.CallInstruction) calleeInfo {
	cc := c.Common()
	if cc.IsInvoke() {
		return calleeInfo{Iface: cc.Method}
	}
	if f := cc.StaticCallee(); f != nil {
		return calleeInfo{Static: f}
	}
	return calleeInfo{Value: cc.Value}
}

// fullName returns types.Func-style full name of the callee, e.g.
// "time.Now", "(*sync.Mutex).Lock", "(io.WriterAt).WriteAt".
func (ci calleeInfo) fullName() string {
	if ci.Static != nil {
		if o := ci.Static.Object(); o != nil {
			if f, ok := o.(*types.Func); ok {
				return f.FullName()
			}
		}
		return ci.Static.String()
	}
	if ci.Iface != nil {
		return ci.Iface.FullName()
	}
	return ""
}

// isMethodCall reports whether the call is an invoke (or static call) of a method
// named `name` — used with an additional type predicate by the rules.
func callMethodName(c ssa.CallInstruction) string {
	cc := c.Common()
	if cc.IsInvoke() {
		return cc.Method.Name()
	}
	if f := cc.StaticCallee(); f != nil && f.Signature.Recv() != nil {
		return f.Name()
	}
	return ""
}

// recvOf returns the receiver value of a method call (invoke or static).
func recvOf(c ssa.CallInstruction) ssa.Value {
	cc := c.Common()
	if cc.IsInvoke() {
		return cc.Value
	}
	if f := cc.StaticCallee(); f != nil && f.Signature.Recv() != nil && len(cc.Args) > 0 {
		return cc.Args[0]
	}
	return nil
}

// argsOf returns the non-receiver arguments of a call.
func argsOf(c ssa.CallInstruction) []ssa.Value {
	cc := c.Common()
	if cc.IsInvoke() {
		return cc.Args
	}
	if f := cc.StaticCallee(); f != nil && f.Signature.Recv() != nil && len(cc.Args) > 0 {
		return cc.Args[1:]
	}
	return cc.Args
}

// calleesCHA returns the in-module functions a call may invoke according to CHA.
func (w *World) calleesCHA(c ssa.CallInstruction) []*ssa.Function {
	n := w.CHA().Nodes[c.Parent()]
	if n == nil {
		return nil
	}
	var out []*ssa.Function
	for _, e := range n.Out {
		if e.Site == c && e.Callee.Func != nil {
			out = append(out, e.Callee.Func)
		}
	}
	return out
}

// allInstrs iterates over every instruction of fn (not nested closures).
func allInstrs(fn *ssa.Function, f func(ssa.Instruction)) {
	for _, b := range fn.Blocks {
		for _, i := range b.Instrs {
			f(i)
		}
	}
}

// withClosures returns fn and all anonymous functions nested in it.
func withClosures(fn *ssa.Function) []*ssa.Function {
	out := []*ssa.Function{fn}
	for _, a := range fn.AnonFuncs {
		out = append(out, withClosures(a)...)
	}
	return out
}

// implementsIface reports whether t (or *t) implements the interface.
func implementsIface(t types.Type, i *types.Interface) bool {
	if types.Implements(t, i) {
		return true
	}
	if _, ok := t.(*types.Pointer); !ok {
		if _, isI := t.Underlying().(*types.Interface); !isI {
			return types.Implements(types.NewPointer(t), i)
		}
	}
	return false
}

func deref(t types.Type) types.Type {
	if p, ok := t.Underlying().(*types.Pointer); ok {
		return p.Elem()
	}
	return t
}

// namedOf returns the named type behind t or *t.
func namedOf(t types.Type) *types.Named {
	t = deref(t)
	if a, ok := t.(*types.Alias); ok {
		t = types.Unalias(a)
	}
	n, _ := t.(*types.Named)
	return n
}

// typeIs reports whether t or *t is the named type pkgSuffix.name
// (pkgSuffix is module-relative, or a full std path).
func typeIs(t types.Type, pkg, name string) bool {
	n := namedOf(t)
	if n == nil || n.Obj().Pkg() == nil {
		return false
	}
	p := n.Obj().Pkg().Path()
	return n.Obj().Name() == name && (p == pkg || p == modPath+"/"+pkg)
}

package main

// C01 — FAT12/16/32 behave like a plain tree of named byte strings (structural clauses).
// C08 — FAT volumes stay structurally sound on disk (structural clauses; layout agreement is in codec.go).

import (
	"fmt"
	"go/token"
	"go/types"
	"sort"
	"strings"

	"golang.org/x/tools/go/ssa"
)

func init() {
	register("C01", runC01, `Structural clauses of the FAT reference-model property, decided statically.
C01-a release: Remove, Rename (which may replace an existing entry) and OpenFile (O_TRUNC) reach a call that marks clusters unused (SetCluster(_, UnusedMarker())) whose chain head derives from a directory entry taken from the listing - not only from the parent directory's own chain.
C01-b persist: in every exported mutator of the FAT FileSystem/File types, each mutation of a directory's entry list (create/remove/rename/label entry) and each store to a field of an existing directory entry (size, times, attribute flags, first cluster) is followed, on every path to a success return, by the call that writes that directory to the device.
C01-c ENOSPC atomicity: in the allocator the out-of-space return (selected by comparing the number of free clusters found with the number needed) is never preceded by a FAT mutation.
C01-d the allocator's free-cluster scan starts at a constant, or at a hint field that every function marking clusters free also stores (any other start - a parameter, the end of the chain being extended - is a violation unless another scan starts at a constant): released clusters stay visible to later allocations.
C01-e writeDirectoryEntries writes every cluster of the directory's chain (no iteration of its cluster loop ends without a device write), so that clusters beyond a shorter listing do not keep old entries.
Also shares C10-d (a Read never returns more than remains). Decides these clauses, not equality with a reference model.`)
	register("C08", runC08, `Structural clauses of on-disk FAT soundness, decided statically.
C08-a mirrors from one buffer: wherever a write is addressed to the secondary FAT / the backup boot sector / the backup FSInfo sector, the same function writes the very same SSA buffer to the primary location.
C08-b dirty => flush: every FAT mutation (SetCluster) is followed by WriteFat() on every path to a success return.
C08-c hooks wired: both fat32 constructors install WriteBootSectorFn and AfterWriteFAT before returning the filesystem, and WriteFat invokes AfterWriteFAT.
C08-d release (= C01-a): clusters of removed/replaced/truncated files do not stay marked used.
C08-e layout agreement of the boot-sector/BPB/FSInfo encoders and decoders (byte-layout extraction, see codec rules).
C08-f terminator discipline: on every success path of the allocator a chain link written with SetCluster is followed by an end-of-chain mark; freed clusters receive UnusedMarker().
C08-i a refused create releases what it allocated: after a call that allocates a fresh chain for a new entry (a function that calls allocateSpace with no previous chain, such as mkFile / mkSubdir) succeeded, every error return that lies behind that success passes a call of a cluster-releasing function: the property demands, after refused operations too, that no cluster is marked used that no file or directory owns.
C08-g sector-unit discipline in the FAT packages: a sector number or sector count taken from the BPB (reserved sectors, sectors per FAT, FSInfo sector, backup boot sector, root directory sectors) becomes a byte offset only through the volume's own sector size: the scaling factor never has the literal 512/4096 among the roots of its value (directly or through a helper that falls back to a default), because the property quantifies over 512- and 4096-byte sectors.
C08-h the FAT encoders (Bytes() of the three tables) return a buffer allocated by that call (or one they clear first): entries that are zero are skipped by the 12-bit encoder, so a buffer kept between calls would keep the links of released clusters on disk.
Not covered: geometry formulas (sectors-per-FAT rounding, FAT32 maxCluster overrun), chain well-formedness under arbitrary histories.`)
}

var fatPkgs = []string{"filesystem/fat12", "filesystem/fat16", "filesystem/fat32"}

func inFatPkg(w *World, fn *ssa.Function) bool {
	p := w.pkgOf(fn)
	for _, x := range fatPkgs {
		if p == x {
			return true
		}
	}
	return false
}

// isSetCluster: call of a method named SetCluster(n, val).
func isSetCluster(c ssa.CallInstruction) bool { return methodCallSig(c, "SetCluster", 2, 0) }

func isMarkerCall(v ssa.Value, name string) bool {
	c, ok := stripConv(v).(*ssa.Call)
	return ok && callMethodName(c) == name
}

// releaseFns: in-module FAT functions that contain SetCluster(x, UnusedMarker()), with the parameters the
// released cluster derives from.
type releaseFn struct {
	fn     *ssa.Function
	params map[int]bool
}

func fatReleaseFns(w *World) []*releaseFn {
	var out []*releaseFn
	for _, fn := range w.ModFns {
		if !inFatPkg(w, fn) {
			continue
		}
		var rf *releaseFn
		for _, c := range calls(fn, false, isSetCluster) {
			a := argsOf(c)
			if !isMarkerCall(a[1], "UnusedMarker") {
				continue
			}
			if rf == nil {
				rf = &releaseFn{fn: fn, params: map[int]bool{}}
			}
			p := w.prov(a[0], provOpts{throughExternal: true, followCalls: true})
			for _, rt := range p.Roots {
				if rt.Kind == RParam && rt.Param.Parent() == fn {
					for i, q := range fn.Params {
						if q == rt.Param {
							rf.params[i] = true
						}
					}
				}
			}
		}
		if rf != nil {
			out = append(out, rf)
		}
	}
	// wrappers: a function that hands one of its own parameters (or a value derived from it) to a release function's
	// chain-head parameter releases that chain too (allocateSpace -> truncateChain after a split into phases)
	for changed, round := true, 0; changed && round < 4; round++ {
		changed = false
		byFn := map[*ssa.Function]*releaseFn{}
		for _, rf := range out {
			byFn[rf.fn] = rf
		}
		for _, fn := range w.ModFns {
			if !inFatPkg(w, fn) || fn.Blocks == nil {
				continue
			}
			for _, c := range calls(fn, false, func(c ssa.CallInstruction) bool { return byFn[c.Common().StaticCallee()] != nil }) {
				callee := byFn[c.Common().StaticCallee()]
				if callee.fn == fn {
					continue
				}
				for idx := range callee.params {
					if idx >= len(c.Common().Args) {
						continue
					}
					p := w.prov(c.Common().Args[idx], provOpts{throughExternal: true, followCalls: true})
					for _, rt := range p.Roots {
						if rt.Kind != RParam || rt.Param.Parent() != fn {
							continue
						}
						for i, q := range fn.Params {
							if q != rt.Param {
								continue
							}
							rf := byFn[fn]
							if rf == nil {
								rf = &releaseFn{fn: fn, params: map[int]bool{}}
								byFn[fn] = rf
								out = append(out, rf)
								changed = true
							}
							if !rf.params[i] {
								rf.params[i] = true
								changed = true
							}
						}
					}
				}
			}
		}
	}
	return out
}

// fromListingEntry: v is the clusterLocation (or a value derived from it) of a directory entry that was taken
// from a listing (element of an entries slice), as opposed to the parent directory object itself.
func fromListingEntry(w *World, v ssa.Value) (bool, string) {
	found := false
	why := "chain head does not come from a directory entry's clusterLocation"
	var visit func(v ssa.Value, d int)
	seen := map[ssa.Value]bool{}
	visit = func(v ssa.Value, d int) {
		if d > 12 || seen[v] || found {
			return
		}
		seen[v] = true
		v = stripConv(v)
		switch x := v.(type) {
		case *ssa.Phi:
			for _, e := range x.Edges {
				visit(e, d+1)
			}
		case *ssa.UnOp:
			if x.Op != token.MUL {
				return
			}
			fa, ok := x.X.(*ssa.FieldAddr)
			if !ok {
				return
			}
			_, f, base, _ := fieldOfAddr(fa)
			if f.Name() != "clusterLocation" {
				return
			}
			// base (possibly through the embedded directoryEntry) must be an element of a listing
			for i := 0; i < 4; i++ {
				if fa2, ok := base.(*ssa.FieldAddr); ok {
					base = fa2.X
				} else {
					break
				}
			}
			pb := w.prov(base, provOpts{})
			elem := false
			for _, rt := range pb.Roots {
				if rt.Kind == ROther {
					if _, isNext := rt.Val.(*ssa.Next); isNext {
						elem = true
					}
				}
			}
			// element loads: Index / IndexAddr on a slice
			var hasIndex func(v ssa.Value, d int) bool
			hasIndex = func(v ssa.Value, d int) bool {
				if d > 8 {
					return false
				}
				switch y := v.(type) {
				case *ssa.UnOp:
					if y.Op == token.MUL {
						if _, ok := y.X.(*ssa.IndexAddr); ok {
							return true
						}
						return hasIndex(y.X, d+1)
					}
				case *ssa.Index, *ssa.IndexAddr:
					return true
				case *ssa.Phi:
					for _, e := range y.Edges {
						if hasIndex(e, d+1) {
							return true
						}
					}
				case *ssa.Extract:
					if _, ok := y.Tuple.(*ssa.Next); ok {
						return true
					}
					return hasIndex(y.Tuple, d+1)
				case *ssa.Call:
					// a lookup helper: what it returns is an element of a listing
					if g := y.Call.StaticCallee(); g != nil && w.fnSet[g] && g.Blocks != nil {
						for _, ret := range returnsOf(g) {
							for i := range ret.Results {
								if hasIndex(retResult(ret, i), d+1) {
									return true
								}
							}
						}
					}
				}
				return false
			}
			if elem || hasIndex(base, 0) {
				found = true
				return
			}
			// a File handle's own entry (OpenFile/Write on that file) also is the entry, not the parent
			if n := namedOf(base.Type()); n != nil && n.Obj().Name() == "File" {
				found = true
				return
			}
			why = "chain head is the clusterLocation of " + shortVal(base) + " (the parent directory), not of the dropped entry"
		}
	}
	visit(v, 0)
	return found, why
}

func fatMethod(w *World, typ, name string) *ssa.Function {
	// fat16/fat32 embed fat12's FileSystem; the declared method lives in fat12
	return w.MethodOpt("filesystem/fat12", typ, name)
}

func c01Release(w *World, r *Report, rule string) {
	rels := fatReleaseFns(w)
	if len(rels) == 0 {
		r.Fail(rule, "filesystem/fat12", "release primitive", "filesystem/fat12", "no function marks clusters unused (SetCluster(_, UnusedMarker()))")
		return
	}
	for _, mn := range []string{"Remove", "Rename", "OpenFile"} {
		m := fatMethod(w, "FileSystem", mn)
		if m == nil {
			fatalf("%s: fat12.FileSystem.%s not found", rule, mn)
		}
		name := fnName(m)
		good := false
		why := "no call that marks clusters unused is reached"
		for _, c := range calls(m, true, func(ssa.CallInstruction) bool { return true }) {
			g := c.Common().StaticCallee()
			if g == nil {
				continue
			}
			for _, rf := range rels {
				if rf.fn != g {
					continue
				}
				for idx := range rf.params {
					if idx >= len(c.Common().Args) {
						continue
					}
					ok, w2 := fromListingEntry(w, c.Common().Args[idx])
					if ok {
						good = true
					} else {
						why = w2
					}
				}
			}
		}
		cons := map[string]string{"Remove": "removed entry's chain is released", "Rename": "replaced entry's chain is released", "OpenFile": "truncated file's surplus chain is released"}[mn]
		r.Check(good, rule, name, cons, w.relFile(m.Pos()), "a release call receives the dropped entry's first cluster",
			"the clusters of the dropped entry stay marked used (space is never reusable): "+why)
	}
}

// ---- C01-b ------------------------------------------------------------------------------------------

// dirMutators: *Directory methods that store to the entries field and take no []byte (parsers excluded).
func fatDirMutators(w *World) map[*ssa.Function]bool {
	out := map[*ssa.Function]bool{}
	for _, fn := range w.ModFns {
		if !inFatPkg(w, fn) || fn.Signature.Recv() == nil {
			continue
		}
		if n := namedOf(fn.Signature.Recv().Type()); n == nil || n.Obj().Name() != "Directory" {
			continue
		}
		parser := false
		for i := 0; i < fn.Signature.Params().Len(); i++ {
			if isByteSlice(fn.Signature.Params().At(i).Type()) {
				parser = true
			}
		}
		if parser {
			continue
		}
		stores := false
		allInstrs(fn, func(ins ssa.Instruction) {
			if st, ok := ins.(*ssa.Store); ok {
				if _, f, _, ok := fieldOfAddr(st.Addr); ok && f.Name() == "entries" {
					stores = true
				}
			}
		})
		if stores {
			out[fn] = true
		}
	}
	return out
}

// dirWriters: FAT functions taking a *Directory that reach a device WriteAt (the directory flush).
func fatDirWriters(w *World) map[*ssa.Function]bool {
	out := map[*ssa.Function]bool{}
	for _, fn := range w.ModFns {
		if !inFatPkg(w, fn) {
			continue
		}
		takesDir := false
		for _, p := range fn.Params[min(1, len(fn.Params)):] {
			if n := namedOf(p.Type()); n != nil && n.Obj().Name() == "Directory" {
				takesDir = true
			}
		}
		if !takesDir {
			continue
		}
		reach := w.reachableFrom([]*ssa.Function{fn}, func(f *ssa.Function) bool { return inFatPkg(w, f) })
		for f := range reach {
			if len(calls(f, false, isWriteAt)) > 0 {
				out[fn] = true
			}
		}
	}
	return out
}

func c01Persist(w *World, r *Report) {
	muts := fatDirMutators(w)
	writers := fatDirWriters(w)
	if len(muts) < 3 || len(writers) < 1 {
		fatalf("C01-b: found %d directory mutators and %d directory writers (need >=3 and >=1)", len(muts), len(writers))
	}
	// entry points: exported methods of fat12 FileSystem and File
	var eps []*ssa.Function
	for _, tn := range []string{"FileSystem", "File"} {
		n := w.Named("filesystem/fat12", tn)
		ms := w.Prog.MethodSets.MethodSet(types.NewPointer(n))
		for i := 0; i < ms.Len(); i++ {
			if !ms.At(i).Obj().Exported() {
				continue
			}
			if m := w.MethodOf(n, ms.At(i).Obj().Name()); m != nil && m.Blocks != nil && w.pkgOf(m) == "filesystem/fat12" {
				eps = append(eps, m)
			}
		}
	}
	sort.Slice(eps, func(i, j int) bool { return eps[i].String() < eps[j].String() })
	isEntryStore := func(ins ssa.Instruction) bool {
		st, ok := ins.(*ssa.Store)
		if !ok {
			return false
		}
		n, f, base, ok := fieldOfAddr(st.Addr)
		if !ok || n == nil || n.Obj().Name() != "directoryEntry" {
			return false
		}
		// stores into a freshly built entry (composite literal / local) are construction, not mutation
		for i := 0; i < 4; i++ {
			if fa, ok := base.(*ssa.FieldAddr); ok {
				base = fa.X
			} else {
				break
			}
		}
		if _, isAlloc := base.(*ssa.Alloc); isAlloc {
			return false
		}
		switch f.Name() {
		case "filesystem", "parent":
			return false
		}
		return true
	}
	// only callees that can reach an event need a summary
	hasEvent := map[*ssa.Function]bool{}
	for _, fn := range w.ModFns {
		if !inFatPkg(w, fn) {
			continue
		}
		allInstrs(fn, func(ins ssa.Instruction) {
			if isEntryStore(ins) {
				hasEvent[fn] = true
			}
			if c, ok := ins.(*ssa.Call); ok {
				if g := c.Call.StaticCallee(); g != nil && (muts[g] || writers[g]) {
					hasEvent[fn] = true
				}
			}
		})
	}
	for changed := true; changed; {
		changed = false
		for _, fn := range w.ModFns {
			if !inFatPkg(w, fn) || hasEvent[fn] {
				continue
			}
			for _, c := range calls(fn, false, func(ssa.CallInstruction) bool { return true }) {
				if g := c.Common().StaticCallee(); g != nil && hasEvent[g] && !muts[g] && !writers[g] {
					hasEvent[fn] = true
					changed = true
				}
			}
		}
	}
	for _, ep := range eps {
		rule := &flowRule{w: w, maxDepth: 8}
		rule.inline = func(callee *ssa.Function, site ssa.CallInstruction) bool {
			return inFatPkg(w, callee) && !muts[callee] && !writers[callee] && hasEvent[callee]
		}
		var dirtyAt ssa.Instruction
		rule.step = func(ins ssa.Instruction, s int) (uint64, bool) {
			if c, ok := ins.(*ssa.Call); ok {
				if g := c.Call.StaticCallee(); g != nil {
					if muts[g] {
						dirtyAt = ins
						return 1 << 1, true
					}
					if writers[g] {
						return 1 << 0, true
					}
				}
			}
			if isEntryStore(ins) {
				dirtyAt = ins
				return 1 << 1, true
			}
			return 0, false
		}
		res := rule.run(ep, 1, 0)
		name := fnName(ep)
		bad := 0
		for ret, m := range res.successReturns() {
			if m&(1<<1) != 0 {
				bad++
				at := w.relFile(instrPos(ret))
				det := "a success return is reachable after a directory entry was changed in memory without writing the directory back"
				if dirtyAt != nil {
					det += " (last change at " + w.relFile(instrPos(dirtyAt)) + ")"
				}
				r.Fail("C01-b", name, "directory change is written back", at, det, trailTo(w, ret.Block())...)
			}
		}
		if len(rule.TooDeep) > 0 {
			r.Undecided("C01-b", name, "directory change is written back", w.relFile(ep.Pos()), "inlining bound reached in "+strings.Join(uniq(rule.TooDeep), ","))
			continue
		}
		if bad == 0 {
			r.Ok("C01-b", name, "directory change is written back", w.relFile(ep.Pos()), fmt.Sprintf("%d functions summarised", len(rule.Visited)))
		}
	}
}

// c01PersistByValue: the directory object that was changed is the one that is written back. For every FAT
// function F and every directory value v that F changes (a mutator called on v, or v handed to a helper whose
// parameter is changed), a writer call with the same v follows on every path to a success return - unless v is
// F's own parameter, in which case F is such a helper and the obligation is its callers'.
func c01PersistByValue(w *World, r *Report) {
	muts := fatDirMutators(w)
	writers := fatDirWriters(w)
	// helper parameters that get mutated: (fn, param index)
	type pk struct {
		fn  *ssa.Function
		idx int
	}
	mutParam := map[pk]bool{}
	for m := range muts {
		mutParam[pk{m, 0}] = true
	}
	dirtyValues := func(fn *ssa.Function) map[ssa.Instruction]ssa.Value {
		out := map[ssa.Instruction]ssa.Value{}
		allInstrs(fn, func(ins ssa.Instruction) {
			c, ok := ins.(*ssa.Call)
			if !ok {
				return
			}
			g := c.Call.StaticCallee()
			if g == nil {
				return
			}
			for i, a := range c.Call.Args {
				if mutParam[pk{g, i}] {
					out[ins] = unspillParam(a)
				}
			}
		})
		return out
	}
	for changed := true; changed; {
		changed = false
		for _, fn := range w.ModFns {
			if !inFatPkg(w, fn) || muts[fn] {
				continue
			}
			for _, v := range dirtyValues(fn) {
				if p, ok := v.(*ssa.Parameter); ok {
					// is it flushed inside fn? if every success path writes it back, fn is not a dirtying helper
					for i, q := range fn.Params {
						if q == p && !mutParam[pk{fn, i}] && !c01FlushedInside(w, fn, p, dirtyValues(fn), writers) {
							mutParam[pk{fn, i}] = true
							changed = true
						}
					}
				}
			}
		}
	}
	for _, fn := range w.ModFns {
		if !inFatPkg(w, fn) || muts[fn] {
			continue
		}
		dv := dirtyValues(fn)
		vals := map[ssa.Value]bool{}
		for _, v := range dv {
			vals[v] = true
		}
		for v := range vals {
			if p, ok := v.(*ssa.Parameter); ok {
				isHelper := false
				for i, q := range fn.Params {
					if q == p && mutParam[pk{fn, i}] {
						isHelper = true
					}
				}
				if isHelper {
					continue
				}
			}
			ok := c01FlushedInside(w, fn, v, dv, writers)
			r.Check(ok, "C01-b", fnName(fn), "changed directory "+valueLabel(v)+" is the one written back", w.relFile(fn.Pos()), "",
				"a directory's entry list is changed and a success return is reachable without writing that same directory back (another directory may be written instead)")
		}
	}
}

func valueLabel(v ssa.Value) string {
	if v.Name() != "" && !strings.HasPrefix(v.Name(), "t") {
		return v.Name()
	}
	if ph, ok := v.(*ssa.Phi); ok && ph.Comment != "" {
		return ph.Comment
	}
	if p, ok := v.(*ssa.Parameter); ok {
		return p.Name()
	}
	if e, ok := v.(*ssa.Extract); ok {
		if c, ok := e.Tuple.(*ssa.Call); ok {
			if g := c.Call.StaticCallee(); g != nil {
				return fmt.Sprintf("result %d of %s", e.Index, g.Name())
			}
		}
	}
	return "value"
}

func c01FlushedInside(w *World, fn *ssa.Function, v ssa.Value, dirty map[ssa.Instruction]ssa.Value, writers map[*ssa.Function]bool) bool {
	rule := &flowRule{w: w}
	rule.step = func(ins ssa.Instruction, s int) (uint64, bool) {
		if dirty[ins] == v {
			return 1 << 1, true
		}
		if c, ok := ins.(*ssa.Call); ok {
			if g := c.Call.StaticCallee(); g != nil && writers[g] {
				for _, a := range c.Call.Args {
					if unspillParam(a) == v {
						return 1 << 0, true
					}
				}
			}
		}
		return 0, false
	}
	res := rule.run(fn, 1, 0)
	for _, m := range res.successReturns() {
		if m&(1<<1) != 0 {
			return false
		}
	}
	return true
}

// ---- C01-c ------------------------------------------------------------------------------------------

func c01NoSpaceAtomic(w *World, r *Report) {
	n := 0
	for _, fn := range w.ModFns {
		if !inFatPkg(w, fn) {
			continue
		}
		// the function mutates the FAT itself or through its phase helpers (two levels)
		mutates := len(calls(fn, false, isSetCluster)) > 0
		for _, c := range calls(fn, false, func(c ssa.CallInstruction) bool { g := c.Common().StaticCallee(); return g != nil && inFatPkg(w, g) && g.Blocks != nil }) {
			g := c.Common().StaticCallee()
			if len(calls(g, false, isSetCluster)) > 0 {
				mutates = true
			}
		}
		if !mutates || fn.Name() != "allocateSpace" && len(calls(fn, false, isSetCluster)) == 0 {
			continue
		}
		// no-space returns: error returns whose selecting If compares len(slice) with a count
		var nospace []*ssa.Return
		for _, b := range fn.Blocks {
			iff, ok := lastInstr(b).(*ssa.If)
			if !ok {
				continue
			}
			bin, ok := iff.Cond.(*ssa.BinOp)
			if !ok || (bin.Op != token.LSS && bin.Op != token.GTR && bin.Op != token.LEQ && bin.Op != token.GEQ) {
				continue
			}
			isLen := func(v ssa.Value) bool {
				c, ok := stripConv(v).(*ssa.Call)
				if !ok {
					return false
				}
				bi, ok := c.Call.Value.(*ssa.Builtin)
				return ok && bi.Name() == "len"
			}
			if !isLen(bin.X) && !isLen(bin.Y) {
				continue
			}
			for idx := range b.Succs {
				if ret, ok := lastInstr(b.Succs[idx]).(*ssa.Return); ok && len(b.Succs[idx].Preds) == 1 && classifyReturn(ret) == RetError {
					nospace = append(nospace, ret)
				}
			}
		}
		if len(nospace) == 0 {
			continue
		}
		rule := &flowRule{w: w, maxDepth: 4}
		rule.inline = func(g *ssa.Function, site ssa.CallInstruction) bool { return inFatPkg(w, g) }
		rule.step = func(ins ssa.Instruction, s int) (uint64, bool) {
			if c, ok := ins.(ssa.CallInstruction); ok && isSetCluster(c) {
				return 1 << 1, true
			}
			return 0, false
		}
		res := rule.run(fn, 1, 0)
		for _, ret := range nospace {
			n++
			m := res.Returns[ret]
			r.Check(m&(1<<1) == 0, "C01-c", fnName(fn), "out-of-space return precedes any FAT mutation #"+fmt.Sprint(n), w.relFile(instrPos(ret)),
				"", "the out-of-space error is returned after the in-memory FAT was already modified: a refused call changes other files' chains")
		}
	}
	if n == 0 {
		r.Undecided("C01-c", "filesystem/fat12", "out-of-space return", "filesystem/fat12", "no out-of-space return found in the allocator: the rule's anchor is gone or has a shape this analysis does not recognise")
	}
}

func runC01(w *World, r *Report) {
	c01Release(w, r, "C01-a")
	c01Persist(w, r)
	c01PersistByValue(w, r)
	c01NoSpaceAtomic(w, r)
	c01ScanStart(w, r)
	c01DirRewrite(w, r)
	r.Floor("C01-e", r.countRule("C01-e"), 1)
	r.Floor("C01-d", r.countRule("C01-d"), 1)
	r.Floor("C01-a", r.countRule("C01-a"), 3)
	r.Floor("C01-b", r.countRule("C01-b"), 20)
	r.Floor("C01-c", r.countRule("C01-c"), 1)
}

// ---- C08 -----------------------------------------------------------------------------------------------

func runC08(w *World, r *Report) {
	c08Mirrors(w, r)
	c08WholeTableAndDistinctBackups(w, r)
	c08Flush(w, r)
	c08Hooks(w, r)
	c01Release(w, r, "C08-d")
	c08Terminators(w, r)
	runCodecFamily(w, r, "C08-e", codecPairsC08)
	c08SectorUnits(w, r)
	c08FreshTableBytes(w, r)
	c08RefusedCreateReleases(w, r, "C08-i")
	r.Floor("C08-i", r.countRule("C08-i"), 2)
	r.Floor("C08-g", r.countRule("C08-g"), 6)
	r.Floor("C08-h", r.countRule("C08-h"), 3)
	r.Floor("C08-e", r.countRule("C08-e"), 7)
	r.Floor("C08-a", r.countRule("C08-a"), 3)
	r.Floor("C08-b", r.countRule("C08-b"), 1)
	r.Floor("C08-c", r.countRule("C08-c"), 5)
	r.Floor("C08-f", r.countRule("C08-f"), 2)
}

func c08Mirrors(w *World, r *Report) {
	isBackupRoot := func(p *Prov) string {
		for _, rt := range p.Roots {
			n := ""
			switch rt.Kind {
			case RField:
				n = rt.Field.Name()
			case RCall:
				if rt.Fn != nil {
					n = rt.Fn.Name()
				} else if rt.Meth != nil {
					n = rt.Meth.Name()
				}
			}
			ln := strings.ToLower(n)
			if strings.Contains(ln, "secondary") || strings.Contains(ln, "backup") {
				return n
			}
		}
		return ""
	}
	for _, fn := range w.ModFns {
		if !inFatPkg(w, fn) {
			continue
		}
		ws := calls(fn, false, isWriteAt)
		for _, c := range ws {
			off := argsOf(c)[1]
			po := w.prov(off, provOpts{followCalls: true, opaque: func(f *ssa.Function) bool { return f.Signature.Recv() != nil && f.Signature.Params().Len() == 0 }})
			which := isBackupRoot(po)
			if which == "" {
				continue
			}
			// a sibling write of the same buffer to a location that is not the backup
			data := argsOf(c)[0]
			found := false
			for _, c2 := range ws {
				if c2 == c {
					continue
				}
				p2 := w.prov(argsOf(c2)[1], provOpts{followCalls: true, opaque: func(f *ssa.Function) bool { return f.Signature.Recv() != nil && f.Signature.Params().Len() == 0 }})
				if isBackupRoot(p2) != "" {
					continue
				}
				if argsOf(c2)[0] == data {
					found = true
				}
			}
			r.Check(found, "C08-a", fnName(fn), "mirror at "+which+" written from the primary's buffer", w.relFile(c.Pos()), "same SSA value written to primary and mirror",
				"the copy addressed by "+which+" is not written from the same buffer as the primary copy in this function: the two copies can differ")
		}
	}
}

// exprString renders an SSA integer expression as a canonical string over field names, accessor calls,
// parameters and constants (for comparing two offset formulas).
func exprString(v ssa.Value, depth int) string {
	if depth > 12 {
		return "..."
	}
	v = stripConv(v)
	switch x := v.(type) {
	case *ssa.Const:
		return x.Value.String()
	case *ssa.BinOp:
		a, b := exprString(x.X, depth+1), exprString(x.Y, depth+1)
		if (x.Op == token.ADD || x.Op == token.MUL) && a > b {
			a, b = b, a
		}
		return "(" + a + x.Op.String() + b + ")"
	case *ssa.UnOp:
		if x.Op == token.MUL {
			if _, f, _, ok := fieldOfAddr(x.X); ok {
				return "." + f.Name()
			}
		}
	case *ssa.Field:
		if _, f, _, ok := fieldOfAddr(x); ok {
			return "." + f.Name()
		}
	case *ssa.Call:
		if n := callMethodName(x); n != "" && len(argsOf(x)) == 0 {
			return n + "()"
		}
		if bi, ok := x.Call.Value.(*ssa.Builtin); ok && len(x.Call.Args) == 1 {
			return bi.Name() + "(" + exprString(x.Call.Args[0], depth+1) + ")"
		}
	case *ssa.Phi:
		if x.Comment != "" {
			return "phi:" + x.Comment
		}
	case *ssa.Parameter:
		return "$" + x.Name()
	}
	return "?" + v.Name()
}

// c08WholeTableAndDistinctBackups: (1) the FAT copies are written from the unsliced encoding of the whole
// table, so no stale tail survives on disk; (2) two different backup structures (backup boot sector, backup
// FSInfo) are never addressed by the same offset formula.
func c08WholeTableAndDistinctBackups(w *World, r *Report) {
	for _, fn := range w.ModFns {
		if !inFatPkg(w, fn) {
			continue
		}
		for _, c := range calls(fn, false, isWriteAt) {
			po := w.prov(argsOf(c)[1], provOpts{})
			if !(po.hasField("", "fatPrimaryStart") || po.hasField("", "fatSecondaryStart")) {
				continue
			}
			data := argsOf(c)[0]
			call, ok := data.(*ssa.Call)
			whole := ok && callMethodName(call) == "Bytes"
			r.Check(whole, "C08-a", fnName(fn), "FAT copy written from the whole table encoding #"+ordinal(fn, c), w.relFile(c.Pos()), "data = table.Bytes()",
				"a FAT copy is written from something other than the complete, unsliced table encoding ("+shortVal(data)+"): entries beyond the written window keep their stale on-disk value")
		}
	}
	type site struct {
		fn   *ssa.Function
		call ssa.CallInstruction
		expr string
	}
	var backups []site
	for _, fn := range w.ModFns {
		if w.pkgOf(fn) != "filesystem/fat32" {
			continue
		}
		for _, c := range calls(fn, false, isWriteAt) {
			off := argsOf(c)[1]
			if !w.prov(off, provOpts{}).hasField("", "backupBootSector") {
				continue
			}
			backups = append(backups, site{fn, c, exprString(off, 0)})
		}
	}
	for i, a := range backups {
		clash := ""
		for j, b := range backups {
			if i != j && a.expr == b.expr && a.fn != b.fn {
				clash = fnName(b.fn) + " at " + w.relFile(b.call.Pos())
			}
		}
		r.Check(clash == "", "C08-a", fnName(a.fn), "backup location is distinct from other backups #"+ordinal(a.fn, a.call), w.relFile(a.call.Pos()), a.expr,
			"this backup write uses the same offset formula "+a.expr+" as "+clash+": one backup structure overwrites the other")
	}
}

func c08Flush(w *World, r *Report) {
	// entries: the exported API of the FAT FileSystem/File types and the constructors; helpers that mutate the table
	// and leave the flush to their caller are summarised into their callers
	var entries []*ssa.Function
	for _, fn := range w.ModFns {
		if !inFatPkg(w, fn) || fn.Blocks == nil {
			continue
		}
		if fn.Signature.Recv() == nil {
			if fn.Name() == "Create" || fn.Name() == "Read" {
				entries = append(entries, fn)
			}
			continue
		}
		rn := namedOf(fn.Signature.Recv().Type())
		if rn != nil && token.IsExported(fn.Name()) && (rn.Obj().Name() == "FileSystem" || rn.Obj().Name() == "File") {
			entries = append(entries, fn)
		}
	}
	sort.Slice(entries, func(i, j int) bool { return entries[i].String() < entries[j].String() })
	// can the entry reach a FAT mutation at all? explored with constant actuals folded (readDirWithMkdir(p, false)
	// never makes directories), so that pure readers are not entries of this rule
	reachesSet := func(e *ssa.Function) bool {
		found := false
		rc := &Reach{w: w, enter: func(f *ssa.Function) bool { return inFatPkg(w, f) }}
		rc.sink = func(c ssa.CallInstruction, ev *evaluator) string {
			if isSetCluster(c) {
				found = true
			}
			return ""
		}
		rc.Run(e, nil)
		return found
	}
	rule := &flowRule{w: w, maxDepth: 8}
	rule.inline = func(callee *ssa.Function, site ssa.CallInstruction) bool {
		return inFatPkg(w, callee) && !methodCallSig(site, "WriteFat", 0, 1)
	}
	rule.step = func(ins ssa.Instruction, s int) (uint64, bool) {
		c, ok := ins.(ssa.CallInstruction)
		if !ok {
			return 0, false
		}
		if isSetCluster(c) {
			return 1 << 1, true
		}
		if methodCallSig(c, "WriteFat", 0, 1) {
			return 1 << 0, true
		}
		return 0, false
	}
	for _, e := range entries {
		if !reachesSet(e) {
			continue
		}
		res := rule.run(e, 1, 0)
		bad := 0
		for ret, m := range res.successReturns() {
			if m&(1<<1) != 0 {
				bad++
				r.Fail("C08-b", fnName(e), "FAT mutation is flushed", w.relFile(instrPos(ret)), "a success return is reachable after SetCluster without WriteFat(): the on-disk FAT copies lag the in-memory table", trailTo(w, ret.Block())...)
			}
		}
		if bad == 0 {
			r.Ok("C08-b", fnName(e), "FAT mutation is flushed", w.relFile(e.Pos()), "")
		}
	}
	// the flush error is propagated, wherever the flush is called
	for _, fn := range w.ModFns {
		if !inFatPkg(w, fn) || fn.Blocks == nil {
			continue
		}
		for _, cc := range calls(fn, false, func(c ssa.CallInstruction) bool { return methodCallSig(c, "WriteFat", 0, 1) }) {
			if c, ok := cc.(*ssa.Call); ok {
				ok2, why := errorIsChecked(c)
				r.Check(ok2, "C08-b", fnName(fn), "WriteFat error propagated #"+ordinal(fn, c), w.relFile(c.Pos()), why, "the error of WriteFat() is dropped: "+why)
			}
		}
	}
}

func c08Hooks(w *World, r *Report) {
	for _, cn := range []string{"Create", "Read"} {
		fn := w.Func("filesystem/fat32", cn)
		for _, hook := range []string{"WriteBootSectorFn", "AfterWriteFAT"} {
			var st *ssa.Store
			for _, f := range withClosures(fn) {
				allInstrs(f, func(ins ssa.Instruction) {
					if s, ok := ins.(*ssa.Store); ok {
						if _, fld, _, ok := fieldOfAddr(s.Addr); ok && fld.Name() == hook {
							st = s
						}
					}
				})
			}
			// also through a helper called by the constructor
			if st == nil {
				for _, c := range calls(fn, false, func(ssa.CallInstruction) bool { return true }) {
					if g := c.Common().StaticCallee(); g != nil && w.fnSet[g] && w.pkgOf(g) == "filesystem/fat32" {
						allInstrs(g, func(ins ssa.Instruction) {
							if s, ok := ins.(*ssa.Store); ok {
								if _, fld, _, ok := fieldOfAddr(s.Addr); ok && fld.Name() == hook {
									st = s
								}
							}
						})
					}
				}
			}
			if st == nil {
				r.Fail("C08-c", fnName(fn), hook+" installed", w.relFile(fn.Pos()), "fat32."+cn+" never installs "+hook+": the backup boot sector / FSInfo sector is not maintained")
				continue
			}
			// value is a bound method of the fat32 FileSystem (not nil)
			good := !isNilConst(st.Val)
			// every success return is dominated by the store (when the store is in the constructor itself)
			if st.Parent() == fn {
				for _, ret := range returnsOf(fn) {
					if classifyReturn(ret) != RetError && !st.Block().Dominates(ret.Block()) {
						good = false
					}
				}
			}
			r.Check(good, "C08-c", fnName(fn), hook+" installed", w.relFile(st.Pos()), shortVal(st.Val), hook+" is not installed on every path to a successful return")
		}
	}
	// WriteFat calls the hook
	wf := fatMethod(w, "FileSystem", "WriteFat")
	if wf == nil {
		fatalf("C08-c: fat12.FileSystem.WriteFat not found")
	}
	called := false
	for _, c := range calls(wf, false, func(ssa.CallInstruction) bool { return true }) {
		if c.Common().StaticCallee() != nil || c.Common().IsInvoke() {
			continue
		}
		p := w.prov(c.Common().Value, provOpts{})
		if p.hasField("", "AfterWriteFAT") {
			called = true
			if cc, ok := c.(*ssa.Call); ok {
				ok2, why := errorIsChecked(cc)
				r.Check(ok2, "C08-c", fnName(wf), "AfterWriteFAT error propagated", w.relFile(c.Pos()), why, "the error of the AfterWriteFAT hook is dropped")
			}
		}
	}
	r.Check(called, "C08-c", fnName(wf), "WriteFat invokes AfterWriteFAT", w.relFile(wf.Pos()), "", "WriteFat no longer calls the AfterWriteFAT hook, so FAT32's FSInfo sector is never refreshed")
}

func c08Terminators(w *World, r *Report) {
	for _, fn := range w.ModFns {
		if !inFatPkg(w, fn) || len(calls(fn, false, isSetCluster)) == 0 {
			continue
		}
		kind := func(c ssa.CallInstruction) string {
			v := argsOf(c)[1]
			switch {
			case isMarkerCall(v, "EOCMarker"):
				return "eoc"
			case isMarkerCall(v, "UnusedMarker"):
				return "unused"
			}
			if cv, ok := constInt(stripConv(v)); ok && cv == 0 {
				return "zero"
			}
			return "link"
		}
		rule := &flowRule{w: w}
		var zeroAt ssa.Instruction
		rule.step = func(ins ssa.Instruction, s int) (uint64, bool) {
			c, ok := ins.(ssa.CallInstruction)
			if !ok || !isSetCluster(c) {
				return 0, false
			}
			switch kind(c) {
			case "link":
				return 1 << 1, true
			case "eoc":
				return 1 << 2, true
			case "zero":
				zeroAt = ins
				return 0, false
			}
			return 0, false
		}
		res := rule.run(fn, 1, 0)
		bad := 0
		for ret, m := range res.successReturns() {
			if m&(1<<1) != 0 {
				bad++
				r.Fail("C08-f", fnName(fn), "chain links are terminated", w.relFile(instrPos(ret)), "a success return is reachable after linking clusters without writing an end-of-chain mark to the last one", trailTo(w, ret.Block())...)
			}
		}
		if zeroAt != nil {
			bad++
			r.Fail("C08-f", fnName(fn), "markers come from the table", w.relFile(instrPos(zeroAt)), "a literal 0 is stored as a cluster value instead of EOCMarker()/UnusedMarker()")
		}
		if bad == 0 {
			r.Ok("C08-f", fnName(fn), "chain links are terminated", w.relFile(fn.Pos()), "")
		}
	}
}

// c01ScanStart (C01-d): the free-cluster scan of allocateSpace starts at a constant, or at a value kept in a field
// of the filesystem that every function marking clusters free also stores (lowers): a hint that is not rewound when
// clusters are released hides them from every later allocation, and the volume reports "no space" with free clusters.
func c01ScanStart(w *World, r *Report) {
	as := w.Method("filesystem/fat12", "FileSystem", "allocateSpace")
	var hintFields []*types.Var
	var otherStart []string
	constScans := 0
	n := 0
	// the scan may live in a phase helper of the allocator
	scope := w.reachableFrom([]*ssa.Function{as}, func(f *ssa.Function) bool { return inFatPkg(w, f) })
	var scan []ssa.CallInstruction
	for _, f := range sortedFns(scope) {
		if f.Name() == "getClusterList" {
			continue // a chain walk, not a scan for free clusters
		}
		scan = append(scan, calls(f, false, func(c ssa.CallInstruction) bool { return callMethodName(c) == "ClusterValue" })...)
	}
	for _, c := range scan {
		args := argsOf(c)
		if len(args) == 0 {
			continue
		}
		ph, ok := stripConv(args[len(args)-1]).(*ssa.Phi)
		if !ok {
			continue
		}
		n++
		for k, e := range ph.Edges {
			// initial value: the edge that does not come from inside the loop (its predecessor is not dominated by the phi's block)
			if ph.Block().Dominates(ph.Block().Preds[k]) {
				continue
			}
			allConst := true
			for _, rt := range w.prov(e, provOpts{phiControl: false}).Roots {
				if rt.Kind == RField && rt.Owner != nil && rt.Owner.Obj().Name() == "FileSystem" {
					hintFields = append(hintFields, rt.Field)
					allConst = false
				} else if rt.Kind != RConst {
					allConst = false
					otherStart = append(otherStart, rt.String()+" at "+w.relFile(instrPos(c)))
				}
			}
			if allConst {
				constScans++
			}
		}
	}
	// a scan that starts somewhere else (after the chain being extended, at a caller-supplied position) never sees the
	// clusters below that point, unless a second scan covers them from a constant start (wrap-around)
	if len(otherStart) > 0 && constScans == 0 {
		r.Fail("C01-d", fnName(as), "free-cluster scan start does not depend on mutable state", w.relFile(as.Pos()),
			"the allocator's free-cluster scan starts at a value that is neither a constant nor a rewound hint ("+strings.Join(uniq(otherStart), "; ")+") and no other scan starts at a constant: clusters released below that point are never found again, and a write fails with no space while clusters are free")
		return
	}
	if n == 0 {
		r.Undecided("C01-d", fnName(as), "free-cluster scan start", w.relFile(as.Pos()), "no scan over ClusterValue(i) found in allocateSpace or its helpers: the allocator has a shape this analysis does not recognise")
		return
	}
	if len(hintFields) == 0 {
		r.Ok("C01-d", fnName(as), "free-cluster scan start does not depend on mutable state", w.relFile(as.Pos()), "starts at a constant")
		return
	}
	// functions that mark a cluster free
	for _, fn := range w.ModFns {
		if w.pkgOf(fn) != "filesystem/fat12" || fn.Blocks == nil {
			continue
		}
		frees := false
		for _, c := range calls(fn, false, func(c ssa.CallInstruction) bool { return callMethodName(c) == "SetCluster" }) {
			args := argsOf(c)
			v := stripConv(args[len(args)-1])
			if k, ok := constInt(v); ok && k == 0 {
				frees = true
			}
			if w.prov(v, provOpts{}).hasCallNamed("UnusedMarker") {
				frees = true
			}
		}
		if !frees {
			continue
		}
		for _, hf := range hintFields {
			stored := false
			allInstrs(fn, func(ins ssa.Instruction) {
				if st, ok := ins.(*ssa.Store); ok {
					if _, f, _, ok := fieldOfAddr(st.Addr); ok && f == hf {
						stored = true
					}
				}
			})
			r.Check(stored, "C01-d", fnName(fn), "releasing clusters rewinds the scan hint "+hf.Name(), w.relFile(fn.Pos()), "",
				"allocateSpace starts its free-cluster scan at FileSystem."+hf.Name()+", and this function marks clusters free without storing that field: the released clusters lie below the hint and are never found again (no space left with free clusters)")
		}
	}
}

// c01DirRewrite (C01-e): writeDirectoryEntries writes every cluster of the directory's chain: no iteration of its
// cluster loop ends without a device write. Clusters the shorter listing no longer reaches must be overwritten (with
// the zero padding of the serialisation), or their old entries are listed again.
func c01DirRewrite(w *World, r *Report) {
	wd := w.Method("filesystem/fat12", "FileSystem", "writeDirectoryEntries")
	var in []ssa.CallInstruction
	for _, c := range calls(wd, false, isWriteAt) {
		if len(cycleThrough(c.Block())) > 0 {
			in = append(in, c)
		}
	}
	if len(in) == 0 {
		r.Fail("C01-e", fnName(wd), "directory rewritten in all of its clusters", w.relFile(wd.Pos()), "writeDirectoryEntries has no device write in a loop over the directory's clusters")
		return
	}
	bad, why := loopWritesEveryBlock(wd, in[0])
	r.Check(!bad, "C01-e", fnName(wd), "directory rewritten in all of its clusters", w.relFile(in[0].Pos()), "every iteration of the cluster loop writes its cluster",
		why+"an iteration of the loop over the directory's clusters can end (or the loop can be left) without writing the cluster: clusters beyond the shorter listing keep their old entries, which are listed again")
}

// c08SectorUnits (C08-g): BPB sector numbers are scaled to bytes by the volume's sector size only.
func c08SectorUnits(w *World, r *Report) {
	// the FAT packages' own default (SectorSize512) is a literal too when it is what a sector number is scaled by
	sectorFields := map[string]bool{"fsInformationSector": true, "backupBootSector": true, "ReservedSectors": true, "SectorsPerFat": true, "sectorsPerFat": true, "reservedSectors": true}
	for _, fn := range w.ModFns {
		if !inFatPkg(w, fn) {
			continue
		}
		k := 0
		allInstrs(fn, func(ins ssa.Instruction) {
			bin, ok := ins.(*ssa.BinOp)
			if !ok || bin.Op != token.MUL {
				return
			}
			for side := 0; side < 2; side++ {
				a, f := bin.X, bin.Y
				if side == 1 {
					a, f = f, a
				}
				// a: a plain BPB sector field (looking through conversions), f: the factor
				ld := stripConv(a)
				name := ""
				switch x := ld.(type) {
				case *ssa.UnOp:
					if fa, ok := x.X.(*ssa.FieldAddr); ok && x.Op == token.MUL {
						if _, fld, _, ok := fieldOfAddr(fa); ok && sectorFields[fld.Name()] {
							name = fld.Name()
						}
					}
				case *ssa.Field:
					if _, fld, _, ok := fieldOfAddr(x); ok && sectorFields[fld.Name()] {
						name = fld.Name()
					}
				}
				if name == "" {
					continue
				}
				// the factor must be a sector size: skip multiplications by small counts (fatCount, 2)
				pf := w.prov(f, provOpts{followCalls: true})
				isSize := false
				literal := int64(0)
				for _, rt := range pf.Roots {
					if rt.Kind == RField && (rt.Field.Name() == "BytesPerSector" || rt.Field.Name() == "bytesPerSector") {
						isSize = true
					}
					if rt.Kind == RParam && rt.Param != nil && strings.Contains(strings.ToLower(rt.Param.Name()), "blocksize") {
						isSize = true
					}
					if rt.Kind == RConst {
						if c, ok := constInt(rt.Val); ok && (c == 512 || c == 4096) {
							literal = c
							isSize = true
						}
					}
				}
				if !isSize {
					continue
				}
				k++
				r.Check(literal == 0, "C08-g", fnName(fn), fmt.Sprintf("sector number (%s) scaled by the volume's sector size #%d", name, k), w.relFile(bin.Pos()), "",
					fmt.Sprintf("the BPB sector number %s is turned into a byte offset with a factor that can be the literal %d (directly or through a helper that falls back to it) instead of the volume's own sector size: on a volume with the other supported sector size the structure is written to or looked for at the wrong place", name, literal))
				return
			}
		})
	}
}

// c08FreshTableBytes (C08-h): Bytes() of each FAT table type returns a buffer made in that call, or clears it first.
func c08FreshTableBytes(w *World, r *Report) {
	for _, pkg := range fatPkgs {
		sp := w.Pkg(pkg)
		for _, m := range sp.Members {
			t, ok := m.(*ssa.Type)
			if !ok {
				continue
			}
			n, ok := t.Type().(*types.Named)
			if !ok {
				continue
			}
			fn := w.MethodOf(n, "Bytes")
			if fn == nil || fn.Blocks == nil || w.MethodOf(n, "SetCluster") == nil {
				continue
			}
			fresh, cleared := true, false
			for _, ret := range returnsOf(fn) {
				if len(ret.Results) != 1 {
					continue
				}
				for _, rt := range w.prov(ret.Results[0], provOpts{}).Roots {
					if rt.Kind != RAlloc {
						fresh = false
					}
				}
			}
			for _, c := range calls(fn, false, func(c ssa.CallInstruction) bool {
				bi, ok := c.Common().Value.(*ssa.Builtin)
				return ok && bi.Name() == "clear"
			}) {
				_ = c
				cleared = true
			}
			r.Check(fresh || cleared, "C08-h", fnName(fn), "FAT encoding starts from a zeroed buffer", w.relFile(fn.Pos()), "",
				"Bytes() returns a buffer that is not allocated by the call (and is not cleared first): entries the encoder skips because they are zero keep the bytes of an earlier encoding, so the links of released clusters stay on disk in both FAT copies")
		}
	}
}

// c08RefusedCreateReleases (C08-i / C01-f): error returns behind a successful fresh allocation release it.
func c08RefusedCreateReleases(w *World, r *Report, rule string) {
	rels := map[*ssa.Function]bool{}
	for _, rf := range fatReleaseFns(w) {
		rels[rf.fn] = true
	}
	// functions that allocate a fresh chain: allocateSpace(_, 0)
	as := fatMethod(w, "FileSystem", "allocateSpace")
	fresh := map[*ssa.Function]bool{}
	for _, fn := range w.ModFns {
		if !inFatPkg(w, fn) {
			continue
		}
		for _, c := range calls(fn, false, func(c ssa.CallInstruction) bool { return c.Common().StaticCallee() == as }) {
			args := argsOf(c)
			if len(args) == 2 {
				if k, ok := constInt(args[1]); ok && k == 0 {
					fresh[fn] = true
				}
			}
		}
	}
	// a function that only forwards to a fresh allocator (returns its results as they are) is one too
	for changed := true; changed; {
		changed = false
		for _, fn := range w.ModFns {
			if !inFatPkg(w, fn) || fresh[fn] {
				continue
			}
			for _, ret := range returnsOf(fn) {
				// `return g(...)`: every result of the return is the corresponding result of one call
				var c *ssa.Call
				pure := len(ret.Results) > 0
				for i, rv := range ret.Results {
					var ci *ssa.Call
					switch x := rv.(type) {
					case *ssa.Call:
						ci = x
					case *ssa.Extract:
						if x.Index == i {
							ci, _ = x.Tuple.(*ssa.Call)
						}
					}
					if ci == nil || (c != nil && ci != c) {
						pure = false
						break
					}
					c = ci
				}
				if pure && c != nil && fresh[c.Call.StaticCallee()] && !fresh[fn] {
					fresh[fn] = true
					changed = true
				}
			}
		}
	}
	if as == nil || len(fresh) == 0 {
		r.Undecided(rule, "filesystem/fat12", "fresh allocations", "filesystem/fat12", "no function allocates a fresh chain with allocateSpace(_, 0)")
		return
	}
	for _, fn := range w.ModFns {
		if !inFatPkg(w, fn) || fresh[fn] {
			continue
		}
		for _, cc := range calls(fn, false, func(c ssa.CallInstruction) bool { return fresh[c.Common().StaticCallee()] }) {
			c, ok := cc.(*ssa.Call)
			if !ok {
				continue
			}
			iff, nilIdx := errNilEdge(fn, c)
			if iff == nil {
				continue
			}
			hasRelease := func(b *ssa.BasicBlock) bool {
				for _, ins := range b.Instrs {
					if ci, ok := ins.(ssa.CallInstruction); ok && rels[ci.Common().StaticCallee()] {
						return true
					}
				}
				return false
			}
			// error returns dominated by the success edge, reachable from it without passing a release
			start := iff.Block().Succs[nilIdx]
			seen := map[*ssa.BasicBlock]bool{}
			st := []*ssa.BasicBlock{start}
			k := 0
			for len(st) > 0 {
				b := st[len(st)-1]
				st = st[:len(st)-1]
				if seen[b] || !edgeDominates(iff.Block(), nilIdx, b) {
					continue
				}
				seen[b] = true
				if hasRelease(b) {
					continue
				}
				if ret, ok := lastInstr(b).(*ssa.Return); ok {
					if classifyReturn(ret) == RetError {
						k++
						r.Fail(rule, fnName(fn), fmt.Sprintf("error return behind %s releases the new chain #%d", c.Call.StaticCallee().Name(), k), w.relFile(instrPos(ret)),
							"after "+c.Call.StaticCallee().Name()+" allocated a cluster for the new entry, this error return is reached without releasing it: every refused create or mkdir (directory full, no space to grow it) leaves one more cluster marked used that nothing owns, until the volume reports no space")
					}
					continue
				}
				st = append(st, b.Succs...)
			}
			if k == 0 {
				r.Ok(rule, fnName(fn), "error returns behind "+c.Call.StaticCallee().Name()+" release the new chain", w.relFile(c.Pos()), "")
			}
		}
	}
}

package main

import (
	"go/token"
	"go/types"
	"sort"
	"strings"

	"golang.org/x/tools/go/ssa"
)

// methodCallSig reports whether call c invokes (statically or via interface) a method
// called name with nparams parameters and nresults results.
func methodCallSig(c ssa.CallInstruction, name string, nparams, nresults int) bool {
	cc := c.Common()
	var sig *types.Signature
	if cc.IsInvoke() {
		if cc.Method.Name() != name {
			return false
		}
		sig = cc.Method.Type().(*types.Signature)
	} else if f := cc.StaticCallee(); f != nil && f.Signature.Recv() != nil && f.Name() == name {
		sig = f.Signature
	} else {
		return false
	}
	return sig.Params().Len() == nparams && sig.Results().Len() == nresults
}

func isByteSlice(t types.Type) bool {
	s, ok := t.Underlying().(*types.Slice)
	if !ok {
		return false
	}
	b, ok := s.Elem().Underlying().(*types.Basic)
	return ok && b.Kind() == types.Uint8
}

// isWriteAt: x.WriteAt([]byte, int64) (int, error)
func isWriteAt(c ssa.CallInstruction) bool {
	if !methodCallSig(c, "WriteAt", 2, 2) {
		return false
	}
	a := argsOf(c)
	return len(a) == 2 && isByteSlice(a[0].Type())
}

// isReadAt: x.ReadAt([]byte, int64) (int, error)
func isReadAt(c ssa.CallInstruction) bool {
	if !methodCallSig(c, "ReadAt", 2, 2) {
		return false
	}
	a := argsOf(c)
	return len(a) == 2 && isByteSlice(a[0].Type())
}

// isSyncCall: x.Sync() error
func isSyncCall(c ssa.CallInstruction) bool { return methodCallSig(c, "Sync", 0, 1) }

// isStdCall reports a static call to the std function with the given full name (e.g. "hash/crc32.ChecksumIEEE").
func isStdCall(c ssa.CallInstruction, full string) bool {
	f := c.Common().StaticCallee()
	return f != nil && fullFuncName(f) == full
}

// calls returns the call instructions of fn (optionally including nested closures) satisfying pred.
func calls(fn *ssa.Function, closures bool, pred func(ssa.CallInstruction) bool) []ssa.CallInstruction {
	var out []ssa.CallInstruction
	fns := []*ssa.Function{fn}
	if closures {
		fns = withClosures(fn)
	}
	for _, f := range fns {
		allInstrs(f, func(i ssa.Instruction) {
			if c, ok := i.(ssa.CallInstruction); ok && pred(c) {
				out = append(out, c)
			}
		})
	}
	return out
}

// reachableFrom returns the in-module functions reachable from the roots in the CHA graph
// (roots included), restricted by keep (nil = all in-module functions).
func (w *World) reachableFrom(roots []*ssa.Function, keep func(*ssa.Function) bool) map[*ssa.Function]*ssa.Function {
	g := w.CHA()
	parent := map[*ssa.Function]*ssa.Function{}
	var q []*ssa.Function
	for _, r := range roots {
		if r == nil {
			continue
		}
		if _, ok := parent[r]; !ok {
			parent[r] = nil
			q = append(q, r)
		}
	}
	for len(q) > 0 {
		f := q[0]
		q = q[1:]
		n := g.Nodes[f]
		if n == nil {
			continue
		}
		// closures created in f are reachable with f
		for _, a := range f.AnonFuncs {
			if _, ok := parent[a]; !ok {
				parent[a] = f
				q = append(q, a)
			}
		}
		for _, e := range n.Out {
			c := e.Callee.Func
			if c == nil || !w.fnSet[c] && c.Blocks != nil && !w.inModule(c) {
				continue
			}
			if c.Blocks == nil {
				continue
			}
			if !w.inModule(c) {
				continue
			}
			if keep != nil && !keep(c) {
				continue
			}
			if _, ok := parent[c]; !ok {
				parent[c] = f
				q = append(q, c)
			}
		}
	}
	return parent
}

// chain renders the call chain root -> ... -> f recorded by reachableFrom.
func chain(parent map[*ssa.Function]*ssa.Function, f *ssa.Function) []string {
	var rev []string
	for x := f; x != nil; x = parent[x] {
		rev = append(rev, fnName(x))
		if len(rev) > 40 {
			break
		}
	}
	for i, j := 0, len(rev)-1; i < j; i, j = i+1, j-1 {
		rev[i], rev[j] = rev[j], rev[i]
	}
	return rev
}

func sortedFns(m map[*ssa.Function]*ssa.Function) []*ssa.Function {
	out := make([]*ssa.Function, 0, len(m))
	for f := range m {
		out = append(out, f)
	}
	sort.Slice(out, func(i, j int) bool { return out[i].String() < out[j].String() })
	return out
}

// succEdgeOfCond: for an If on condition c, which successor index is taken when c is true (always 0).
// cmpEdges decodes an If whose condition is a comparison `a OP b` and returns the successor index on which
// the relation rel(a,b) certainly holds, for rel in {"eq","ne"}.
func eqEdge(iff *ssa.If) (a, b ssa.Value, eqIdx int, ok bool) {
	bin, isBin := iff.Cond.(*ssa.BinOp)
	if !isBin {
		return nil, nil, 0, false
	}
	switch bin.Op {
	case token.EQL:
		return bin.X, bin.Y, 0, true
	case token.NEQ:
		return bin.X, bin.Y, 1, true
	}
	return nil, nil, 0, false
}

// boolCondEdge: for an If whose condition is (possibly negated) boolean value v, return the successor
// index taken when v is true.
func boolCondEdge(iff *ssa.If) (v ssa.Value, trueIdx int) {
	c := iff.Cond
	idx := 0
	for {
		if u, ok := c.(*ssa.UnOp); ok && u.Op == token.NOT {
			c = u.X
			idx = 1 - idx
			continue
		}
		break
	}
	return c, idx
}

// mustPass: does every possibly-successful return of fn lie behind an event?
// instrEvent marks instructions that are the event; edgeEvent marks CFG edges that are the event.
// Returns the success returns NOT preceded by the event on some path.
func mustPass(w *World, fn *ssa.Function, instrEvent func(ssa.Instruction) bool, edgeEvent func(b *ssa.BasicBlock, idx int) bool) []*ssa.Return {
	rule := &flowRule{w: w}
	rule.step = func(ins ssa.Instruction, s int) (uint64, bool) {
		if instrEvent != nil && instrEvent(ins) {
			return 1 << 1, true
		}
		return 0, false
	}
	if edgeEvent != nil {
		rule.edge = func(b *ssa.BasicBlock, idx int, s int) (uint64, bool) {
			if edgeEvent(b, idx) {
				return 1 << 1, true
			}
			return 0, false
		}
	}
	res := rule.run(fn, 1<<0, 0)
	var bad []*ssa.Return
	for ret, m := range res.successReturns() {
		if m&1 != 0 {
			bad = append(bad, ret)
		}
	}
	sort.Slice(bad, func(i, j int) bool { return bad[i].Pos() < bad[j].Pos() })
	return bad
}

// returnsOf lists the Return instructions of fn.
func returnsOf(fn *ssa.Function) []*ssa.Return {
	var out []*ssa.Return
	for _, b := range fn.Blocks {
		if b == fn.Recover {
			continue // only entered after a recovered panic; not a normal exit
		}
		if r, ok := lastInstr(b).(*ssa.Return); ok {
			out = append(out, r)
		}
	}
	return out
}

// reachableAvoiding returns the blocks reachable from the entry without taking refused edges.
func reachableAvoiding(fn *ssa.Function, refuse func(b *ssa.BasicBlock, idx int) bool) map[*ssa.BasicBlock]bool {
	seen := map[*ssa.BasicBlock]bool{}
	if len(fn.Blocks) == 0 {
		return seen
	}
	stack := []*ssa.BasicBlock{fn.Blocks[0]}
	seen[fn.Blocks[0]] = true
	for len(stack) > 0 {
		b := stack[len(stack)-1]
		stack = stack[:len(stack)-1]
		for i, s := range b.Succs {
			if refuse(b, i) || seen[s] {
				continue
			}
			seen[s] = true
			stack = append(stack, s)
		}
	}
	return seen
}

// errorIsChecked: the error result of call c is propagated: either tested against nil with the
// non-nil edge leading to an error return, or returned directly.
func errorIsChecked(c *ssa.Call) (bool, string) {
	sig := c.Call.Signature()
	idx := errResultIndex(sig)
	if idx < 0 {
		return true, "no error result"
	}
	var ev ssa.Value
	if sig.Results().Len() == 1 {
		ev = c
	} else {
		for _, ref := range *c.Referrers() {
			if e, ok := ref.(*ssa.Extract); ok && e.Index == idx {
				ev = e
			}
		}
	}
	if ev == nil {
		return false, "error result discarded"
	}
	return errValueChecked(ev, 0)
}

func errValueChecked(ev ssa.Value, depth int) (bool, string) {
	if depth > 4 {
		return false, "error flows too far to follow"
	}
	refs := ev.Referrers()
	if refs == nil {
		return false, "error result unused"
	}
	for _, ref := range *refs {
		switch x := ref.(type) {
		case *ssa.Return:
			return true, "returned"
		case *ssa.BinOp:
			v, trueNonNil, ok := nilTest(x)
			if !ok || v != ev {
				continue
			}
			for _, r2 := range *x.Referrers() {
				iff, ok := r2.(*ssa.If)
				if !ok {
					continue
				}
				idx := 1
				if trueNonNil {
					idx = 0
				}
				tgt := iff.Block().Succs[idx]
				if blockLeadsToErrorReturn(tgt, 0) {
					return true, "nil-tested, non-nil edge returns an error"
				}
				return false, "nil-tested but the non-nil edge does not return an error"
			}
		case *ssa.Phi:
			if ok, why := errValueChecked(x, depth+1); ok {
				return ok, why
			}
		case *ssa.Store:
			// stored into a named result / local: follow loads of that alloc
			if al, ok := x.Addr.(*ssa.Alloc); ok {
				for _, r2 := range *al.Referrers() {
					if ld, ok := r2.(*ssa.UnOp); ok && ld.Op == token.MUL {
						if ok, why := errValueChecked(ld, depth+1); ok {
							return ok, why
						}
					}
				}
			}
		case *ssa.MakeClosure, *ssa.Call:
			// passed on (e.g. wrapped with fmt.Errorf): accept if the wrapped value is returned
			if c, ok := x.(*ssa.Call); ok {
				if ok2, why := errValueChecked(c, depth+1); ok2 {
					return ok2, why
				}
			}
		}
	}
	return false, "error result never tested or returned"
}

// blockLeadsToErrorReturn: every path from b reaches a return classified as error without branching
// back (bounded search).
func blockLeadsToErrorReturn(b *ssa.BasicBlock, depth int) bool {
	if depth > 6 {
		return false
	}
	switch t := lastInstr(b).(type) {
	case *ssa.Return:
		return classifyReturn(t) == RetError
	case *ssa.Jump:
		return blockLeadsToErrorReturn(b.Succs[0], depth+1)
	case *ssa.If:
		return blockLeadsToErrorReturn(b.Succs[0], depth+1) && blockLeadsToErrorReturn(b.Succs[1], depth+1)
	case *ssa.Panic:
		return true
	}
	return false
}

func containsStr(xs []string, s string) bool {
	for _, x := range xs {
		if x == s {
			return true
		}
	}
	return false
}

func joinSorted(m map[string]bool) string {
	var xs []string
	for k := range m {
		xs = append(xs, k)
	}
	sort.Strings(xs)
	return strings.Join(xs, ",")
}

// errorReachesErrorReturn: the error result of c is nil-tested and an error return is reachable from the
// non-nil edge (weaker than errorIsChecked: the non-nil edge may tolerate some error kinds).
func errorReachesErrorReturn(c *ssa.Call) (bool, string) {
	if ok, why := errorIsChecked(c); ok {
		return ok, why
	}
	sig := c.Call.Signature()
	idx := errResultIndex(sig)
	var ev ssa.Value
	if sig.Results().Len() == 1 {
		ev = c
	} else {
		for _, ref := range *c.Referrers() {
			if e, ok := ref.(*ssa.Extract); ok && e.Index == idx {
				ev = e
			}
		}
	}
	if ev == nil {
		return false, "error result discarded"
	}
	for _, ref := range *ev.Referrers() {
		bin, ok := ref.(*ssa.BinOp)
		if !ok {
			continue
		}
		v, trueNonNil, ok := nilTest(bin)
		if !ok || v != ev {
			continue
		}
		for _, r2 := range *bin.Referrers() {
			iff, ok := r2.(*ssa.If)
			if !ok {
				continue
			}
			idx := 1
			if trueNonNil {
				idx = 0
			}
			seen := map[*ssa.BasicBlock]bool{}
			var dfs func(b *ssa.BasicBlock, d int) bool
			dfs = func(b *ssa.BasicBlock, d int) bool {
				if seen[b] || d > 8 {
					return false
				}
				seen[b] = true
				if ret, ok := lastInstr(b).(*ssa.Return); ok {
					return classifyReturn(ret) == RetError
				}
				for _, s := range b.Succs {
					if dfs(s, d+1) {
						return true
					}
				}
				return false
			}
			if dfs(iff.Block().Succs[idx], 0) {
				return true, "nil-tested; an error return is reachable from the non-nil edge"
			}
		}
	}
	return false, "error result is never turned into an error return"
}

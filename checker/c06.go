package main

// C06 (ISO9660), C07 (squashfs), C19 (metadata): structural clauses around byte-layout agreement.

import (
	"fmt"
	"go/constant"
	"go/token"
	"go/types"
	"sort"
	"strings"

	"golang.org/x/tools/go/ssa"
)

func init() {
	register("C06", runC06, `Structural clauses of the ISO9660 round trip, decided statically.
C06-a the image is written and read at the same translation: every device I/O of package iso9660 goes through the backend wrapped by backend.Sub(b, start, size) and adds no start of its own (rule C03-a applied to reads as well as writes).
C06-b layout agreement (byte-layout extraction) of the primary and supplementary volume descriptors: every byte the parser maps to a field is written by the encoder from the same field with the same significance; both-endian fields carry one field on both halves.
Not covered: the directory record / SUSP entries (their encoders return record lists the extractor does not model), walkTree, name mangling and collision resolution, sector layout, extent non-overlap.`)
	register("C07", runC07, `Structural clauses of the squashfs round trip, decided statically.
C07-a layout agreement (byte-layout extraction) for the superblock, the inode header, 12 inode bodies, the directory header and entry and the fragment entry.
C07-b exhaustiveness: parseInodeBody has a case for every inodeType constant and newCompressor for every compression constant.
C07-c cache transparency: lru.get returns only what fetch produced or what a previous fetch stored (so results cannot depend on the cache size); shared with C17-e.
Not covered: block/fragment packing, compressor behaviour, directory ordering, the Finalize cursor arithmetic.`)
	register("C19", runC19, `Structural clauses of metadata preservation, decided statically.
C19-a layout agreement (byte-layout extraction) for the ext4 inode (split uid/gid/size/blocks halves, 4+4 timestamp pairs), the ext4 directory entry, the FAT 8.3 directory record (attribute and case flag bits with their masks, date/time words, split cluster number) and the squashfs inode header.
C19-b frame conditions: ext4 Chmod stores only permission fields of the inode, Chown only owner/group, Chtimes only the three time fields; the FAT attribute setters store only their own flag.
C19-c type mappings are total: the file-type switch tables that translate on-disk types to modes and back have a case for every type constant.
Not covered: representable ranges (pre-1980 FAT dates), the 59/60-byte symlink boundary, collection of host metadata at finalize time.`)
}

func runC06(w *World, r *Report) {
	n := c03Translation(w, r, "C06-a", "filesystem/iso9660")
	r.Floor("C06-a", n, 20)
	runCodecFamily(w, r, "C06-b", codecPairsC06[:2])
	r.Floor("C06-b", r.countRule("C06-b"), 2)
}

func runC07(w *World, r *Report) {
	runCodecFamily(w, r, "C07-a", codecPairsC07)
	exhSwitch(w, r, "C07-b", "filesystem/squashfs", "parseInodeBody", "inodeType")
	exhSwitch(w, r, "C07-b", "filesystem/squashfs", "newCompressor", "compression")
	get := w.MethodOpt("filesystem/squashfs", "lru", "get")
	if get == nil {
		fatalf("C07-c: squashfs lru.get not found")
	}
	sub := newReport("C07", r.Tier)
	c17GetTransparent(w, sub, get)
	for _, o := range sub.Obls {
		o.Rule = "C07-c"
		r.Obls = append(r.Obls, o)
		r.seen[o.Key()] = o
	}
	r.Floor("C07-a", r.countRule("C07-a"), 15)
	r.Floor("C07-b", r.countRule("C07-b"), 2)
	r.Floor("C07-c", r.countRule("C07-c"), 2)
}

// exhSwitch: function fn switches on a parameter of named type typ; every constant of that type declared in the
// package must appear as a case (a comparison of the switched value with that constant).
func exhSwitch(w *World, r *Report, rule, pkg, fn, typ string, exempt ...string) {
	var f *ssa.Function
	if i := strings.Index(fn, "."); i >= 0 {
		f = w.MethodOpt(pkg, fn[:i], fn[i+1:])
	} else {
		f = w.FuncOpt(pkg, fn)
	}
	if f == nil {
		fatalf("%s: %s.%s not found", rule, pkg, fn)
	}
	tn := w.Named(pkg, typ)
	// constants of the type
	consts := map[string]constant.Value{}
	for name, m := range w.Pkg(pkg).Members {
		if nc, ok := m.(*ssa.NamedConst); ok && types.Identical(nc.Type(), tn) {
			consts[name] = nc.Value.Value
		}
	}
	if len(consts) < 2 {
		fatalf("%s: fewer than 2 constants of type %s", rule, typ)
	}
	handled := map[string]bool{}
	allInstrs(f, func(ins ssa.Instruction) {
		bin, ok := ins.(*ssa.BinOp)
		if !ok {
			return
		}
		for _, side := range []ssa.Value{bin.X, bin.Y} {
			c, ok := side.(*ssa.Const)
			if !ok || c.Value == nil || !types.Identical(c.Type(), tn) {
				continue
			}
			for name, v := range consts {
				if constant.Compare(v, token.EQL, c.Value) {
					handled[name] = true
				}
			}
		}
	})
	var missing []string
	ex := map[string]bool{}
	for _, e := range exempt {
		ex[e] = true
	}
	for name := range consts {
		if !handled[name] && !ex[name] {
			missing = append(missing, name)
		}
	}
	sort.Strings(missing)
	r.Check(len(missing) == 0, rule, fnName(f), "handles every "+typ+" constant", w.relFile(f.Pos()), fmt.Sprintf("%d constants", len(consts)),
		"no case for "+strings.Join(missing, ",")+": such an on-disk value falls into the default branch")
}

func runC19(w *World, r *Report) {
	runCodecFamily(w, r, "C19-a", codecPairsC19)
	c19Frames(w, r)
	// C19-c: the type tables are total. Constants whose correct translation is the zero mode (what the switch yields
	// without a case) are exempt: removing their empty case changes nothing.
	exhSwitch(w, r, "C19-c", "filesystem/ext4", "inode.permissionsToMode", "fileType", "fileTypeRegularFile")
	exhSwitch(w, r, "C19-c", "filesystem/ext4", "directoryEntryInfo.Type", "directoryFileType", "dirFileTypeUnknown", "dirFileTypeRegular")
	exhSwitch(w, r, "C19-c", "filesystem/squashfs", "directoryEntry.Mode", "inodeType")
	r.Floor("C19-c", r.countRule("C19-c"), 3)
	r.Floor("C19-a", r.countRule("C19-a"), 4)
	r.Floor("C19-b", r.countRule("C19-b"), 6)
}

// storedFields: struct fields (of type owner) stored by fn and the in-package callees it reaches (excluding
// the write-back helpers), by name.
func storedFields(w *World, fn *ssa.Function, owner string, stop func(*ssa.Function) bool) map[string]bool {
	out := map[string]bool{}
	seen := map[*ssa.Function]bool{}
	var visit func(f *ssa.Function, d int)
	visit = func(f *ssa.Function, d int) {
		if seen[f] || d > 4 || f.Blocks == nil {
			return
		}
		seen[f] = true
		allInstrs(f, func(ins ssa.Instruction) {
			switch x := ins.(type) {
			case *ssa.Store:
				n, fld, base, ok := fieldOfAddr(x.Addr)
				// a store into a nested struct field (inode.permissionsOwner.special) counts as a store of the owner's field
				for k := 0; ok && k < 3 && (n == nil || n.Obj().Name() != owner); k++ {
					fa, isFA := base.(*ssa.FieldAddr)
					if !isFA {
						break
					}
					n, fld, base, ok = fieldOfAddr(fa)
				}
				if ok && n != nil && n.Obj().Name() == owner {
					// ignore stores into freshly built objects
					for i := 0; i < 3; i++ {
						if fa, ok := base.(*ssa.FieldAddr); ok {
							base = fa.X
						}
					}
					if _, fresh := base.(*ssa.Alloc); !fresh {
						out[fld.Name()] = true
					}
				}
			case *ssa.Call:
				if g := x.Call.StaticCallee(); g != nil && w.fnSet[g] && w.pkgOf(g) == w.pkgOf(fn) && (stop == nil || !stop(g)) {
					visit(g, d+1)
				}
			}
		})
	}
	visit(fn, 0)
	return out
}

func c19Frames(w *World, r *Report) {
	stop := func(g *ssa.Function) bool {
		n := g.Name()
		return strings.HasPrefix(n, "write") || strings.HasPrefix(n, "read") || strings.HasPrefix(n, "allocate") || n == "toBytes"
	}
	want := map[string][]string{
		"Chmod":   {"permissionsOwner", "permissionsGroup", "permissionsOther"},
		"Chown":   {"owner", "group"},
		"Chtimes": {"createTime", "accessTime", "modifyTime", "changeTime"},
	}
	for _, mn := range []string{"Chmod", "Chown", "Chtimes"} {
		m := w.MethodOpt("filesystem/ext4", "FileSystem", mn)
		if m == nil {
			fatalf("C19-b: ext4 FileSystem.%s not found", mn)
		}
		got := storedFields(w, m, "inode", stop)
		allowed := map[string]bool{}
		for _, a := range want[mn] {
			allowed[a] = true
		}
		var extra []string
		for f := range got {
			if !allowed[f] {
				extra = append(extra, f)
			}
		}
		sort.Strings(extra)
		var have []string
		for f := range got {
			have = append(have, f)
		}
		sort.Strings(have)
		r.Check(len(extra) == 0 && len(got) > 0, "C19-b", fnName(m), "stores only "+strings.Join(want[mn], "/"), w.relFile(m.Pos()), "stores: "+strings.Join(have, ","),
			mn+" also changes inode field(s) "+strings.Join(extra, ",")+": changing one attribute changes another"+map[bool]string{true: "", false: " (or stores no inode field at all)"}[len(got) > 0])
	}
	// FAT attribute setters on File
	fatWant := map[string]string{"SetHidden": "isHidden", "SetSystem": "isSystem", "SetReadOnly": "isReadOnly"}
	for mn, fld := range fatWant {
		m := w.MethodOpt("filesystem/fat12", "File", mn)
		if m == nil {
			continue
		}
		got := storedFields(w, m, "directoryEntry", stop)
		var have []string
		for f := range got {
			have = append(have, f)
		}
		sort.Strings(have)
		r.Check(len(got) == 1 && got[fld], "C19-b", fnName(m), "stores only "+fld, w.relFile(m.Pos()), "", mn+" stores "+strings.Join(have, ",")+" instead of exactly "+fld)
	}
}

package main

// C06 (ISO9660), C07 (squashfs), C19 (metadata): structural clauses around byte-layout agreement.

import (
	"fmt"
	"go/constant"
	"go/token"
	"go/types"
	"sort"
	"strings"

	"golang.org/x/tools/go/ssa"
)

func init() {
	register("C06", runC06, `Structural clauses of the ISO9660 round trip, decided statically.
C06-a the image is written and read at the same translation: every device I/O of package iso9660 goes through the backend wrapped by backend.Sub(b, start, size) and adds no start of its own (rule C03-a applied to reads as well as writes).
C06-b layout agreement (byte-layout extraction) of the primary and supplementary volume descriptors and of the fixed part of the directory record (extended attribute length, extent location, data length, recording time, volume sequence number): every byte the parser maps to a field is written by the encoder from the same field with the same significance; both-endian fields carry one field on both halves.
Not covered: the directory record's flag byte, name field and SUSP / Rock Ridge entries, walkTree, name mangling and collision resolution, sector layout, extent non-overlap.`)
	register("C07", runC07, `Structural clauses of the squashfs round trip, decided statically.
C07-a layout agreement (byte-layout extraction) for the superblock, the inode header, 12 inode bodies, the directory header and entry and the fragment entry.
C07-b exhaustiveness: parseInodeBody has a case for every inodeType constant and newCompressor for every compression constant.
C07-c cache transparency: lru.get returns only what fetch produced or what a previous fetch stored (so results cannot depend on the cache size); shared with C17-e. A cache size of 0 is in the property's quantifier: every call of lru.pop (which panics on an empty list) is dominated by a test that the cache holds at least one block (len(cache) > k for a constant k >= 0, or != 0).
Not covered: block/fragment packing, compressor behaviour, directory ordering, the Finalize cursor arithmetic.`)
	register("C19", runC19, `Structural clauses of metadata preservation, decided statically.
C19-a layout agreement (byte-layout extraction) for the ext4 inode (split uid/gid/size/blocks halves, 4+4 timestamp pairs), the ext4 directory entry, the FAT 8.3 directory record (attribute and case flag bits with their masks, date/time words, split cluster number) and the squashfs inode header.
C19-b frame conditions: ext4 Chmod stores only permission fields of the inode, Chown only owner/group, Chtimes only the three time fields; the FAT attribute setters store only their own flag.
C19-c type mappings are total: the file-type switch tables that translate on-disk types to modes and back have a case for every type constant; wherever a mode is compared with an os.Mode* type constant it has been reduced to its type bits first (m & T, m & os.ModeType, m.Type()).
C19-d the packed DOS date and time words: the decoder takes each component from the bit offset where the encoder puts it, with a mask exactly as wide as the field.
C19-e the ext4 timestamp pair (32-bit seconds word + 2 epoch bits in the extra word): the decoder widens the seconds word as a signed 32-bit number, so the encoder must derive the epoch bits from the difference between the seconds and their signed 32-bit truncation (the kernel's formula) and not from the raw bits above bit 31; both sides use the same signedness.
C19-f the FAT attribute byte (11) and case byte (12) are built from single-bit updates; the set of values the encoder can leave in the byte is closed under OR with every caller-settable flag bit (read-only, hidden, system, archive; the two case bits), so no combination of flags loses a member when a directory is written.
Not covered: representable ranges (pre-1980 FAT dates), the 59/60-byte symlink boundary, collection of host metadata at finalize time.`)
}

func runC06(w *World, r *Report) {
	n := c03Translation(w, r, "C06-a", "filesystem/iso9660")
	r.Floor("C06-a", n, 20)
	runCodecFamily(w, r, "C06-b", codecPairsC06)
	r.Floor("C06-b", r.countRule("C06-b"), 3)
}

func runC07(w *World, r *Report) {
	runCodecFamily(w, r, "C07-a", codecPairsC07)
	exhSwitch(w, r, "C07-b", "filesystem/squashfs", "parseInodeBody", "inodeType")
	exhSwitch(w, r, "C07-b", "filesystem/squashfs", "newCompressor", "compression")
	get := w.MethodOpt("filesystem/squashfs", "lru", "get")
	if get == nil {
		fatalf("C07-c: squashfs lru.get not found")
	}
	sub := newReport("C07", r.Tier)
	c17GetTransparent(w, sub, get)
	for _, o := range sub.Obls {
		o.Rule = "C07-c"
		r.Obls = append(r.Obls, o)
		r.seen[o.Key()] = o
	}
	c07PopGuard(w, r)
	r.Floor("C07-a", r.countRule("C07-a"), 15)
	r.Floor("C07-b", r.countRule("C07-b"), 2)
	r.Floor("C07-c", r.countRule("C07-c"), 2)
}

// exhSwitch: function fn switches on a parameter of named type typ; every constant of that type declared in the
// package must appear as a case (a comparison of the switched value with that constant).
func exhSwitch(w *World, r *Report, rule, pkg, fn, typ string, exempt ...string) {
	var f *ssa.Function
	if i := strings.Index(fn, "."); i >= 0 {
		f = w.MethodOpt(pkg, fn[:i], fn[i+1:])
	} else {
		f = w.FuncOpt(pkg, fn)
	}
	if f == nil {
		fatalf("%s: %s.%s not found", rule, pkg, fn)
	}
	tn := w.Named(pkg, typ)
	// constants of the type
	consts := map[string]constant.Value{}
	for name, m := range w.Pkg(pkg).Members {
		if nc, ok := m.(*ssa.NamedConst); ok && types.Identical(nc.Type(), tn) {
			consts[name] = nc.Value.Value
		}
	}
	if len(consts) < 2 {
		fatalf("%s: fewer than 2 constants of type %s", rule, typ)
	}
	handled := map[string]bool{}
	allInstrs(f, func(ins ssa.Instruction) {
		bin, ok := ins.(*ssa.BinOp)
		if !ok {
			return
		}
		for _, side := range []ssa.Value{bin.X, bin.Y} {
			c, ok := side.(*ssa.Const)
			if !ok || c.Value == nil || !types.Identical(c.Type(), tn) {
				continue
			}
			for name, v := range consts {
				if constant.Compare(v, token.EQL, c.Value) {
					handled[name] = true
				}
			}
		}
	})
	var missing []string
	ex := map[string]bool{}
	for _, e := range exempt {
		ex[e] = true
	}
	for name := range consts {
		if !handled[name] && !ex[name] {
			missing = append(missing, name)
		}
	}
	sort.Strings(missing)
	r.Check(len(missing) == 0, rule, fnName(f), "handles every "+typ+" constant", w.relFile(f.Pos()), fmt.Sprintf("%d constants", len(consts)),
		"no case for "+strings.Join(missing, ",")+": such an on-disk value falls into the default branch")
}

func runC19(w *World, r *Report) {
	runCodecFamily(w, r, "C19-a", codecPairsC19)
	c19Frames(w, r)
	// C19-c: the type tables are total. Constants whose correct translation is the zero mode (what the switch yields
	// without a case) are exempt: removing their empty case changes nothing.
	exhSwitch(w, r, "C19-c", "filesystem/ext4", "inode.permissionsToMode", "fileType", "fileTypeRegularFile")
	exhSwitch(w, r, "C19-c", "filesystem/ext4", "directoryEntryInfo.Type", "directoryFileType", "dirFileTypeUnknown", "dirFileTypeRegular")
	exhSwitch(w, r, "C19-c", "filesystem/squashfs", "directoryEntry.Mode", "inodeType")
	c19TypeTests(w, r)
	c19DosTime(w, r)
	c19FatFlagBits(w, r)
	c19Ext4TimeSign(w, r, "C19-e")
	r.Floor("C19-e", r.countRule("C19-e"), 1)
	r.Floor("C19-f", r.countRule("C19-f"), 2)
	r.Floor("C19-d", r.countRule("C19-d"), 8)
	r.Floor("C19-c", r.countRule("C19-c"), 3)
	r.Floor("C19-a", r.countRule("C19-a"), 4)
	r.Floor("C19-b", r.countRule("C19-b"), 6)
}

// storedFields: struct fields (of type owner) stored by fn and the in-package callees it reaches (excluding
// the write-back helpers), by name.
func storedFields(w *World, fn *ssa.Function, owner string, stop func(*ssa.Function) bool) map[string]bool {
	out := map[string]bool{}
	seen := map[*ssa.Function]bool{}
	var visit func(f *ssa.Function, d int)
	visit = func(f *ssa.Function, d int) {
		if seen[f] || d > 4 || f.Blocks == nil {
			return
		}
		seen[f] = true
		allInstrs(f, func(ins ssa.Instruction) {
			switch x := ins.(type) {
			case *ssa.Store:
				n, fld, base, ok := fieldOfAddr(x.Addr)
				// a store into a nested struct field (inode.permissionsOwner.special) counts as a store of the owner's field
				for k := 0; ok && k < 3 && (n == nil || n.Obj().Name() != owner); k++ {
					fa, isFA := base.(*ssa.FieldAddr)
					if !isFA {
						break
					}
					n, fld, base, ok = fieldOfAddr(fa)
				}
				if ok && n != nil && n.Obj().Name() == owner {
					// ignore stores into freshly built objects
					for i := 0; i < 3; i++ {
						if fa, ok := base.(*ssa.FieldAddr); ok {
							base = fa.X
						}
					}
					if _, fresh := base.(*ssa.Alloc); !fresh {
						out[fld.Name()] = true
					}
				}
			case *ssa.Call:
				if g := x.Call.StaticCallee(); g != nil && w.fnSet[g] && w.pkgOf(g) == w.pkgOf(fn) && (stop == nil || !stop(g)) {
					visit(g, d+1)
				}
			}
		})
	}
	visit(fn, 0)
	return out
}

func c19Frames(w *World, r *Report) {
	stop := func(g *ssa.Function) bool {
		n := g.Name()
		return strings.HasPrefix(n, "write") || strings.HasPrefix(n, "read") || strings.HasPrefix(n, "allocate") || n == "toBytes"
	}
	want := map[string][]string{
		"Chmod":   {"permissionsOwner", "permissionsGroup", "permissionsOther"},
		"Chown":   {"owner", "group"},
		"Chtimes": {"createTime", "accessTime", "modifyTime", "changeTime"},
	}
	for _, mn := range []string{"Chmod", "Chown", "Chtimes"} {
		m := w.MethodOpt("filesystem/ext4", "FileSystem", mn)
		if m == nil {
			fatalf("C19-b: ext4 FileSystem.%s not found", mn)
		}
		got := storedFields(w, m, "inode", stop)
		allowed := map[string]bool{}
		for _, a := range want[mn] {
			allowed[a] = true
		}
		var extra []string
		for f := range got {
			if !allowed[f] {
				extra = append(extra, f)
			}
		}
		sort.Strings(extra)
		var have []string
		for f := range got {
			have = append(have, f)
		}
		sort.Strings(have)
		r.Check(len(extra) == 0 && len(got) > 0, "C19-b", fnName(m), "stores only "+strings.Join(want[mn], "/"), w.relFile(m.Pos()), "stores: "+strings.Join(have, ","),
			mn+" also changes inode field(s) "+strings.Join(extra, ",")+": changing one attribute changes another"+map[bool]string{true: "", false: " (or stores no inode field at all)"}[len(got) > 0])
	}
	// FAT attribute setters on File
	fatWant := map[string]string{"SetHidden": "isHidden", "SetSystem": "isSystem", "SetReadOnly": "isReadOnly"}
	for mn, fld := range fatWant {
		m := w.MethodOpt("filesystem/fat12", "File", mn)
		if m == nil {
			continue
		}
		got := storedFields(w, m, "directoryEntry", stop)
		var have []string
		for f := range got {
			have = append(have, f)
		}
		sort.Strings(have)
		r.Check(len(got) == 1 && got[fld], "C19-b", fnName(m), "stores only "+fld, w.relFile(m.Pos()), "", mn+" stores "+strings.Join(have, ",")+" instead of exactly "+fld)
	}
}

// c07PopGuard: lru.pop panics on an empty list; with the cache disabled (maxBlocks 0, trim(-1)) the list is empty.
// Every call of pop must be dominated by the true edge of `len(l.cache) > k` (k a constant >= 0) or `!= 0`.
func c07PopGuard(w *World, r *Report) {
	pop := w.MethodOpt("filesystem/squashfs", "lru", "pop")
	if pop == nil {
		fatalf("C07-c: squashfs lru.pop not found")
	}
	n := 0
	for _, fn := range w.ModFns {
		if w.pkgOf(fn) != "filesystem/squashfs" || fn.Blocks == nil {
			continue
		}
		for _, c := range calls(fn, false, func(c ssa.CallInstruction) bool { return c.Common().StaticCallee() == pop }) {
			n++
			guarded := false
			for _, b := range fn.Blocks {
				iff, ok := lastInstr(b).(*ssa.If)
				if !ok {
					continue
				}
				cond, tIdx := boolCondEdge(iff)
				bin, ok := cond.(*ssa.BinOp)
				if !ok {
					continue
				}
				isLenCache := func(v ssa.Value) bool {
					cl, ok := stripConv(v).(*ssa.Call)
					if !ok {
						return false
					}
					bi, ok := cl.Call.Value.(*ssa.Builtin)
					if !ok || bi.Name() != "len" {
						return false
					}
					return w.prov(cl.Call.Args[0], provOpts{}).hasField("lru", "cache")
				}
				// the value the length is compared with, as a constant; max(x, c) with a constant c >= 0 is at least c,
				// which for `len > max(x, c)` is as good as the constant c
				lowerConst := func(v ssa.Value) (int64, bool) {
					if k, ok := constInt(v); ok {
						return k, true
					}
					if cl, ok := stripConv(v).(*ssa.Call); ok {
						if bi, ok := cl.Call.Value.(*ssa.Builtin); ok && bi.Name() == "max" {
							best, found := int64(0), false
							for _, a := range cl.Call.Args {
								if k, ok := constInt(a); ok && (!found || k > best) {
									best, found = k, true
								}
							}
							return best, found
						}
					}
					return 0, false
				}
				var k int64
				var isC, viaMax bool
				op := bin.Op
				switch {
				case isLenCache(bin.X):
					k, isC = lowerConst(bin.Y)
					_, plain := constInt(bin.Y)
					viaMax = isC && !plain
				case isLenCache(bin.Y):
					k, isC = lowerConst(bin.X)
					_, plain := constInt(bin.X)
					viaMax = isC && !plain
					op = map[token.Token]token.Token{token.LSS: token.GTR, token.GTR: token.LSS, token.LEQ: token.GEQ, token.GEQ: token.LEQ, token.NEQ: token.NEQ, token.EQL: token.EQL}[op]
				default:
					continue
				}
				if !isC {
					continue
				}
				nonEmptyIdx := -1
				switch {
				case op == token.GTR && k >= 0, op == token.GEQ && k >= 1, op == token.NEQ && k == 0 && !viaMax:
					nonEmptyIdx = tIdx
				case op == token.LEQ && k >= 0, op == token.LSS && k >= 1, op == token.EQL && k == 0 && !viaMax:
					nonEmptyIdx = 1 - tIdx
				}
				if nonEmptyIdx >= 0 && edgeDominates(b, nonEmptyIdx, c.Block()) {
					guarded = true
				}
			}
			r.Check(guarded, "C07-c", fnName(fn), "eviction pops only a non-empty cache #"+ordinal(fn, c), w.relFile(c.Pos()), "",
				"lru.pop panics on an empty list and this call is not behind a test that the cache holds a block: with the cache disabled (size 0, trim(-1)) every read panics while holding the cache mutex")
		}
	}
	if n == 0 {
		r.Ok("C07-c", "filesystem/squashfs", "lru.pop is not called", "filesystem/squashfs", "")
	}
}

// c19TypeTests (C19-c): wherever a file mode is compared with one of the os.Mode* type constants, the compared value
// contains type bits only: it is `m & c` with c inside os.ModeType (a bit test m&T == T, or m&os.ModeType), or the
// result of FileMode.Type(). A value that still carries setuid/setgid/sticky or permission bits (m &^ os.ModePerm,
// or m itself) compares unequal for a sticky directory, which is then reported as a regular file.
func c19TypeTests(w *World, r *Report) {
	const modeType = 0x8f280000 // os.ModeType: ModeDir|ModeSymlink|ModeNamedPipe|ModeSocket|ModeDevice|ModeCharDevice|ModeIrregular
	isFileMode := func(t types.Type) bool {
		n := namedOf(t)
		return n != nil && n.Obj().Name() == "FileMode" && n.Obj().Pkg() != nil && (n.Obj().Pkg().Path() == "io/fs" || n.Obj().Pkg().Path() == "os")
	}
	for _, fn := range w.ModFns {
		if !strings.HasPrefix(w.pkgOf(fn), "filesystem/") || fn.Blocks == nil {
			continue
		}
		k := 0
		allInstrs(fn, func(ins ssa.Instruction) {
			bin, ok := ins.(*ssa.BinOp)
			if !ok || (bin.Op != token.EQL && bin.Op != token.NEQ) {
				return
			}
			for side := 0; side < 2; side++ {
				cv, x := bin.Y, bin.X
				if side == 1 {
					cv, x = bin.X, bin.Y
				}
				c, isC := cv.(*ssa.Const)
				if !isC || c.Value == nil || !isFileMode(c.Type()) {
					continue
				}
				v, exact := constant.Uint64Val(constant.ToInt(c.Value))
				if !exact || v == 0 || v&^modeType != 0 {
					continue // not a pure type constant (0 is the "regular file" / "no bits" test, judged below only with a mask)
				}
				k++
				ok := false
				switch y := stripConv(x).(type) {
				case *ssa.BinOp:
					if y.Op == token.AND {
						for _, m := range []ssa.Value{y.X, y.Y} {
							if mc, isC := m.(*ssa.Const); isC && mc.Value != nil {
								if mv, exact := constant.Uint64Val(constant.ToInt(mc.Value)); exact && mv&^modeType == 0 {
									ok = true
								}
							}
						}
					}
				case *ssa.Call:
					if g := y.Call.StaticCallee(); g != nil && g.Name() == "Type" {
						ok = true
					}
				}
				r.Check(ok, "C19-c", fnName(fn), fmt.Sprintf("file type test #%d looks at type bits only", k), w.relFile(bin.Pos()), "",
					"a mode is compared with a file-type constant without first being reduced to its type bits (m & T, m & os.ModeType or m.Type()): a directory or device that also has setuid, setgid or sticky set compares unequal and is mapped to the default (a regular file)")
				return
			}
		})
	}
}

// c19DosTime (C19-d): the packed DOS date and time words. The encoder (timeToDateTime) places each component with a
// left shift; the decoder (dateTimeToTime) takes it back with a right shift and a mask. The two must describe the same
// bit fields: same set of shifts per word, and every decoder mask exactly as wide as the field the encoder's shifts
// leave for it (the next higher shift, or the top of the 16-bit word). A narrower mask loses high values (years past
// 2043), a wider one lets the neighbour in.
func c19DosTime(w *World, r *Report) {
	enc := w.FuncOpt("filesystem/fat12", "timeToDateTime")
	dec := w.FuncOpt("filesystem/fat12", "dateTimeToTime")
	if enc == nil || dec == nil {
		fatalf("C19-d: fat12.timeToDateTime / dateTimeToTime not found")
	}
	rets := returnsOf(enc)
	if len(rets) != 1 || len(rets[0].Results) != 2 || len(dec.Params) != 2 {
		fatalf("C19-d: unexpected shape of the DOS date/time helpers")
	}
	for i, word := range []string{"date", "time"} {
		// encoder shifts
		encShifts := map[int64]bool{}
		for _, t := range addendsOr(stripConv(retResult(rets[0], i))) {
			v := stripConv(t)
			if b, ok := v.(*ssa.BinOp); ok && b.Op == token.SHL {
				if s, ok := constInt(b.Y); ok {
					encShifts[s] = true
					continue
				}
			}
			encShifts[0] = true
		}
		// decoder extractions from parameter i
		type ext struct {
			shift int64
			mask  int64 // -1: none
			at    ssa.Instruction
		}
		var exts []ext
		p := dec.Params[i]
		var follow func(v ssa.Value, shift int64)
		follow = func(v ssa.Value, shift int64) {
			masked := false
			for _, u := range *v.Referrers() {
				switch x := u.(type) {
				case *ssa.BinOp:
					if x.X != v {
						continue
					}
					if s, ok := constInt(x.Y); ok {
						switch x.Op {
						case token.SHR:
							follow(x, shift+s)
							masked = true
						case token.AND:
							exts = append(exts, ext{shift, s, x})
							masked = true
						}
					}
				case *ssa.Convert:
					if !masked {
						exts = append(exts, ext{shift, -1, x})
						masked = true
					}
				}
			}
		}
		follow(p, 0)
		decShifts := map[int64]bool{}
		for _, e := range exts {
			decShifts[e.shift] = true
		}
		same := len(encShifts) == len(decShifts)
		for s := range encShifts {
			if !decShifts[s] {
				same = false
			}
		}
		r.Check(same && len(encShifts) >= 3, "C19-d", fnName(dec), "DOS "+word+" word: decoder takes the fields where the encoder puts them", w.relFile(dec.Pos()), fmt.Sprintf("shifts %v", keysOf(encShifts)),
			fmt.Sprintf("the encoder places the components of the %s word at bit offsets %v, the decoder takes them from %v", word, keysOf(encShifts), keysOf(decShifts)))
		if !same {
			continue
		}
		var shifts []int64
		for s := range encShifts {
			shifts = append(shifts, s)
		}
		sort.Slice(shifts, func(a, b int) bool { return shifts[a] < shifts[b] })
		for _, e := range exts {
			width := int64(16) - e.shift
			for _, s := range shifts {
				if s > e.shift {
					width = s - e.shift
					break
				}
			}
			want := int64(1)<<uint(width) - 1
			ok := e.mask == want || (e.mask == -1 && e.shift+width == 16)
			r.Check(ok, "C19-d", fnName(dec), fmt.Sprintf("DOS %s word: field at bit %d is %d bits wide", word, e.shift, width), w.relFile(instrPos(e.at)), "",
				fmt.Sprintf("the field of the %s word at bit %d is %d bits wide (the encoder's next component starts at bit %d), but the decoder masks it with %#x instead of %#x: values that need the missing bits read back wrong (a year past 2043 comes back 64 years early)", word, e.shift, width, e.shift+width, e.mask, want))
		}
	}
}

// addendsOr flattens v through + and | (bit-field packing uses either).
func addendsOr(v ssa.Value) []ssa.Value {
	v = stripConv(v)
	if b, ok := v.(*ssa.BinOp); ok && (b.Op == token.ADD || b.Op == token.OR) {
		return append(addendsOr(b.X), addendsOr(b.Y)...)
	}
	return []ssa.Value{v}
}

func keysOf(m map[int64]bool) []int64 {
	var out []int64
	for k := range m {
		out = append(out, k)
	}
	sort.Slice(out, func(a, b int) bool { return out[a] < out[b] })
	return out
}

// c19FatFlagBits (C19-f): the FAT entry encoder builds the attribute byte (11) and the case byte (12) by setting and
// clearing single bits under the entry's boolean flags. The flags are independent in the decoder (each is one bit test),
// so every combination must be encodable: the set of values the byte can hold when the encoder returns is closed under
// bitwise OR. An encoder that sets the bits in mutually exclusive branches loses one flag whenever two are set.
func c19FatFlagBits(w *World, r *Report) {
	enc := w.Method("filesystem/fat12", "directoryEntry", "toBytes")
	name := fnName(enc)
	type set [4]uint64
	has := func(s *set, v int) bool { return s[v>>6]&(1<<(uint(v)&63)) != 0 }
	add := func(s *set, v int) { s[v>>6] |= 1 << (uint(v) & 63) }
	for _, cellIdx := range []int64{11, 12} {
		// the cell: IndexAddr(x, const cellIdx) on a locally made byte slice; all such addresses alias
		isCell := func(v ssa.Value) bool {
			ia, ok := v.(*ssa.IndexAddr)
			if !ok {
				return false
			}
			c, isC := constInt(ia.Index)
			if !isC || c != cellIdx {
				return false
			}
			switch x := stripConv(ia.X).(type) {
			case *ssa.MakeSlice, *ssa.Alloc:
				return true
			case *ssa.Slice: // make([]byte, const) is lowered to new [n]byte + slice
				_, isAl := x.X.(*ssa.Alloc)
				return isAl
			}
			return false
		}
		in := map[*ssa.BasicBlock]*set{}
		entry := &set{}
		add(entry, 0)
		in[enc.Blocks[0]] = entry
		work := []*ssa.BasicBlock{enc.Blocks[0]}
		nStores := 0
		var final set
		for iter := 0; len(work) > 0 && iter < 20000; iter++ {
			b := work[len(work)-1]
			work = work[:len(work)-1]
			cur := *in[b]
			for _, ins := range b.Instrs {
				st, ok := ins.(*ssa.Store)
				if !ok || !isCell(st.Addr) {
					continue
				}
				nStores++
				var next set
				apply := func(f func(int) int) {
					for v := 0; v < 256; v++ {
						if has(&cur, v) {
							add(&next, f(v)&0xff)
						}
					}
				}
				switch x := stripConv(st.Val).(type) {
				case *ssa.Const:
					c, _ := constInt(x)
					add(&next, int(c)&0xff)
				case *ssa.BinOp:
					c, isC := constInt(x.Y)
					ld, isLd := stripConv(x.X).(*ssa.UnOp)
					if isC && isLd && isCell(ld.X) {
						switch x.Op {
						case token.OR:
							apply(func(v int) int { return v | int(c) })
						case token.AND:
							apply(func(v int) int { return v & int(c) })
						case token.AND_NOT:
							apply(func(v int) int { return v &^ int(c) })
						case token.XOR:
							apply(func(v int) int { return v ^ int(c) })
						default:
							next = set{^uint64(0), ^uint64(0), ^uint64(0), ^uint64(0)}
						}
					} else {
						next = set{^uint64(0), ^uint64(0), ^uint64(0), ^uint64(0)}
					}
				default:
					next = set{^uint64(0), ^uint64(0), ^uint64(0), ^uint64(0)}
				}
				cur = next
			}
			if _, isRet := lastInstr(b).(*ssa.Return); isRet {
				for k := range final {
					final[k] |= cur[k]
				}
			}
			for _, sb := range b.Succs {
				old := in[sb]
				if old == nil {
					c := cur
					in[sb] = &c
					work = append(work, sb)
					continue
				}
				changed := false
				for k := range old {
					if n := old[k] | cur[k]; n != old[k] {
						old[k] = n
						changed = true
					}
				}
				if changed {
					work = append(work, sb)
				}
			}
		}
		if nStores == 0 {
			r.Undecided("C19-f", name, fmt.Sprintf("flag byte %d", cellIdx), w.relFile(enc.Pos()), "no single-bit updates of this byte found in the encoder")
			continue
		}
		missing := ""
		count := 0
		// the flags a caller can set on any entry (read-only, hidden, system, archive; the two case bits): each must be
		// combinable with every other encodable value. The kind bits (volume label, directory) may exclude each other.
		settable := map[int64]int{11: 0x27, 12: 0x18}[cellIdx]
		for a := 0; a < 256; a++ {
			if has(&final, a) {
				count++
			}
		}
		for t := 1; t < 256 && missing == ""; t <<= 1 {
			if settable&t == 0 || !has(&final, t) && func() bool {
				for v := 0; v < 256; v++ {
					if has(&final, v) && v&t != 0 {
						return false
					}
				}
				return true
			}() {
				continue
			}
			for a := 0; a < 256; a++ {
				if has(&final, a) && !has(&final, a|t) {
					missing = fmt.Sprintf("0x%02x can be written and the flag 0x%02x can be written, 0x%02x cannot", a, t, a|t)
					break
				}
			}
		}
		r.Check(missing == "", "C19-f", name, fmt.Sprintf("flag bits of byte %d are set independently", cellIdx), w.relFile(enc.Pos()), fmt.Sprintf("%d encodable values, closed under OR", count),
			"the encoder cannot write every combination of the flag bits of this byte ("+missing+"): the decoder reads each flag as an independent bit, so an entry that has both flags set loses one of them when the directory is written (e.g. the archive bit of a directory)")
	}
}

// c19Ext4TimeSign (C19-e): signedness agreement of the ext4 seconds word between inode.toBytes and inodeFromBytes.
func c19Ext4TimeSign(w *World, r *Report, rule string) {
	dec := w.Func("filesystem/ext4", "inodeFromBytes")
	enc := w.Method("filesystem/ext4", "inode", "toBytes")
	isInt32 := func(t types.Type) bool {
		b, ok := t.Underlying().(*types.Basic)
		return ok && b.Kind() == types.Int32
	}
	// decoder: a binary Uint32 result converted to int32 (sign extension when widened afterwards)
	decSigned := false
	for _, f := range withClosures(dec) {
		allInstrs(f, func(ins ssa.Instruction) {
			cv, ok := ins.(*ssa.Convert)
			if !ok || !isInt32(cv.Type()) {
				return
			}
			if c, ok := cv.X.(*ssa.Call); ok && isBinaryDecode(c) {
				decSigned = true
			}
		})
	}
	// encoder: in the closure(s) that call time.Time.Unix, the value masked with 3 (the epoch bits)
	encSigned, found := false, false
	at := enc.Pos()
	// the timestamp encoder may be a closure of toBytes or a package function it calls
	cands := withClosures(enc)
	for _, c := range calls(enc, true, func(c ssa.CallInstruction) bool { t := c.Common().StaticCallee(); return t != nil && w.fnSet[t] && t.Blocks != nil && w.pkgOf(t) == "filesystem/ext4" }) {
		cands = append(cands, withClosures(c.Common().StaticCallee())...)
	}
	for _, f := range cands {
		if len(calls(f, false, func(c ssa.CallInstruction) bool { return isStdCall(c, "(time.Time).Unix") })) == 0 {
			continue
		}
		allInstrs(f, func(ins ssa.Instruction) {
			and, ok := ins.(*ssa.BinOp)
			if !ok || and.Op != token.AND {
				return
			}
			if k, isC := constInt(and.Y); !isC || k != 3 {
				return
			}
			found = true
			at = and.Pos()
			seen := map[ssa.Value]bool{}
			var walk func(v ssa.Value, d int)
			walk = func(v ssa.Value, d int) {
				if v == nil || seen[v] || d > 12 {
					return
				}
				seen[v] = true
				if cv, ok := v.(*ssa.Convert); ok && isInt32(cv.Type()) {
					encSigned = true
				}
				if bo, ok := v.(*ssa.BinOp); ok && bo.Op == token.ADD {
					for _, o := range []ssa.Value{bo.X, bo.Y} {
						if k, isC := constInt(o); isC && k == 0x80000000 {
							encSigned = true // (sec + 2^31) >> 32: the same split written with a bias
						}
					}
				}
				if in, ok := v.(ssa.Instruction); ok {
					for _, op := range in.Operands(nil) {
						if op != nil && *op != nil {
							walk(*op, d+1)
						}
					}
				}
			}
			walk(and.X, 0)
		})
	}
	if !found {
		r.Undecided(rule, fnName(enc), "epoch bits of the ext4 timestamps", w.relFile(enc.Pos()), "no value masked with 3 found next to time.Unix() in the inode encoder")
		return
	}
	r.Check(decSigned == encSigned, rule, fnName(enc), "seconds word has one signedness in encoder and decoder", w.relFile(at),
		fmt.Sprintf("decoder signed=%v, encoder signed=%v", decSigned, encSigned),
		fmt.Sprintf("the inode decoder widens the 32-bit seconds word as a %s number, but the encoder derives the two epoch bits as if it were %s: a time before 1970 or after 2038-01-19 (bit 31 of the seconds set) reads back 2^32 seconds (136 years) or more away from what was written", map[bool]string{true: "signed", false: "unsigned"}[decSigned], map[bool]string{true: "signed", false: "unsigned"}[encSigned]))
}

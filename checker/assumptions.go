package main

// Assumptions recorded in every evidence file: what the static verdict rests on besides the rules themselves.

var commonAssumptions = []string{
	"the program analysed is /repo's working tree as type-checked by go/packages and built into go/ssa for the configuration of this run (quick: linux/amd64; thorough adds darwin/amd64, windows/amd64, linux/arm64); test files are not part of it",
	"no reflection, unsafe pointer arithmetic, cgo or linkname reaches the constructs the rules inspect; calls are resolved statically or by class-hierarchy analysis refined by the dynamic types actually passed",
	"the analyses are path-insensitive except for the constant folding and the idioms named in the rule texts: an infeasible path can only cause an alarm, never hide a violation of a must-rule",
}

var propertyAssumptions = map[string][]string{
	"C01": {"directory identity is by SSA value within a function, with one level of helper parameters", "the FAT table methods SetCluster/ClusterValue/UnusedMarker/EOCMarker are the only way clusters are linked or released"},
	"C02": {"the byte-layout extractor models constant offsets, encoding/binary, copy, append, shifts and masks, and inlines helpers that write into windows; bytes it cannot resolve are counted as unresolved, never as agreeing", "sector-size literals are 512 and 4096"},
	"C03": {"host (workspace) files are told from the device by provenance: values from os.Open*/os.Create vs values derived from the backend", "backend.Sub adds its offset exactly once (checked by C03-e for SubStorage itself)"},
	"C06": {"backend.Sub adds its offset exactly once (C03-e)", "the byte-layout extractor counts unresolved bytes as unresolved, never as agreeing"},
	"C07": {"the byte-layout extractor counts unresolved bytes as unresolved, never as agreeing", "compressors are deterministic functions of their input (not examined)"},
	"C08": {"mirror sites are recognised by 'secondary'/'backup' in the field or accessor the offset derives from", "the byte-layout extractor counts unresolved bytes as unresolved, never as agreeing"},
	"C10": {"dependence is data flow plus the conditions that select phi values; a clamp that is present but arithmetically wrong is not seen"},
	"C12": {"format signatures (0x55AA, 'CD001', 0x73717368, 0xEF53) and the FAT thresholds 4085/65525 are specification facts held in the checker"},
	"C13": {"the mbr clamp exemption rests on deep constant provenance showing that the chunk length and the sector multiplier are the same constant"},
	"C14": {"non-module callees other than the listed sources (time, rand, uuid, os env/pid/tempdir, goroutines, select, map range) are deterministic functions of their arguments"},
	"C15": {"taint is field-based and flow-insensitive across functions; a guard is a comparison with an untainted value (or a bounded one) on the edge taken; whether a bounding constant is small enough is not judged", "CRC-32 equality is taken as equality of the checksummed bytes"},
	"C16": {"the package's idioms are fs.WalkDir closures and bytes.Equal on [0:n) windows; io.Reader implementations return n > 0 or a non-nil error"},
	"C18": {"taint is field-based and flow-insensitive across functions; whether a bounding constant is small enough is not judged", "single-field corruption model: a decoder whose result is compared with a checksum of the same bytes is not a taint source"},
	"C19": {"the byte-layout extractor counts unresolved bytes as unresolved, never as agreeing", "frame conditions look at field stores reached through in-package callees up to depth 4, write-back helpers excluded"},
	"C20": {"an inode reaches a use of its extent tree either directly from readInode/inodeFromBytes (checked) or through a parameter / File handle created after such a checked site"},
}

package main

// C11 — read-only access never modifies the image (mechanism level).

import (
	"fmt"
	"go/constant"
	"go/token"
	"go/types"
	"sort"
	"strings"

	"golang.org/x/tools/go/ssa"
)

func init() {
	register("C11", runC11, `Mechanism-level decision that read-only access cannot modify the image.
C11-a single gate: the receiver of every device WriteAt in the module has provenance Storage.Writable() (directly, through a parameter whose declared type already is a writer, or through a field only ever assigned such values); no type assertion to a writer type exists outside the Writable methods.
C11-b gate semantics: every Writable() implementation returns a non-nil file only on the !readOnly edge, or behind the nil-error edge of the underlying Writable().
C11-c mode plumbing: openModeOptions[ReadOnly] carries no write bit; Open passes !writableMode(mode) as readOnly; writableMode returns true only behind a write-bit test; OpenFromPathWithExclusive adds O_RDWR only on the !readOnly edge and stores readOnly in the backend.
C11-d the error result of every Writable() call is tested and leads to an error return.
C11-e finalized filesystems: each mutator of iso9660/squashfs either has no success return or every success return and every host/device mutation is dominated by the workspace != "" edge; OpenFile rejects all write flags on the workspace == "" edge; File.Write reaches no device write.
C11-f readers never write: from every reading entry point no call of WriteAt, Writable or an os mutation is reachable (CHA + constant-actual folding of flags such as O_RDONLY / doMake=false).
C11-g every filesystem constructor and Disk.Partition/WritePartitionContents asks Writable() on every path to a success return.
Decides the mechanism, not the bytes on disk; assumes callers do not hand in a Storage whose Writable() lies.`)
}

func runC11(w *World, r *Report) {
	initOpenFlags(w)
	c11Gate(w, r)
	c11GateSemantics(w, r)
	c11ModePlumbing(w, r)
	c11ErrorAtGate(w, r)
	c11SysUses(w, r)
	c11WriteErrorsPropagated(w, r)
	c11Finalized(w, r)
	c11ReadersNeverWrite(w, r)
	c11ConstructorsAsk(w, r)
	r.Assume("no reflection/unsafe reaches a write; a caller-supplied backend.Storage whose Writable() ignores its own mode is outside the library")
	r.Assume("CHA resolves interface calls soundly; io.Writer values supplied by the caller of a reading function are the caller's own sink, not the device")
	r.Floor("C11-a", r.countRule("C11-a"), 40)
	r.Floor("C11-b", r.countRule("C11-b"), 2)
	r.Floor("C11-c", r.countRule("C11-c"), 5)
	r.Floor("C11-d", r.countRule("C11-d"), 25)
	r.Floor("C11-e", r.countRule("C11-e"), 20)
	r.Floor("C11-f", r.countRule("C11-f"), 60)
	r.Floor("C11-g", r.countRule("C11-g"), 6)
}

// libraryFn: functions of the library proper (not examples / test helpers).
func (w *World) libraryFn(fn *ssa.Function) bool {
	p := w.pkgOf(fn)
	return !strings.HasPrefix(p, "examples") && !strings.HasPrefix(p, "testhelper") && !strings.Contains(p, "internal/testutil") && !strings.Contains(p, "/testdata")
}

func hasMethod(t types.Type, name string) bool {
	for _, tt := range []types.Type{t, types.NewPointer(t)} {
		ms := types.NewMethodSet(tt)
		for i := 0; i < ms.Len(); i++ {
			if ms.At(i).Obj().Name() == name {
				return true
			}
		}
	}
	return false
}

// ---- C11-a -----------------------------------------------------------------------------------

func c11Gate(w *World, r *Report) {
	isWritable := func(rt Root) bool {
		if rt.Kind != RCall {
			return false
		}
		if rt.Meth != nil {
			return rt.Meth.Name() == "Writable"
		}
		return rt.Fn != nil && rt.Fn.Name() == "Writable" && rt.Fn.Signature.Recv() != nil
	}
	n := 0
	for _, fn := range w.ModFns {
		if !w.libraryFn(fn) {
			continue
		}
		for _, c := range calls(fn, false, isWriteAt) {
			n++
			recv := recvOf(c)
			// the forwarding WriteAt of a Writable-produced wrapper (subWritable) is judged by its field
			p := w.prov(recv, provOpts{bindParams: true, deepFields: true, followCalls: true,
				opaque: func(f *ssa.Function) bool { return f.Name() == "Writable" }})
			var bad []string
			okRoots := 0
			for _, rt := range p.Roots {
				switch {
				case isWritable(rt):
					okRoots++
				case rt.Kind == RConst:
				case rt.Kind == RParam && hasMethod(rt.Param.Type(), "WriteAt"):
					// declared contract: the caller hands in a writer (exported API such as Table.Write)
					okRoots++
				case rt.Kind == RField && hasMethod(rt.Field.Type(), "WriteAt"):
					// a field of writer type: its stored values were expanded by deepFields
				case rt.Kind == RAlloc:
					// zero value of a local (overwritten before use)
				default:
					bad = append(bad, rt.String()+":"+rt.Val.Type().String())
				}
			}
			cons := "WriteAt #" + ordinal(fn, c)
			name := fnName(fn)
			if len(bad) > 0 || okRoots == 0 || p.Truncated {
				r.Fail("C11-a", name, cons, w.relFile(c.Pos()), "device write on a value that does not (only) come from Storage.Writable(): "+strings.Join(uniq(bad), ", "))
			} else {
				r.Ok("C11-a", name, cons, w.relFile(c.Pos()), "roots: "+strings.Join(p.rootStrings(), ","))
			}
		}
		// type assertions to writer types
		allInstrs(fn, func(ins ssa.Instruction) {
			ta, ok := ins.(*ssa.TypeAssert)
			if !ok {
				return
			}
			if !hasMethod(ta.AssertedType, "WriteAt") && !hasMethod(ta.AssertedType, "Write") {
				return
			}
			// only assertions from storage-like values matter
			if !hasMethod(ta.X.Type(), "ReadAt") && !hasMethod(ta.X.Type(), "Stat") {
				return
			}
			inGate := (fn.Name() == "Writable" || fn.Name() == "Sys") && fn.Signature.Recv() != nil
			r.Check(inGate, "C11-a", fnName(fn), "type assertion to "+types.TypeString(ta.AssertedType, shortQual), w.relFile(instrPos(ta)),
				"inside the Writable gate / the Sys accessor (whose uses are checked separately)", "a storage value is converted to a writer by type assertion outside Writable(), bypassing the read-only gate")
		})
	}
	_ = n
}

func shortQual(p *types.Package) string { return p.Name() }

// ---- C11-b -----------------------------------------------------------------------------------

func c11GateSemantics(w *World, r *Report) {
	storage := w.Iface("backend", "Storage")
	for _, n := range w.Implementers(storage) {
		m := w.MethodOf(n, "Writable")
		if m == nil || !w.libraryFn(m) {
			continue
		}
		name := fnName(m)
		// does the type have a readOnly flag?
		st, _ := n.Underlying().(*types.Struct)
		hasRO := false
		if st != nil {
			for i := 0; i < st.NumFields(); i++ {
				if strings.EqualFold(st.Field(i).Name(), "readOnly") {
					hasRO = true
				}
			}
		}
		for _, ret := range returnsOf(m) {
			if len(ret.Results) < 1 || isNilConst(ret.Results[0]) {
				continue
			}
			ok := false
			why := ""
			for _, b := range m.Blocks {
				iff, isIf := lastInstr(b).(*ssa.If)
				if !isIf {
					continue
				}
				if hasRO {
					v, trueIdx := boolCondEdge(iff)
					if p := w.prov(v, provOpts{}); p.hasField("", "readOnly") && len(p.Roots) == 1 {
						if edgeDominates(b, 1-trueIdx, ret.Block()) {
							ok, why = true, "non-nil file returned only on the !readOnly edge"
						}
					}
				} else {
					x, trueNonNil, isNil := nilTest(iff.Cond)
					if isNil {
						if c := errSourceCall(x); c != nil && callMethodName(c) == "Writable" {
							idx := 0
							if trueNonNil {
								idx = 1
							}
							if edgeDominates(b, idx, ret.Block()) {
								ok, why = true, "non-nil file returned only behind the nil-error edge of the underlying Writable()"
							}
						}
					}
				}
			}
			r.Check(ok, "C11-b", name, "non-nil return is gated", w.relFile(instrPos(ret)), why,
				"Writable() can return a usable file without consulting the read-only flag / the underlying gate")
		}
	}
}

// ---- C11-c -----------------------------------------------------------------------------------

// open flags: values of the os.O_* constants in the configuration being analysed (they differ between GOOS values;
// the defaults are linux's and are replaced by initOpenFlags from the loaded program).
var (
	oWRONLY int64 = 0x1
	oRDWR   int64 = 0x2
	oAPPEND int64 = 0x400
	oCREATE int64 = 0x40
	oTRUNC  int64 = 0x200
	oEXCL   int64 = 0x80
)

func initOpenFlags(w *World) {
	pkg := w.Prog.ImportedPackage("os")
	if pkg == nil {
		fatalf("C11: package os not loaded")
	}
	get := func(name string, dst *int64) {
		nc, ok := pkg.Members[name].(*ssa.NamedConst)
		if !ok {
			fatalf("C11: os.%s not found", name)
		}
		v, exact := constant.Int64Val(nc.Value.Value)
		if !exact {
			fatalf("C11: os.%s is not an integer constant", name)
		}
		*dst = v
	}
	get("O_WRONLY", &oWRONLY)
	get("O_RDWR", &oRDWR)
	get("O_APPEND", &oAPPEND)
	get("O_CREATE", &oCREATE)
	get("O_TRUNC", &oTRUNC)
	get("O_EXCL", &oEXCL)
}

func c11ModePlumbing(w *World, r *Report) {
	root := w.Pkg("")
	g, _ := root.Members["openModeOptions"].(*ssa.Global)
	ro, _ := root.Members["ReadOnly"].(*ssa.NamedConst)
	// the mode -> open flags table: the map openModeOptions, or a function of the mode returning the flags
	var flagFn *ssa.Function
	if g == nil {
		for _, fn := range w.ModFns {
			if w.pkgOf(fn) != "" || fn.Blocks == nil || fn.Name() == "String" || len(fn.Params) == 0 || fn.Signature.Results().Len() == 0 {
				continue
			}
			pn := namedOf(fn.Params[0].Type())
			rb, isB := fn.Signature.Results().At(0).Type().Underlying().(*types.Basic)
			if pn != nil && pn.Obj().Name() == "OpenModeOption" && isB && rb.Kind() == types.Int {
				flagFn = fn
			}
		}
	}
	if (g == nil && flagFn == nil) || ro == nil {
		fatalf("C11-c: anchors not found in package diskfs: neither the map openModeOptions nor a function from OpenModeOption to open flags, or no ReadOnly constant")
	}
	isFlagSource := func(v ssa.Value) bool {
		for _, rt := range w.prov(v, provOpts{}).Roots {
			if g != nil && rt.Kind == RGlobal && rt.Val == ssa.Value(g) {
				return true
			}
			if flagFn != nil && rt.Kind == RCall && rt.Fn == flagFn {
				return true
			}
		}
		return false
	}
	initFn := root.Func("init")
	// map literal entries
	found := false
	roVal0, _ := constant.Int64Val(ro.Value.Value)
	if flagFn != nil {
		// the flags returned on the edge where the mode equals ReadOnly
		for _, ret := range returnsOf(flagFn) {
			v, isC := constInt(ret.Results[0])
			if !isC {
				continue
			}
			for _, b := range flagFn.Blocks {
				iff, ok := lastInstr(b).(*ssa.If)
				if !ok {
					continue
				}
				x, y, eqIdx, ok := eqEdge(iff)
				if !ok {
					continue
				}
				var k int64
				var isK bool
				if stripConv(x) == ssa.Value(flagFn.Params[0]) {
					k, isK = constInt(y)
				} else if stripConv(y) == ssa.Value(flagFn.Params[0]) {
					k, isK = constInt(x)
				}
				if !isK || k != roVal0 || !edgeDominates(b, eqIdx, ret.Block()) {
					continue
				}
				found = true
				r.Check(v&(oWRONLY|oRDWR) == 0, "C11-c", fnName(flagFn), "open flags for ReadOnly have no write bit", w.relFile(instrPos(ret)),
					fmt.Sprintf("flags=%#x", v), fmt.Sprintf("ReadOnly maps to open flags %#x which include a write bit", v))
			}
		}
	}
	if g != nil {
		allInstrs(initFn, func(ins ssa.Instruction) {
			mu, ok := ins.(*ssa.MapUpdate)
			if !ok {
				return
			}
			// is this the map stored into openModeOptions?
			stored := false
			for _, ref := range *mu.Map.Referrers() {
				if st, ok := ref.(*ssa.Store); ok && st.Addr == ssa.Value(g) {
					stored = true
				}
			}
			if !stored {
				return
			}
			k, ok1 := constInt(mu.Key)
			v, ok2 := constInt(mu.Value)
			if !ok1 || !ok2 {
				r.Undecided("C11-c", "diskfs.init", "openModeOptions entry", w.relFile(instrPos(mu)), "non-constant map entry")
				return
			}
			roVal, _ := constant.Int64Val(ro.Value.Value)
			if k == roVal {
				found = true
				r.Check(v&(oWRONLY|oRDWR) == 0, "C11-c", "diskfs.init", "openModeOptions[ReadOnly] has no write bit", w.relFile(instrPos(mu)),
					fmt.Sprintf("flags=%#x", v), fmt.Sprintf("ReadOnly maps to open flags %#x which include a write bit", v))
			}
		})
	}
	if !found {
		r.Fail("C11-c", "diskfs.init", "openModeOptions[ReadOnly] has no write bit", "diskfs.go", "no constant entry for ReadOnly found")
	}
	// writableMode: `return true` only behind m&writeBit != 0
	wm := root.Func("writableMode")
	if wm == nil {
		fatalf("C11-c: writableMode not found")
	}
	// with every write-bit test of openModeOptions[mode] assumed false, `return true` must be unreachable
	nTests := 0
	feasible := reachableAvoiding(wm, func(b *ssa.BasicBlock, idx int) bool {
		iff, isIf := lastInstr(b).(*ssa.If)
		if !isIf || idx != 0 {
			return false
		}
		bin, isBin := iff.Cond.(*ssa.BinOp)
		if !isBin || bin.Op != token.NEQ {
			return false
		}
		and, isAnd := bin.X.(*ssa.BinOp)
		if !isAnd || and.Op != token.AND {
			return false
		}
		mask, ok := constInt(and.Y)
		if !ok || mask&^(oWRONLY|oRDWR) != 0 || mask == 0 {
			return false
		}
		zero, ok := constInt(bin.Y)
		if !ok || zero != 0 {
			return false
		}
		if isFlagSource(and.X) {
			nTests++
			return true
		}
		return false
	})
	// the same exploration, edge by edge, to evaluate a returned boolean expression (`return ok && (m&W != 0 || ...)`)
	isWriteBitTest := func(v ssa.Value) bool {
		bin, isBin := v.(*ssa.BinOp)
		if !isBin || bin.Op != token.NEQ {
			return false
		}
		and, isAnd := bin.X.(*ssa.BinOp)
		if !isAnd || and.Op != token.AND {
			return false
		}
		mask, ok := constInt(and.Y)
		zero, ok2 := constInt(bin.Y)
		return ok && ok2 && zero == 0 && mask != 0 && mask&^(oWRONLY|oRDWR) == 0 && isFlagSource(and.X)
	}
	var canBeTrue func(v ssa.Value, d int) bool
	canBeTrue = func(v ssa.Value, d int) bool {
		if d > 8 {
			return true
		}
		switch x := v.(type) {
		case *ssa.Const:
			return x.Value != nil && constant.BoolVal(x.Value)
		case *ssa.BinOp:
			if isWriteBitTest(x) {
				return false // assumed false in this exploration
			}
			return true
		case *ssa.Phi:
			for k, e := range x.Edges {
				pred := x.Block().Preds[k]
				if !feasible[pred] && pred != wm.Blocks[0] {
					continue
				}
				// the edge pred -> phi block is refused when it is the true edge of a write-bit test
				if iff, ok := lastInstr(pred).(*ssa.If); ok && isWriteBitTest(iff.Cond) && pred.Succs[0] == x.Block() {
					continue
				}
				if canBeTrue(e, d+1) {
					return true
				}
			}
			return false
		}
		return true
	}
	for _, ret := range returnsOf(wm) {
		c, ok := ret.Results[0].(*ssa.Const)
		if ok && c.Value != nil && !constant.BoolVal(c.Value) {
			continue
		}
		if !ok {
			// a boolean expression: it must evaluate to false when every write-bit test is false
			good := nTests > 0 && !canBeTrue(ret.Results[0], 0)
			r.Check(good, "C11-c", fnName(wm), "true only behind a write-bit test", w.relFile(instrPos(ret)),
				"the returned expression is false when the mode's flags & (O_RDWR|O_WRONLY) tests are false", "writableMode can report true without the mode's flags carrying a write bit")
			continue
		}
		good := nTests > 0 && !feasible[ret.Block()]
		r.Check(good, "C11-c", fnName(wm), "true only behind a write-bit test", w.relFile(instrPos(ret)),
			"return true unreachable when openModeOptions[mode]&(O_RDWR|O_WRONLY) tests are false", "writableMode can report true without the mode's flags carrying a write bit")
	}
	// Open: file.New(f, !writableMode(mode)) and os.OpenFile(device, openModeOptions[mode])
	open := root.Func("Open")
	fileNew := w.Func("backend/file", "New")
	nNew := 0
	for _, c := range calls(open, false, func(c ssa.CallInstruction) bool { return c.Common().StaticCallee() == fileNew }) {
		nNew++
		arg := c.Common().Args[1]
		u, ok := arg.(*ssa.UnOp)
		good := false
		var modeVal ssa.Value
		if ok && u.Op == token.NOT {
			if cc, ok := u.X.(*ssa.Call); ok && cc.Call.StaticCallee() == wm {
				good = true
				modeVal = cc.Call.Args[0]
			}
		}
		r.Check(good, "C11-c", fnName(open), "readOnly = !writableMode(mode)", w.relFile(c.Pos()), "", "the readOnly flag given to the backend is not the negation of writableMode(mode)")
		// the same mode selects the open flags
		for _, oc := range calls(open, false, func(c ssa.CallInstruction) bool { return isStdCall(c, "os.OpenFile") }) {
			fl := oc.Common().Args[1]
			same := isFlagSource(fl)
			// the Lookup index / the function's argument must be the same mode value
			if lk := findLookup(fl); lk != nil && modeVal != nil {
				same = same && sameRootValue(w, lk.Index, modeVal)
			}
			if flagFn != nil && modeVal != nil {
				for _, rt := range w.prov(fl, provOpts{}).Roots {
					if rt.Kind == RCall && rt.Fn == flagFn && rt.Call != nil && len(rt.Call.Common().Args) > 0 {
						same = same && sameRootValue(w, rt.Call.Common().Args[0], modeVal)
					}
				}
			}
			r.Check(same, "C11-c", fnName(open), "open flags = openModeOptions[mode]", w.relFile(oc.Pos()), "", "os.OpenFile flags do not come from openModeOptions[mode] for the same mode")
		}
	}
	if nNew == 0 {
		r.Fail("C11-c", fnName(open), "readOnly = !writableMode(mode)", w.relFile(open.Pos()), "diskfs.Open no longer builds its backend with file.New")
	}
	// file.New and OpenFromPathWithExclusive store readOnly into the backend
	for _, fn := range []*ssa.Function{fileNew, w.Func("backend/file", "OpenFromPathWithExclusive")} {
		var roParam *ssa.Parameter
		for _, p := range fn.Params {
			if p.Name() == "readOnly" {
				roParam = p
			}
		}
		if roParam == nil {
			fatalf("C11-c: %s has no readOnly parameter", fnName(fn))
		}
		stored := false
		allInstrs(fn, func(ins ssa.Instruction) {
			st, ok := ins.(*ssa.Store)
			if !ok {
				return
			}
			if _, f, _, ok := fieldOfAddr(st.Addr); ok && f.Name() == "readOnly" {
				if st.Val == ssa.Value(roParam) {
					stored = true
				} else {
					r.Fail("C11-c", fnName(fn), "backend.readOnly = readOnly parameter", w.relFile(st.Pos()), "the readOnly field is set from something other than the readOnly parameter: "+shortVal(st.Val))
				}
			}
		})
		r.Check(stored, "C11-c", fnName(fn), "backend.readOnly = readOnly parameter", w.relFile(fn.Pos()), "", "the readOnly parameter is not stored in the backend")
		// O_RDWR only on the !readOnly edge
		for _, oc := range calls(fn, false, func(c ssa.CallInstruction) bool { return isStdCall(c, "os.OpenFile") }) {
			fl := oc.Common().Args[1]
			ok := true
			why := ""
			var visit func(v ssa.Value, depth int)
			seen := map[ssa.Value]bool{}
			visit = func(v ssa.Value, depth int) {
				if seen[v] || depth > 10 {
					return
				}
				seen[v] = true
				switch x := v.(type) {
				case *ssa.Phi:
					for _, e := range x.Edges {
						visit(e, depth+1)
					}
				case *ssa.BinOp:
					if x.Op == token.OR {
						if c, isC := constInt(x.Y); isC && c&(oRDWR|oWRONLY) != 0 {
							// must be dominated by the !readOnly edge
							dom := false
							for _, b := range fn.Blocks {
								if iff, isIf := lastInstr(b).(*ssa.If); isIf {
									v, ti := boolCondEdge(iff)
									if v == ssa.Value(roParam) && edgeDominates(b, 1-ti, x.Block()) {
										dom = true
									}
								}
							}
							if !dom {
								ok, why = false, "a write bit is or-ed into the open mode outside the !readOnly edge"
							}
						}
						visit(x.X, depth+1)
						if _, isC := x.Y.(*ssa.Const); !isC {
							visit(x.Y, depth+1)
						}
					}
				case *ssa.Const:
					if c, isC := constInt(x); isC && c&(oRDWR|oWRONLY) != 0 && depth == 0 {
						ok, why = false, "constant open mode with a write bit"
					}
					if c, isC := constInt(x); isC && c&(oRDWR|oWRONLY) != 0 && depth > 0 {
						// initial value of openMode carries a write bit
						if _, isPhiEdge := v.(*ssa.Const); isPhiEdge {
							ok, why = false, "the initial open mode carries a write bit"
						}
					}
				}
			}
			visit(fl, 0)
			r.Check(ok, "C11-c", fnName(fn), "O_RDWR only on the !readOnly edge", w.relFile(oc.Pos()), "", why)
		}
	}
}

func findLookup(v ssa.Value) *ssa.Lookup {
	for i := 0; i < 6; i++ {
		switch x := v.(type) {
		case *ssa.Lookup:
			return x
		case *ssa.Extract:
			v = x.Tuple
		case *ssa.Convert:
			v = x.X
		default:
			return nil
		}
	}
	return nil
}

// ---- C11-d -----------------------------------------------------------------------------------

func isWritableCall(c ssa.CallInstruction) bool {
	if !methodCallSig(c, "Writable", 0, 2) {
		return false
	}
	return true
}

func c11ErrorAtGate(w *World, r *Report) {
	for _, fn := range w.ModFns {
		if !w.libraryFn(fn) {
			continue
		}
		for _, cc := range calls(fn, false, isWritableCall) {
			c, ok := cc.(*ssa.Call)
			if !ok {
				r.Fail("C11-d", fnName(fn), "Writable() deferred", w.relFile(cc.Pos()), "Writable() is called in a defer/go statement; its error cannot be checked")
				continue
			}
			ok2, why := errorIsChecked(c)
			r.Check(ok2, "C11-d", fnName(fn), "error of Writable() #"+ordinal(fn, c), w.relFile(c.Pos()), why, "the error of Writable() is not propagated ("+why+"): a read-only backend yields a nil writer that is then used or the refusal is swallowed")
		}
	}
}

// ordinal numbers the k-th call of the same callee within fn (stable under line moves).
func ordinal(fn *ssa.Function, c ssa.CallInstruction) string {
	k := 0
	name := callMethodName(c)
	if name == "" {
		if f := c.Common().StaticCallee(); f != nil {
			name = f.Name()
		}
	}
	for _, b := range fn.Blocks {
		for _, ins := range b.Instrs {
			if x, ok := ins.(ssa.CallInstruction); ok {
				n2 := callMethodName(x)
				if n2 == "" {
					if f := x.Common().StaticCallee(); f != nil {
						n2 = f.Name()
					}
				}
				if n2 == name {
					k++
				}
				if x == c {
					return fmt.Sprint(k)
				}
			}
		}
	}
	return "?"
}

// ---- C11-e -----------------------------------------------------------------------------------

var osMutators = map[string]bool{
	"os.MkdirAll": true, "os.Mkdir": true, "os.Rename": true, "os.Remove": true, "os.RemoveAll": true,
	"os.Chmod": true, "os.Chown": true, "os.Lchown": true, "os.Chtimes": true, "os.Symlink": true, "os.Link": true,
	"os.OpenFile": true, "os.Create": true, "os.WriteFile": true, "os.Truncate": true, "os.MkdirTemp": true, "os.CreateTemp": true,
	"syscall.Mknod": true, "golang.org/x/sys/unix.Mknod": true, "syscall.Mkfifo": true,
	"(*os.File).Write": true, "(*os.File).WriteAt": true, "(*os.File).WriteString": true, "(*os.File).Truncate": true,
	"(*os.File).Chmod": true, "(*os.File).Chown": true,
}

func isOSMutation(c ssa.CallInstruction) string {
	f := c.Common().StaticCallee()
	if f == nil {
		return ""
	}
	n := fullFuncName(f)
	if osMutators[n] {
		return n
	}
	return ""
}

// workspaceGuard finds `x.workspace == ""` tests in fn; returns for each If the successor index of the
// non-empty (writable workspace) edge.
func workspaceGuards(fn *ssa.Function) map[*ssa.If]int {
	out := map[*ssa.If]int{}
	for _, b := range fn.Blocks {
		iff, ok := lastInstr(b).(*ssa.If)
		if !ok {
			continue
		}
		bin, ok := iff.Cond.(*ssa.BinOp)
		if !ok || (bin.Op != token.EQL && bin.Op != token.NEQ) {
			continue
		}
		var fieldSide, constSide ssa.Value = bin.X, bin.Y
		if _, isC := bin.X.(*ssa.Const); isC {
			fieldSide, constSide = bin.Y, bin.X
		}
		c, isC := constSide.(*ssa.Const)
		if !isC || c.Value == nil || c.Value.Kind() != constant.String || constant.StringVal(c.Value) != "" {
			continue
		}
		ld, ok := fieldSide.(*ssa.UnOp)
		if !ok || ld.Op != token.MUL {
			continue
		}
		if _, f, _, ok := fieldOfAddr(ld.X); ok && f.Name() == "workspace" {
			if bin.Op == token.EQL {
				out[iff] = 1
			} else {
				out[iff] = 0
			}
		}
	}
	return out
}

var fsMutators = []string{"Mkdir", "Mknod", "Link", "Symlink", "Chmod", "Chown", "Chtimes", "Rename", "Remove", "SetLabel", "OpenFile", "Finalize"}

func c11Finalized(w *World, r *Report) {
	for _, pkg := range []string{"filesystem/iso9660", "filesystem/squashfs"} {
		fsT := w.Named(pkg, "FileSystem")
		for _, mname := range fsMutators {
			m := w.MethodOf(fsT, mname)
			if m == nil {
				if mname == "Finalize" {
					fatalf("C11-e: %s.FileSystem.Finalize not found", pkg)
				}
				continue
			}
			c11MutatorGuarded(w, r, m, mname == "OpenFile")
		}
		// File.Write reaches no device write
		fileT := w.Named(pkg, "File")
		wr := w.MethodOf(fileT, "Write")
		if wr == nil {
			fatalf("C11-e: %s.File.Write not found", pkg)
		}
		rc := &Reach{w: w, sink: c11Sink}
		rc.Run(wr, nil)
		if len(rc.Hits) == 0 {
			r.Ok("C11-e", fnName(wr), "reaches no write", w.relFile(wr.Pos()), fmt.Sprintf("%d functions reachable", len(rc.Funcs)))
		}
		for _, h := range rc.Hits {
			r.Fail("C11-e", fnName(wr), "reaches no write", w.relFile(instrPos(h.Site)), "File.Write of a finalized filesystem reaches "+h.Label, rc.Chain(h.Ctx)...)
		}
	}
}

func c11MutatorGuarded(w *World, r *Report, m *ssa.Function, isOpenFile bool) {
	name := fnName(m)
	// explore m under the assumption workspace == "": refuse the non-empty edge of every workspace test
	noWorkspace := func(b *ssa.BasicBlock, idx int, _ binding) bool {
		iff, ok := lastInstr(b).(*ssa.If)
		if !ok {
			return true
		}
		g := workspaceGuards(b.Parent())
		if nonEmptyIdx, isGuard := g[iff]; isGuard && idx == nonEmptyIdx {
			return false
		}
		return true
	}
	binds := []binding{nil}
	if isOpenFile {
		var flag *ssa.Parameter
		for _, p := range m.Params {
			if p.Name() == "flag" {
				flag = p
			}
		}
		if flag == nil {
			fatalf("C11-e: %s has no parameter named flag", name)
		}
		binds = nil
		for _, f := range []int64{oWRONLY, oRDWR, oAPPEND, oCREATE, oTRUNC, oWRONLY | oAPPEND, oRDWR | oCREATE, oRDWR | oCREATE | oTRUNC, oWRONLY | oCREATE | oTRUNC, oRDWR | oAPPEND | oCREATE} {
			binds = append(binds, binding{flag: constant.MakeInt64(f)})
		}
	}
	entry := m
	for _, bind := range binds {
		cname := "finalized filesystem"
		if len(bind) > 0 {
			cname += " [" + bind.key() + "]"
		}
		// an exported method that only forwards to an unexported one (OpenFile -> openFile(p, flag, 0)) is judged on
		// the function it forwards to, with the constants bound to the corresponding parameters
		m, bind := unwrapForwarder(w, entry, bind)
		rc := &Reach{w: w, sink: c11Sink, blockEdge: noWorkspace}
		rc.Run(m, bind)
		seen := map[string]bool{}
		for _, h := range rc.Hits {
			k := h.Label + "@" + fnName(h.Site.Parent())
			if seen[k] {
				continue
			}
			seen[k] = true
			r.Fail("C11-e", name, cname+": reaches "+h.Label+" in "+fnName(h.Site.Parent()), w.relFile(instrPos(h.Site)),
				"with workspace == \"\" (finalized, read-only) the mutator can still reach a host/device mutation", rc.Chain(h.Ctx)...)
		}
		if len(rc.Hits) == 0 {
			r.Ok("C11-e", name, cname+": reaches no mutation", w.relFile(m.Pos()), fmt.Sprintf("%d functions explored with the workspace != \"\" edges refused", len(rc.Funcs)))
		}
		blocks, _ := w.feasibleBlocks(m, bind, noWorkspace)
		bad := 0
		for _, ret := range returnsOf(m) {
			if !blocks[ret.Block()] || classifyReturn(ret) == RetError {
				continue
			}
			bad++
			r.Fail("C11-e", name, cname+": cannot succeed", w.relFile(instrPos(ret)), "with workspace == \"\" the mutator can return success instead of an error", trailTo(w, ret.Block())...)
		}
		if bad == 0 {
			r.Ok("C11-e", name, cname+": cannot succeed", w.relFile(m.Pos()), "every return feasible without a workspace is an error")
		}
	}
}

// c11Sink classifies a call as a write to the device or the host. os.OpenFile whose flags fold to a
// read-only constant in the current context is not a mutation.
func c11Sink(c ssa.CallInstruction, ev *evaluator) string {
	if isWriteAt(c) {
		return "WriteAt"
	}
	if isWritableCall(c) {
		return "Writable()"
	}
	if l := isOSMutation(c); l != "" {
		if l == "os.OpenFile" {
			fl := c.Common().Args[1]
			if v, ok := constInt(fl); ok && v&(oWRONLY|oRDWR|oCREATE|oTRUNC|oAPPEND) == 0 {
				return ""
			}
			if ev != nil {
				if cv, ok := ev.eval(fl); ok && cv.Kind() == constant.Int {
					if v, exact := constant.Int64Val(cv); exact && v&(oWRONLY|oRDWR|oCREATE|oTRUNC|oAPPEND) == 0 {
						return ""
					}
				}
			}
		}
		return l
	}
	return ""
}

// ---- C11-f -----------------------------------------------------------------------------------

type entryPoint struct {
	fn   *ssa.Function
	bind binding
	name string
}

// readingEntryPoints derives the reading API from the interfaces (DESIGN §3).
func readingEntryPoints(w *World) []entryPoint {
	var out []entryPoint
	add := func(fn *ssa.Function, bind binding) {
		if fn == nil || fn.Blocks == nil {
			return
		}
		n := fnName(fn)
		if len(bind) > 0 {
			n += "[" + bind.key() + "]"
		}
		out = append(out, entryPoint{fn, bind, n})
	}
	fsI := w.Iface("filesystem", "FileSystem")
	for _, n := range w.Implementers(fsI) {
		for _, m := range []string{"ReadDir", "Open", "ReadFile", "Stat", "Label", "Type", "ReadLink", "GetXattr", "ListXattr"} {
			add(w.MethodOf(n, m), nil)
		}
		if of := w.MethodOf(n, "OpenFile"); of != nil {
			for _, p := range of.Params {
				if p.Name() == "flag" {
					add(of, binding{p: constant.MakeInt64(0)})
				}
			}
		}
		pkg := strings.TrimPrefix(n.Obj().Pkg().Path(), modPath+"/")
		add(w.FuncOpt(pkg, "Read"), nil)
	}
	fileI := w.Iface("filesystem", "File")
	for _, n := range w.Implementers(fileI) {
		for _, m := range []string{"Read", "Seek", "Stat", "Close", "ReadDir"} {
			add(w.MethodOf(n, m), nil)
		}
	}
	tI := w.Iface("partition", "Table")
	for _, n := range w.Implementers(tI) {
		for _, m := range []string{"GetPartitions", "Verify", "UUID", "Type"} {
			add(w.MethodOf(n, m), nil)
		}
		pkg := strings.TrimPrefix(n.Obj().Pkg().Path(), modPath+"/")
		add(w.FuncOpt(pkg, "Read"), nil)
	}
	pI := w.Iface("partition/part", "Partition")
	for _, n := range w.Implementers(pI) {
		for _, m := range []string{"ReadContents", "GetStart", "GetSize", "GetIndex", "UUID", "Label"} {
			add(w.MethodOf(n, m), nil)
		}
	}
	add(w.Func("partition", "Read"), nil)
	disk := w.Named("disk", "Disk")
	for _, m := range []string{"GetPartitionTable", "GetFilesystem", "GetPartition", "ReadPartitionContents"} {
		add(w.MethodOf(disk, m), nil)
	}
	sort.Slice(out, func(i, j int) bool { return out[i].name < out[j].name })
	return out
}

func c11ReadersNeverWrite(w *World, r *Report) {
	sink := c11Sink
	skip := func(c ssa.CallInstruction, callee *ssa.Function) bool {
		// a Write on an io.Writer the caller of the reading function supplied is the caller's sink
		if cb, ok := c.(*callbackSite); ok {
			if cb.Method.Name() == "Write" || cb.Method.Name() == "WriteAt" || cb.Method.Name() == "WriteString" {
				return callerSupplied(w, cb.Arg)
			}
			return false
		}
		cc := c.Common()
		if cc.IsInvoke() && cc.Method.Name() == "Write" {
			return callerSupplied(w, cc.Value)
		}
		return false
	}
	for _, ep := range readingEntryPoints(w) {
		rc := &Reach{w: w, sink: sink, skip: skip}
		rc.Run(ep.fn, ep.bind)
		if rc.Blown {
			r.Undecided("C11-f", ep.name, "reaches no write", w.relFile(ep.fn.Pos()), "context budget exhausted")
			continue
		}
		if len(rc.Hits) == 0 {
			r.Ok("C11-f", ep.name, "reaches no write", w.relFile(ep.fn.Pos()), fmt.Sprintf("%d functions / %d contexts explored", len(rc.Funcs), len(rc.visited)))
			continue
		}
		// report the first hit per label
		seen := map[string]bool{}
		for _, h := range rc.Hits {
			key := h.Label + "@" + fnName(h.Site.Parent())
			if seen[key] {
				continue
			}
			seen[key] = true
			r.Fail("C11-f", ep.name, "reaches "+h.Label+" in "+fnName(h.Site.Parent()), w.relFile(instrPos(h.Site)),
				"a purely reading entry point can reach a write to the device or host", rc.Chain(h.Ctx)...)
		}
	}
}

// callerSupplied: every root of v is a parameter, a fresh allocation or a std global (os.Stdout).
func callerSupplied(w *World, v ssa.Value) bool {
	p := w.prov(v, provOpts{})
	if len(p.Roots) == 0 {
		return false
	}
	for _, rt := range p.Roots {
		switch rt.Kind {
		case RParam, RAlloc, RConst:
		case RGlobal:
		default:
			return false
		}
	}
	return true
}

// ---- C11-g -----------------------------------------------------------------------------------

func c11ConstructorsAsk(w *World, r *Report) {
	var fns []*ssa.Function
	fsI := w.Iface("filesystem", "FileSystem")
	for _, n := range w.Implementers(fsI) {
		pkg := strings.TrimPrefix(n.Obj().Pkg().Path(), modPath+"/")
		if f := w.FuncOpt(pkg, "Create"); f != nil {
			fns = append(fns, f)
		}
	}
	disk := w.Named("disk", "Disk")
	for _, m := range []string{"Partition", "WritePartitionContents"} {
		fns = append(fns, w.MethodOf(disk, m))
	}
	for _, fn := range fns {
		rule := &flowRule{w: w, maxDepth: 3}
		rule.inline = func(callee *ssa.Function, site ssa.CallInstruction) bool { return true }
		rule.step = func(ins ssa.Instruction, s int) (uint64, bool) {
			if c, ok := ins.(*ssa.Call); ok && isWritableCall(c) {
				return 1 << 1, true
			}
			return 0, false
		}
		res := rule.run(fn, 1, 0)
		bad := 0
		for ret, m := range res.successReturns() {
			if m&1 != 0 {
				bad++
				r.Fail("C11-g", fnName(fn), "asks Writable() before succeeding", w.relFile(instrPos(ret)),
					"a success return is reachable without any call of Storage.Writable(): on a read-only backend the call reports success", trailTo(w, ret.Block())...)
			}
		}
		if bad == 0 {
			r.Ok("C11-g", fnName(fn), "asks Writable() before succeeding", w.relFile(fn.Pos()), "every success path passes a Writable() call")
		}
	}
}

// ---- Sys() -----------------------------------------------------------------------------------

// c11SysUses: the *os.File obtained from Storage.Sys() bypasses the Writable gate, so it may only be
// used for metadata calls (Fd, Sync, Stat, Name), comparisons, or be handed to in-module functions that
// obey the same restriction.
func c11SysUses(w *World, r *Report) {
	sysUses(w, r, "C11-a", "the raw *os.File from Sys() escapes the Writable gate: ")
}

func sysUses(w *World, r *Report, rule, msg string) {
	allowed := map[string]bool{"Fd": true, "Sync": true, "Stat": true, "Name": true, "SyscallConn": true}
	var checkUses func(v ssa.Value, depth int) string
	seen := map[ssa.Value]bool{}
	checkUses = func(v ssa.Value, depth int) string {
		if seen[v] || depth > 6 {
			return ""
		}
		seen[v] = true
		for _, ref := range *v.Referrers() {
			switch x := ref.(type) {
			case *ssa.BinOp, *ssa.If, *ssa.DebugRef:
			case *ssa.Phi:
				if s := checkUses(x, depth+1); s != "" {
					return s
				}
			case *ssa.Return:
				// forwarding accessor (SubStorage.Sys)
				if x.Parent().Name() != "Sys" {
					return "returned from " + fnName(x.Parent())
				}
			case *ssa.MakeInterface:
				if s := checkUses(x, depth+1); s != "" {
					return s
				}
			case ssa.CallInstruction:
				cc := x.Common()
				if recvOf(x) == v {
					if !allowed[callMethodName(x)] {
						return "method " + callMethodName(x) + " called on it at " + w.relFile(x.Pos())
					}
					continue
				}
				g := cc.StaticCallee()
				if g != nil && w.fnSet[g] && g.Blocks != nil {
					for i, a := range cc.Args {
						if a == v && i < len(g.Params) {
							if s := checkUses(g.Params[i], depth+1); s != "" {
								return s
							}
						}
					}
					continue
				}
				if g != nil {
					n := fullFuncName(g)
					if strings.HasPrefix(n, "fmt.") || strings.HasPrefix(n, "github.com/sirupsen/logrus.") {
						continue
					}
					return "passed to " + n + " at " + w.relFile(x.Pos())
				}
				return "passed to a dynamic call at " + w.relFile(x.Pos())
			case *ssa.Store:
				return "stored at " + w.relFile(x.Pos())
			default:
				return fmt.Sprintf("used by %T at %s", x, w.relFile(instrPos(ref)))
			}
		}
		return ""
	}
	for _, fn := range w.ModFns {
		if !w.libraryFn(fn) {
			continue
		}
		for _, cc := range calls(fn, false, func(c ssa.CallInstruction) bool {
			if !methodCallSig(c, "Sys", 0, 2) {
				return false
			}
			return typeIs(c.Common().Signature().Results().At(0).Type(), "os", "File")
		}) {
			c, ok := cc.(*ssa.Call)
			if !ok {
				continue
			}
			why := ""
			for _, ref := range *c.Referrers() {
				if ex, ok := ref.(*ssa.Extract); ok && ex.Index == 0 {
					why = checkUses(ex, 0)
				}
			}
			r.Check(why == "", rule, fnName(fn), "Sys() result used for metadata only #"+ordinal(fn, c), w.relFile(c.Pos()),
				"only Fd/Sync/Stat/Name and in-module helpers with the same restriction", msg+why)
		}
	}
}

// ---- C11-d (extended): errors of writing helpers ---------------------------------------------------

// c11WriteErrorsPropagated: a mutator reports the gate's refusal only if every call on the way propagates
// it. For every call in the library to an in-module function that returns an error and can reach
// Storage.Writable(), the error result must be tested (non-nil edge returns an error) or returned.
func c11WriteErrorsPropagated(w *World, r *Report) {
	reachesGate := map[*ssa.Function]bool{}
	for _, fn := range w.ModFns {
		if w.libraryFn(fn) && len(calls(fn, false, isWritableCall)) > 0 {
			reachesGate[fn] = true
		}
	}
	for changed := true; changed; {
		changed = false
		for _, fn := range w.ModFns {
			if reachesGate[fn] || !w.libraryFn(fn) {
				continue
			}
			for _, c := range calls(fn, false, func(ssa.CallInstruction) bool { return true }) {
				if g := c.Common().StaticCallee(); g != nil && reachesGate[g] {
					reachesGate[fn] = true
					changed = true
				}
			}
		}
	}
	for _, fn := range w.ModFns {
		if !w.libraryFn(fn) || errResultIndex(fn.Signature) < 0 {
			// a caller without an error result (e.g. Label() string) cannot propagate; C11-f covers readers
			continue
		}
		for _, cc := range calls(fn, false, func(c ssa.CallInstruction) bool {
			g := c.Common().StaticCallee()
			return g != nil && reachesGate[g] && errResultIndex(g.Signature) >= 0
		}) {
			g := cc.Common().StaticCallee()
			c, ok := cc.(*ssa.Call)
			if !ok {
				if _, isDefer := cc.(*ssa.Defer); isDefer {
					r.Note("deferred call of writing helper %s in %s (error cannot be propagated)", fnName(g), fnName(fn))
				}
				continue
			}
			ok2, why := errorReachesErrorReturn(c)
			r.Check(ok2, "C11-d", fnName(fn), "error of writing helper "+g.Name()+" #"+ordinal(fn, c), w.relFile(c.Pos()), why,
				"the error of "+fnName(g)+" (which asks Storage.Writable()) is dropped: on a read-only backend the mutator reports success: "+why)
		}
	}
}

// unwrapForwarder: if fn's body is a single call of an in-module function whose results it returns unchanged, with
// every argument one of fn's own parameters or a constant, return that function and the binding translated to its
// parameters (up to three levels); otherwise fn and bind unchanged.
func unwrapForwarder(w *World, fn *ssa.Function, bind binding) (*ssa.Function, binding) {
	for level := 0; level < 3; level++ {
		if len(fn.Blocks) != 1 {
			return fn, bind
		}
		var call *ssa.Call
		ok := true
		for _, ins := range fn.Blocks[0].Instrs {
			switch x := ins.(type) {
			case *ssa.Call:
				if call != nil {
					ok = false
				}
				call = x
			case *ssa.Extract, *ssa.Return, *ssa.DebugRef:
			default:
				ok = false
			}
		}
		if !ok || call == nil {
			return fn, bind
		}
		g := call.Call.StaticCallee()
		if g == nil || !w.fnSet[g] || g.Blocks == nil || len(call.Call.Args) != len(g.Params) {
			return fn, bind
		}
		nb := binding{}
		for i, a := range call.Call.Args {
			switch x := a.(type) {
			case *ssa.Parameter:
				if v, has := bind[x]; has {
					nb[g.Params[i]] = v
				}
			case *ssa.Const:
				if x.Value != nil {
					nb[g.Params[i]] = x.Value
				}
			default:
				return fn, bind
			}
		}
		fn, bind = g, nb
	}
	return fn, bind
}

package main

// BOUNDS: taint of device-derived values × dominating guards × type width.
//
// Sources: results of encoding/binary UintNN decoders and byte loads from []byte values in the scoped
// functions, propagated through arithmetic, conversions, phis, struct fields (field-based) and calls
// (context-insensitive parameter binding, per-result return taint). A sink operand is *guarded* when a
// comparison on it (or on a value it is a conversion/monotone image of) dominates the sink through the edge
// on which the value is bounded, when all its tainted operands are guarded, when it is loaded from a field all
// of whose tainted stores are guarded at the store, or when its static type bounds it below 2^24.

import (
	"fmt"
	"go/token"
	"go/types"
	"os"
	"sort"
	"strings"

	"golang.org/x/tools/go/ssa"
)

type boundsAn struct {
	w              *World
	scope          map[*ssa.Function]bool
	tv             map[ssa.Value]bool  // tainted values
	tlen           map[ssa.Value]bool  // slices whose length is tainted
	tf             map[*types.Var]bool // tainted fields
	retT           map[*ssa.Function][]bool
	origin         map[ssa.Value]string
	Protected      []string
	trustChecksums bool
	noWidth        bool                   // while judging an index/slice bound a small type is not a guard (the container may be smaller)
	loopBound      map[*ssa.Phi]ssa.Value // induction variable -> the device-derived value its loop condition compares it with
	fieldOK        map[*types.Var]int     // 0 unknown, 1 validated upper, 2 not
	fieldOKIdx     map[*types.Var]int
	fieldNZ        map[*types.Var]int
	fieldLo        map[*types.Var]int64 // proven minimum of a field (0: none)
}

func newBounds(w *World, fns []*ssa.Function, trustChecksums bool) *boundsAn {
	b := &boundsAn{w: w, scope: map[*ssa.Function]bool{}, tv: map[ssa.Value]bool{}, tlen: map[ssa.Value]bool{}, tf: map[*types.Var]bool{},
		retT: map[*ssa.Function][]bool{}, loopBound: map[*ssa.Phi]ssa.Value{}, origin: map[ssa.Value]string{}, fieldOK: map[*types.Var]int{}, fieldOKIdx: map[*types.Var]int{}, fieldNZ: map[*types.Var]int{}}
	for _, f := range fns {
		b.scope[f] = true
	}
	b.trustChecksums = trustChecksums
	b.propagate()
	return b
}

func isBinaryDecode(c *ssa.Call) bool {
	f := c.Call.StaticCallee()
	if f == nil {
		return false
	}
	n := fullFuncName(f)
	return strings.HasPrefix(n, "(encoding/binary.") && strings.Contains(n, ").Uint")
}

func isByteContainer(t types.Type) bool {
	switch u := t.Underlying().(type) {
	case *types.Slice:
		b, ok := u.Elem().Underlying().(*types.Basic)
		return ok && b.Kind() == types.Uint8
	case *types.Pointer:
		if a, ok := u.Elem().Underlying().(*types.Array); ok {
			b, ok := a.Elem().Underlying().(*types.Basic)
			return ok && b.Kind() == types.Uint8
		}
	case *types.Array:
		b, ok := u.Elem().Underlying().(*types.Basic)
		return ok && b.Kind() == types.Uint8
	}
	return false
}

func (b *boundsAn) mark(v ssa.Value, why string) bool {
	if b.tv[v] {
		return false
	}
	b.tv[v] = true
	if b.origin[v] == "" {
		b.origin[v] = why
	}
	return true
}

func (b *boundsAn) propagate() {
	var fns []*ssa.Function
	for f := range b.scope {
		fns = append(fns, f)
	}
	sort.Slice(fns, func(i, j int) bool { return fns[i].String() < fns[j].String() })
	// decoders whose every success return lies behind a checksum equality over their input are integrity
	// protected: under the property's single-field corruption model their fields cannot be altered without
	// the decoder failing, so they are not taint sources
	protected := map[*ssa.Function]bool{}
	for _, fn := range fns {
		if b.trustChecksums && b.checksumGuarded(fn) {
			protected[fn] = true
			b.Protected = append(b.Protected, fnName(fn))
		}
	}
	for changed := true; changed; {
		changed = false
		for _, fn := range fns {
			isProt := protected[fn]
			allInstrs(fn, func(ins ssa.Instruction) {
				if isProt {
					switch x := ins.(type) {
					case *ssa.Call:
						if isBinaryDecode(x) {
							return
						}
					case *ssa.UnOp:
						if ia, ok := x.X.(*ssa.IndexAddr); ok && x.Op == token.MUL && isByteContainer(ia.X.Type()) {
							return
						}
					case *ssa.Index:
						return
					}
				}
				switch x := ins.(type) {
				case *ssa.Call:
					if isBinaryDecode(x) {
						if b.mark(x, "decoded by "+x.Call.StaticCallee().Name()+" at "+b.w.relFile(x.Pos())) {
							changed = true
						}
						return
					}
					if bi, ok := x.Call.Value.(*ssa.Builtin); ok {
						switch bi.Name() {
						case "len", "cap":
							if b.tlen[x.Call.Args[0]] && b.mark(x, "length of a slice sized by device data") {
								changed = true
							}
						case "min", "max":
							for _, a := range x.Call.Args {
								if b.tv[a] && b.mark(x, b.origin[a]) {
									changed = true
								}
							}
						case "append":
							if b.tlen[x.Call.Args[0]] && !b.tlen[x] {
								b.tlen[x] = true
								changed = true
							}
						}
						return
					}
					g := x.Call.StaticCallee()
					if g == nil || !b.scope[g] {
						return
					}
					for i, a := range x.Call.Args {
						if i < len(g.Params) {
							if b.tv[a] && b.mark(g.Params[i], b.origin[a]) {
								changed = true
							}
							if b.tlen[a] && !b.tlen[g.Params[i]] {
								b.tlen[g.Params[i]] = true
								changed = true
							}
						}
					}
					rt := b.retT[g]
					if g.Signature.Results().Len() == 1 && len(rt) == 1 && rt[0] {
						if b.mark(x, "returned by "+fnName(g)) {
							changed = true
						}
					}
				case *ssa.Extract:
					if c, ok := x.Tuple.(*ssa.Call); ok {
						if g := c.Call.StaticCallee(); g != nil && b.scope[g] {
							if rt := b.retT[g]; x.Index < len(rt) && rt[x.Index] {
								if b.mark(x, "returned by "+fnName(g)) {
									changed = true
								}
							}
						}
					}
				case *ssa.Return:
					rt := b.retT[fn]
					if rt == nil {
						rt = make([]bool, len(x.Results))
						b.retT[fn] = rt
					}
					for i, rv := range x.Results {
						if i < len(rt) && b.tv[rv] && !rt[i] {
							rt[i] = true
							changed = true
						}
					}
				case *ssa.BinOp:
					switch x.Op {
					case token.LSS, token.LEQ, token.GTR, token.GEQ, token.NEQ:
						// a loop counter compared with a device-derived bound ranges up to that bound
						for _, pair := range [][2]ssa.Value{{x.X, x.Y}, {x.Y, x.X}} {
							ph, isPhi := stripConv(pair[0]).(*ssa.Phi)
							if !isPhi || !b.tv[pair[1]] || b.tv[ph] || !isInductionPhi(ph) {
								continue
							}
							for _, ref := range *x.Referrers() {
								if _, isIf := ref.(*ssa.If); isIf {
									b.loopBound[ph] = pair[1]
									if b.mark(ph, "loop counter bounded by "+b.origin[pair[1]]) {
										changed = true
									}
								}
							}
						}
						return
					case token.EQL:
						return
					}
					for _, o := range []ssa.Value{x.X, x.Y} {
						if b.tv[o] && b.mark(x, b.origin[o]) {
							changed = true
						}
					}
				case *ssa.Convert:
					if b.tv[x.X] && typeBits(x.Type()) > 0 && b.mark(x, b.origin[x.X]) {
						changed = true
					}
				case *ssa.ChangeType:
					if b.tv[x.X] && b.mark(x, b.origin[x.X]) {
						changed = true
					}
				case *ssa.Phi:
					for _, e := range x.Edges {
						if b.tv[e] && b.mark(x, b.origin[e]) {
							changed = true
						}
						if b.tlen[e] && !b.tlen[x] {
							b.tlen[x] = true
							changed = true
						}
					}
				case *ssa.UnOp:
					if x.Op != token.MUL {
						if b.tv[x.X] && b.mark(x, b.origin[x.X]) {
							changed = true
						}
						return
					}
					switch a := x.X.(type) {
					case *ssa.IndexAddr:
						if isByteContainer(a.X.Type()) && typeBits(x.Type()) == 8 {
							if b.mark(x, "byte read from a buffer at "+b.w.relFile(instrPos(x))) {
								changed = true
							}
						}
					case *ssa.FieldAddr:
						if _, f, _, ok := fieldOfAddr(a); ok && b.tf[f] && typeBits(x.Type()) > 0 {
							if b.mark(x, "field "+f.Name()+" (set from device data)") {
								changed = true
							}
						}
					case *ssa.Alloc:
						// local cell: union over stores
						for _, ref := range *a.Referrers() {
							if st, ok := ref.(*ssa.Store); ok && st.Addr == ssa.Value(a) {
								if b.tv[st.Val] && b.mark(x, b.origin[st.Val]) {
									changed = true
								}
								if b.tlen[st.Val] && !b.tlen[x] {
									b.tlen[x] = true
									changed = true
								}
							}
						}
					}
				case *ssa.Field:
					if _, f, _, ok := fieldOfAddr(x); ok && b.tf[f] && typeBits(x.Type()) > 0 {
						if b.mark(x, "field "+f.Name()+" (set from device data)") {
							changed = true
						}
					}
				case *ssa.Index:
					if isByteContainer(x.X.Type()) {
						if b.mark(x, "byte read from a buffer at "+b.w.relFile(instrPos(x))) {
							changed = true
						}
					}
				case *ssa.Store:
					if _, f, _, ok := fieldOfAddr(x.Addr); ok && b.tv[x.Val] && !b.tf[f] {
						b.tf[f] = true
						changed = true
					}
				case *ssa.MakeSlice:
					if (b.tv[x.Len] || b.tv[x.Cap]) && !b.tlen[x] {
						b.tlen[x] = true
						changed = true
					}
				case *ssa.Slice:
					if ((x.High != nil && b.tv[x.High]) || (x.Low != nil && b.tv[x.Low]) || b.tlen[x.X]) && !b.tlen[x] {
						b.tlen[x] = true
						changed = true
					}
				}
			})
		}
	}
}

// ---- guards ---------------------------------------------------------------------------------------

// aliases returns values that carry the same magnitude as v: conversions (both ways), other loads of the same
// field of the same base in the same function.
func (b *boundsAn) aliases(v ssa.Value) []ssa.Value {
	out := []ssa.Value{v}
	seen := map[ssa.Value]bool{v: true}
	add := func(x ssa.Value) {
		if x != nil && !seen[x] {
			seen[x] = true
			out = append(out, x)
		}
	}
	for i := 0; i < len(out) && i < 40; i++ {
		x := out[i]
		switch c := x.(type) {
		case *ssa.Convert:
			add(c.X)
		case *ssa.ChangeType:
			add(c.X)
		}
		if refs := x.Referrers(); refs != nil {
			for _, ref := range *refs {
				switch r := ref.(type) {
				case *ssa.Convert:
					add(r)
				case *ssa.ChangeType:
					add(r)
				}
			}
		}
		// other loads of a local cell that is written once (a captured parameter spilled by go/ssa)
		if ld, ok := x.(*ssa.UnOp); ok && ld.Op == token.MUL {
			if al, ok := ld.X.(*ssa.Alloc); ok {
				if sts := cellStores(al); len(sts) == 1 {
					add(sts[0].Val)
					for _, ref := range *al.Referrers() {
						if l2, ok := ref.(*ssa.UnOp); ok && l2.Op == token.MUL {
							add(l2)
						}
					}
				}
			}
		}
		// other loads of the same field on the same base value
		if ld, ok := x.(*ssa.UnOp); ok && ld.Op == token.MUL {
			if fa, ok := ld.X.(*ssa.FieldAddr); ok {
				fn := ld.Parent()
				allInstrs(fn, func(ins ssa.Instruction) {
					if l2, ok := ins.(*ssa.UnOp); ok && l2.Op == token.MUL {
						if fa2, ok := l2.X.(*ssa.FieldAddr); ok && fa2.Field == fa.Field && sameBase(fa2.X, fa.X) {
							add(l2)
						}
					}
				})
			}
		}
	}
	return out
}

func sameBase(a, b ssa.Value) bool {
	if a == b {
		return true
	}
	// loads of the same local cell / the same field chain
	la, ok1 := a.(*ssa.UnOp)
	lb, ok2 := b.(*ssa.UnOp)
	if ok1 && ok2 && la.Op == token.MUL && lb.Op == token.MUL {
		if la.X == lb.X {
			return true
		}
		fa, ok3 := la.X.(*ssa.FieldAddr)
		fb, ok4 := lb.X.(*ssa.FieldAddr)
		if ok3 && ok4 && fa.Field == fb.Field {
			return sameBase(fa.X, fb.X)
		}
	}
	fa, ok3 := a.(*ssa.FieldAddr)
	fb, ok4 := b.(*ssa.FieldAddr)
	if ok3 && ok4 && fa.Field == fb.Field {
		return sameBase(fa.X, fb.X)
	}
	return false
}

// cmpBoundEdge: for If on `x OP y`, with m on side X (mOnX) or Y, return the successor index on which m is
// bounded above (smallIdx) and the one on which it is known non-zero (nzIdx), -1 if none.
func cmpEdges(bin *ssa.BinOp, mOnX bool, other ssa.Value) (upperIdx, nzIdx int) {
	upperIdx, nzIdx = -1, -1
	op := bin.Op
	if !mOnX {
		// swap sides: y OP m  ==  m OP' y
		switch op {
		case token.LSS:
			op = token.GTR
		case token.LEQ:
			op = token.GEQ
		case token.GTR:
			op = token.LSS
		case token.GEQ:
			op = token.LEQ
		}
	}
	k, isConst := constInt(other)
	pos := isConst && k > 0   // other is a positive constant
	zero := isConst && k == 0 // other is zero
	switch op {
	case token.GTR: // m > K
		upperIdx = 1
		if isConst && k >= 0 {
			nzIdx = 0 // m > K >= 0  => m != 0
		}
		if zero {
			upperIdx = -1
		}
	case token.GEQ: // m >= K
		upperIdx = 1
		if pos {
			nzIdx = 0
		}
	case token.LSS: // m < K : true edge bounds m; false edge m >= K
		upperIdx = 0
		if pos {
			nzIdx = 1
		}
	case token.LEQ: // m <= K : false edge m > K
		upperIdx = 0
		if isConst && k >= 0 {
			nzIdx = 1
		}
	case token.EQL:
		upperIdx = 0
		if zero {
			nzIdx = 1
		} else if isConst {
			nzIdx = 0
		}
	case token.NEQ:
		upperIdx = 1
		if zero {
			nzIdx = 0
		} else if isConst {
			nzIdx = 1
		}
	}
	return
}

type guardKind int

const (
	gUpper guardKind = iota
	gNonZero
)

// directGuard: some If in at's function compares an alias of v with an untainted value (or with len of an
// untainted slice) and the bounding edge dominates `at`.
func (b *boundsAn) directGuard(v ssa.Value, at *ssa.BasicBlock, kind guardKind, depth int) bool {
	fn := at.Parent()
	al := b.aliases(v)
	in := map[ssa.Value]bool{}
	for _, a := range al {
		in[a] = true
	}
	for _, blk := range fn.Blocks {
		iff, ok := lastInstr(blk).(*ssa.If)
		if !ok {
			continue
		}
		bin, ok := iff.Cond.(*ssa.BinOp)
		if !ok {
			continue
		}
		for _, mOnX := range []bool{true, false} {
			m, other := bin.X, bin.Y
			if !mOnX {
				m, other = bin.Y, bin.X
			}
			if !in[m] {
				// a comparison on a value computed from v by +,-,*,/ and conversions (a geometry sanity check such as
				// "cluster count computed from the FAT size must be < 4085") bounds v indirectly
				if kind == gNonZero || !b.derivedFrom(m, in, 0) {
					continue
				}
			}
			if kind == gUpper && b.tv[other] && !isLenLike(other) && (depth > 3 || !b.isGuarded(other, blk, gUpper, depth+2)) {
				continue // compared with another unbounded device value
			}
			up, nz := cmpEdges(bin, mOnX, other)
			idx := up
			if kind == gNonZero {
				idx = nz
			}
			if idx < 0 {
				continue
			}
			if edgeDominates(blk, idx, at) {
				return true
			}
			// the other edge leaves the function/loop iteration (return/continue): then the fall-through is guarded
			oth := blk.Succs[1-idx]
			if blk.Succs[idx].Dominates(at) && len(blk.Succs[idx].Preds) > 1 {
				// joined block: accept if every other predecessor path comes from blocks dominated by the bounding edge
				_ = oth
			}
		}
	}
	// validator call: g(alias) returns an error that is checked, and g rejects unbounded values
	for _, blk := range fn.Blocks {
		for _, ins := range blk.Instrs {
			c, ok := ins.(*ssa.Call)
			if !ok {
				continue
			}
			g := c.Call.StaticCallee()
			if g == nil || g.Blocks == nil || !b.w.inModule(g) || errResultIndex(g.Signature) < 0 {
				continue
			}
			argIdx := -1
			for i, a := range c.Call.Args {
				if in[a] || in[stripConv(a)] {
					argIdx = i
				}
			}
			if argIdx < 0 || argIdx >= len(g.Params) {
				// the validator is handed the object the value is a field of and tests obj.f itself
				var fa0 *ssa.FieldAddr
				for a := range in {
					if ld, ok := a.(*ssa.UnOp); ok && ld.Op == token.MUL {
						if fa, ok := ld.X.(*ssa.FieldAddr); ok {
							fa0 = fa
						}
					}
				}
				if fa0 == nil {
					continue
				}
				oi := -1
				for i, a := range c.Call.Args {
					if a == fa0.X || sameBase(a, fa0.X) {
						oi = i
					}
				}
				iff, nilIdx := errNilEdge(fn, c)
				if oi < 0 || oi >= len(g.Params) || iff == nil || !edgeDominates(iff.Block(), nilIdx, at) {
					continue
				}
				var loads []ssa.Value
				allInstrs(g, func(gi ssa.Instruction) {
					if ld, ok := gi.(*ssa.UnOp); ok && ld.Op == token.MUL {
						if fa, ok := ld.X.(*ssa.FieldAddr); ok && fa.X == ssa.Value(g.Params[oi]) && fa.Field == fa0.Field {
							loads = append(loads, ld)
						}
					}
				})
				okAll, any := len(loads) > 0, false
				for _, ret := range returnsOf(g) {
					if classifyReturn(ret) == RetError {
						continue
					}
					any = true
					guarded := false
					for _, ld := range loads {
						sub := &boundsAn{w: b.w, scope: b.scope, tv: map[ssa.Value]bool{ld: true}, tlen: b.tlen, tf: b.tf, retT: b.retT, origin: b.origin,
							loopBound: b.loopBound, fieldOK: b.fieldOK, fieldOKIdx: b.fieldOKIdx, fieldNZ: b.fieldNZ, trustChecksums: b.trustChecksums}
						if sub.directGuard(ld, ret.Block(), kind, depth+3) {
							guarded = true
						}
					}
					if !guarded {
						okAll = false
					}
				}
				if okAll && any {
					return true
				}
				continue
			}
			iff, nilIdx := errNilEdge(fn, c)
			if iff == nil || !edgeDominates(iff.Block(), nilIdx, at) {
				continue
			}
			// inside g: every success return is behind a bounding comparison on the parameter
			p := g.Params[argIdx]
			okAll, any := true, false
			for _, ret := range returnsOf(g) {
				if classifyReturn(ret) == RetError {
					continue
				}
				any = true
				sub := &boundsAn{w: b.w, scope: b.scope, tv: map[ssa.Value]bool{p: true}, tlen: b.tlen, tf: b.tf, retT: b.retT, origin: b.origin,
					loopBound: b.loopBound, fieldOK: b.fieldOK, fieldOKIdx: b.fieldOKIdx, fieldNZ: b.fieldNZ, trustChecksums: b.trustChecksums}
				if !sub.directGuard(p, ret.Block(), kind, depth+3) {
					okAll = false
				}
			}
			if okAll && any {
				return true
			}
		}
	}
	return false
}

// maxBits: an upper bound on the number of significant bits of v from types and constant operands
// (conversions from narrower types, division/shift/mask by constants, multiplication by constants).
func (b *boundsAn) maxBits(v ssa.Value, depth int) int {
	tb := typeBits(v.Type())
	if tb == 0 {
		tb = 64
	}
	if depth > 10 {
		return tb
	}
	log2 := func(c int64) int {
		n := 0
		for c > 1 {
			c >>= 1
			n++
		}
		return n
	}
	min := func(a, b int) int {
		if a < b {
			return a
		}
		return b
	}
	switch x := v.(type) {
	case *ssa.Const:
		if c, ok := constInt(x); ok && c >= 0 {
			return log2(c) + 1
		}
	case *ssa.Convert:
		return min(tb, b.maxBits(x.X, depth+1))
	case *ssa.ChangeType:
		return b.maxBits(x.X, depth+1)
	case *ssa.BinOp:
		switch x.Op {
		case token.QUO:
			if c, ok := constInt(x.Y); ok && c > 0 {
				return min(tb, b.maxBits(x.X, depth+1)-log2(c))
			}
			if depth <= 10 {
				if k := b.minConst(x.Y, x.Block(), 0); k > 1 {
					return min(tb, b.maxBits(x.X, depth+1)-log2(k)) // divisor validated to be at least k
				}
			}
			return min(tb, b.maxBits(x.X, depth+1))
		case token.SHR:
			if c, ok := constInt(x.Y); ok && c >= 0 {
				return min(tb, b.maxBits(x.X, depth+1)-int(c))
			}
		case token.REM:
			if c, ok := constInt(x.Y); ok && c > 0 {
				return min(tb, log2(c)+1)
			}
		case token.AND:
			if c, ok := constInt(x.Y); ok && c >= 0 {
				return min(tb, log2(c)+1)
			}
		case token.MUL:
			return min(tb, b.maxBits(x.X, depth+1)+b.maxBits(x.Y, depth+1))
		case token.SHL:
			if c, ok := constInt(x.Y); ok && c >= 0 {
				return min(tb, b.maxBits(x.X, depth+1)+int(c))
			}
		case token.ADD:
			a, bb := b.maxBits(x.X, depth+1), b.maxBits(x.Y, depth+1)
			if bb > a {
				a = bb
			}
			return min(tb, a+1)
		case token.SUB:
			return min(tb, b.maxBits(x.X, depth+1))
		case token.XOR, token.OR:
			a, bb := b.maxBits(x.X, depth+1), b.maxBits(x.Y, depth+1)
			if bb > a {
				a = bb
			}
			return min(tb, a)
		}
	case *ssa.UnOp:
		if x.Op == token.MUL {
			if fa, ok := x.X.(*ssa.FieldAddr); ok {
				if _, f, _, ok := fieldOfAddr(fa); ok {
					return min(tb, b.fieldBits(f, depth))
				}
			}
		}
	case *ssa.Field:
		if _, f, _, ok := fieldOfAddr(x); ok {
			return min(tb, b.fieldBits(f, depth))
		}
	case *ssa.Parameter:
		fn := x.Parent()
		idx := -1
		for i, p := range fn.Params {
			if p == x {
				idx = i
			}
		}
		node := b.w.CHA().Nodes[fn]
		m, n := 0, 0
		if node != nil && idx >= 0 {
			for _, e := range node.In {
				if e.Site == nil || !b.scope[e.Caller.Func] {
					continue
				}
				cc := e.Site.Common()
				if cc.IsInvoke() || idx >= len(cc.Args) {
					continue
				}
				n++
				if bb := b.maxBits(cc.Args[idx], depth+3); bb > m {
					m = bb
				}
			}
		}
		if n > 0 && m > 0 {
			return min(tb, m)
		}
	case *ssa.Call:
		if g := x.Call.StaticCallee(); g != nil && b.scope[g] && g.Blocks != nil && g.Signature.Results().Len() == 1 {
			m := 0
			for _, ret := range returnsOf(g) {
				if bb := b.maxBits(ret.Results[0], depth+3); bb > m {
					m = bb
				}
			}
			if m > 0 {
				return min(tb, m)
			}
		}
	case *ssa.Phi:
		m := 0
		for _, e := range x.Edges {
			if e == ssa.Value(x) {
				continue
			}
			if bb := b.maxBits(e, depth+3); bb > m {
				m = bb
			}
		}
		if m > 0 {
			return min(tb, m)
		}
	}
	return tb
}

func (b *boundsAn) widthBelow(v ssa.Value, limitBits int) bool {
	if b.maxBits(v, 0) <= limitBits {
		return true
	}
	// value bounded by its type (and by the types of what it was converted from)
	bitsOf := func(x ssa.Value) int { return typeBits(x.Type()) }
	v0 := v
	for i := 0; i < 6; i++ {
		if c, ok := v0.(*ssa.Convert); ok {
			if bb := bitsOf(c.X); bb > 0 && bb < bitsOf(c) {
				v0 = c.X
				continue
			}
		}
		break
	}
	bb := bitsOf(v0)
	return bb > 0 && bb <= limitBits
}

// isGuarded: recursive guardedness of v at block `at`.
func (b *boundsAn) isGuarded(v ssa.Value, at *ssa.BasicBlock, kind guardKind, depth int) bool {
	if depth > 8 {
		return false
	}
	if !b.tv[v] {
		if kind == gNonZero {
			if c, ok := constInt(v); ok {
				return c != 0
			}
			// untainted non-constant values are outside the rule's scope
			return true
		}
		return true
	}
	if kind == gUpper && isLenCall(v) {
		return true // the length of memory that already exists
	}
	if b.directGuard(v, at, kind, depth) {
		return true
	}
	if kind == gUpper && !b.noWidth && depth == 0 && b.widthBelow(v, 24) {
		return true
	}
	if bo, ok := v.(*ssa.BinOp); ok && bo.Op == token.MUL && kind == gUpper && !b.noWidth && b.maxBits(v, 0) <= 24 {
		return true // a product whose factors' types keep it below 2^24 (sectors per cluster x bytes per sector)
	}
	switch x := v.(type) {
	case *ssa.Convert:
		return b.isGuarded(x.X, at, kind, depth+1)
	case *ssa.ChangeType:
		return b.isGuarded(x.X, at, kind, depth+1)
	case *ssa.BinOp:
		switch x.Op {
		case token.ADD, token.MUL, token.SHL, token.OR:
			if kind == gUpper {
				return b.isGuarded(x.X, at, kind, depth+1) && b.isGuarded(x.Y, at, kind, depth+1)
			}
			if x.Op == token.ADD || x.Op == token.OR {
				// a + c with c>0 constant is non-zero for unsigned
				if c, ok := constInt(x.Y); ok && c > 0 {
					return true
				}
				if c, ok := constInt(x.X); ok && c > 0 {
					return true
				}
			}
			if x.Op == token.MUL {
				return b.isGuarded(x.X, at, kind, depth+1) && b.isGuarded(x.Y, at, kind, depth+1)
			}
			return false
		case token.SUB, token.QUO, token.REM, token.SHR, token.AND:
			if kind == gUpper {
				// bounded by the left operand (unsigned) / by the mask
				if x.Op == token.AND {
					if _, ok := constInt(x.Y); ok {
						return true
					}
				}
				if x.Op == token.REM {
					return b.isGuarded(x.Y, at, kind, depth+1) || b.isGuarded(x.X, at, kind, depth+1)
				}
				return b.isGuarded(x.X, at, kind, depth+1)
			}
			return false
		}
	case *ssa.Phi:
		if lb, ok := b.loopBound[x]; ok && kind == gUpper {
			return b.isGuarded(lb, x.Block(), kind, depth+1)
		}
		// min pattern: v = phi(a, b) selected by a comparison of a with b: v <= both
		if kind == gUpper && len(x.Edges) == 2 && phiIsMin(x) {
			return b.isGuarded(x.Edges[0], x.Block(), kind, depth+1) || b.isGuarded(x.Edges[1], x.Block(), kind, depth+1)
		}
		for i, e := range x.Edges {
			// what is known about an incoming value is what holds at the end of the block it comes from
			at2 := x.Block()
			if i < len(at2.Preds) {
				at2 = at2.Preds[i]
			}
			if !b.isGuarded(e, at2, kind, depth+1) && !b.isGuarded(e, x.Block(), kind, depth+1) {
				return false
			}
		}
		return true
	case *ssa.UnOp:
		if x.Op == token.MUL {
			if fa, ok := x.X.(*ssa.FieldAddr); ok {
				if _, f, _, ok := fieldOfAddr(fa); ok {
					return b.fieldValidated(f, kind)
				}
			}
			// a local that a closure captures lives in a cell: what is known about the value stored once holds for its loads
			if sts := cellStores(x.X); len(sts) == 1 {
				return b.isGuarded(sts[0].Val, sts[0].Block(), kind, depth+1)
			}
		}
	case *ssa.Field:
		if _, f, _, ok := fieldOfAddr(x); ok {
			return b.fieldValidated(f, kind)
		}
	case *ssa.Parameter:
		// every in-scope call site passes a guarded actual
		fn := x.Parent()
		idx := -1
		for i, p := range fn.Params {
			if p == x {
				idx = i
			}
		}
		node := b.w.CHA().Nodes[fn]
		n := 0
		if node != nil && idx >= 0 {
			for _, e := range node.In {
				if e.Site == nil || !b.scope[e.Caller.Func] {
					continue
				}
				cc := e.Site.Common()
				if cc.IsInvoke() || idx >= len(cc.Args) {
					continue
				}
				n++
				if !b.isGuarded(cc.Args[idx], e.Site.Block(), kind, depth+1) {
					return false
				}
			}
		}
		return n > 0
	case *ssa.Call:
		if bi, ok := x.Call.Value.(*ssa.Builtin); ok && (bi.Name() == "min") && kind == gUpper {
			for _, a := range x.Call.Args {
				if b.isGuarded(a, at, kind, depth+1) {
					return true
				}
			}
		}
		if g := x.Call.StaticCallee(); g != nil && b.scope[g] && g.Blocks != nil {
			for _, ret := range returnsOf(g) {
				if len(ret.Results) == 1 && !b.isGuarded(ret.Results[0], ret.Block(), kind, depth+1) {
					return false
				}
			}
			return true
		}
	case *ssa.Extract:
		if c, ok := x.Tuple.(*ssa.Call); ok {
			if g := c.Call.StaticCallee(); g != nil && b.scope[g] && g.Blocks != nil {
				for _, ret := range returnsOf(g) {
					if x.Index < len(ret.Results) && classifyReturn(ret) != RetError && !b.isGuarded(ret.Results[x.Index], ret.Block(), kind, depth+1) {
						return false
					}
				}
				return true
			}
		}
	}
	return false
}

// fieldValidated: every tainted store to f in scope is guarded at the store.
func (b *boundsAn) fieldValidated(f *types.Var, kind guardKind) bool {
	cache := b.fieldOK
	if kind == gNonZero {
		cache = b.fieldNZ
	}
	if v := cache[f]; v != 0 {
		return v == 1
	}
	cache[f] = 2 // recursion guard: pessimistic
	b.w.buildFieldIndex()
	ok := true
	n := 0
	for _, st := range b.w.fieldStoreIns[f] {
		if !b.scope[st.Parent()] || !b.tv[st.Val] {
			continue
		}
		n++
		if os.Getenv("DFS_DEBUG_FIELD") == f.Name() {
			fmt.Fprintf(os.Stderr, "fieldValidated %s: store in %s guarded=%v vbs=%v noWidth=%v\n", f.Name(), fnName(st.Parent()), b.isGuarded(st.Val, st.Block(), kind, 1), b.validatedBeforeSuccess(st, kind), b.noWidth)
		}
		if !b.isGuarded(st.Val, st.Block(), kind, 1) {
			// a validation after the store also counts when every success return of the storing function is
			// dominated by the bounding edge of a comparison on the stored value
			if !b.validatedBeforeSuccess(st, kind) {
				ok = false
			}
		}
	}
	if n == 0 {
		ok = false
	}
	if ok {
		cache[f] = 1
	}
	return ok
}

func (b *boundsAn) validatedBeforeSuccess(st *ssa.Store, kind guardKind) bool {
	fn := st.Parent()
	// candidates: the stored value itself and every later load of the same field of the same object
	cands := []ssa.Value{st.Val}
	if fa, ok := st.Addr.(*ssa.FieldAddr); ok {
		// the object, and the local variables the whole object is copied into (`e := T{...}` builds a temporary and
		// copies it into e)
		bases := []ssa.Value{fa.X}
		allInstrs(fn, func(ins ssa.Instruction) {
			if cp, ok := ins.(*ssa.Store); ok {
				if ld, ok := cp.Val.(*ssa.UnOp); ok && ld.Op == token.MUL && (ld.X == fa.X || sameBase(ld.X, fa.X)) {
					bases = append(bases, cp.Addr)
				}
			}
		})
		allInstrs(fn, func(ins ssa.Instruction) {
			if ld, ok := ins.(*ssa.UnOp); ok && ld.Op == token.MUL {
				if fa2, ok := ld.X.(*ssa.FieldAddr); ok && fa2.Field == fa.Field {
					for _, bs := range bases {
						if fa2.X == bs || sameBase(fa2.X, bs) {
							cands = append(cands, ld)
							break
						}
					}
				}
			}
		})
	}
	// a validator method called on the object after it was filled in: `if err := obj.validate(); err != nil { return err }`
	// where validate rejects unbounded values of this field (every success return of validate lies behind the bounding
	// edge of a comparison on its own load of the field)
	validatorEdges := map[*ssa.BasicBlock]int{} // If block -> successor index taken when the validator accepted
	if fa, ok := st.Addr.(*ssa.FieldAddr); ok {
		for _, cc := range calls(fn, false, func(c ssa.CallInstruction) bool {
			g := c.Common().StaticCallee()
			return g != nil && b.w.inModule(g) && g.Blocks != nil && errResultIndex(g.Signature) >= 0
		}) {
			c, isCall := cc.(*ssa.Call)
			if !isCall {
				continue
			}
			g := c.Call.StaticCallee()
			argIdx := -1
			for i, a := range c.Call.Args {
				if a == fa.X || sameBase(a, fa.X) {
					argIdx = i
				}
			}
			if argIdx < 0 || argIdx >= len(g.Params) {
				continue
			}
			p := g.Params[argIdx]
			// loads of the field through the parameter inside g
			var loads []ssa.Value
			allInstrs(g, func(ins ssa.Instruction) {
				if ld, ok := ins.(*ssa.UnOp); ok && ld.Op == token.MUL {
					if fa2, ok := ld.X.(*ssa.FieldAddr); ok && fa2.Field == fa.Field && fa2.X == ssa.Value(p) {
						loads = append(loads, ld)
					}
				}
			})
			if len(loads) == 0 {
				continue
			}
			okAll, anyRet := true, false
			for _, ret := range returnsOf(g) {
				if classifyReturn(ret) == RetError {
					continue
				}
				anyRet = true
				guarded := false
				for _, ld := range loads {
					sub := &boundsAn{w: b.w, scope: b.scope, tv: map[ssa.Value]bool{ld: true}, tlen: b.tlen, tf: b.tf, retT: b.retT, origin: b.origin,
						loopBound: b.loopBound, fieldOK: b.fieldOK, fieldOKIdx: b.fieldOKIdx, fieldNZ: b.fieldNZ, trustChecksums: b.trustChecksums}
					if sub.directGuard(ld, ret.Block(), kind, 3) {
						guarded = true
					}
				}
				if !guarded {
					okAll = false
				}
			}
			if !okAll || !anyRet {
				continue
			}
			if iff, nilIdx := errNilEdge(fn, c); iff != nil {
				validatorEdges[iff.Block()] = nilIdx
			}
		}
	}
	any := false
	for _, ret := range returnsOf(fn) {
		if classifyReturn(ret) == RetError {
			continue
		}
		any = true
		ok := false
		for _, c := range cands {
			if b.directGuard(c, ret.Block(), kind, 0) {
				ok = true
				break
			}
		}
		for blk, idx := range validatorEdges {
			if edgeDominates(blk, idx, ret.Block()) {
				ok = true
			}
		}
		if !ok {
			return false
		}
	}
	return any
}

// ---- sinks -------------------------------------------------------------------------------------------

type boundsSink struct {
	fn      *ssa.Function
	ins     ssa.Instruction
	kind    string // "make", "divide", "slice", "index", "step"
	operand ssa.Value
	need    guardKind
}

func (b *boundsAn) sinks(kinds map[string]bool) []boundsSink {
	var out []boundsSink
	var fns []*ssa.Function
	for f := range b.scope {
		fns = append(fns, f)
	}
	sort.Slice(fns, func(i, j int) bool { return fns[i].String() < fns[j].String() })
	for _, fn := range fns {
		allInstrs(fn, func(ins ssa.Instruction) {
			switch x := ins.(type) {
			case *ssa.MakeSlice:
				if kinds["make"] {
					for _, o := range []ssa.Value{x.Len, x.Cap} {
						if b.tv[o] {
							out = append(out, boundsSink{fn, ins, "make", o, gUpper})
							break
						}
					}
				}
			case *ssa.Call:
				// library allocators that take a length
				if callee := x.Call.StaticCallee(); kinds["make"] && callee != nil && !b.w.fnSet[callee] && len(x.Call.Args) > 0 {
					if o := callee.Origin(); o != nil {
						callee = o
					}
					switch fullFuncName(callee) {
					case "slices.Grow", "bytes.Repeat", "strings.Repeat", "(*bytes.Buffer).Grow", "(*strings.Builder).Grow":
						if o := x.Call.Args[len(x.Call.Args)-1]; b.tv[o] {
							out = append(out, boundsSink{fn, ins, "make", o, gUpper})
						}
					}
				}
			case *ssa.BinOp:
				if kinds["divide"] && (x.Op == token.QUO || x.Op == token.REM) && b.tv[x.Y] && typeBits(x.Type()) > 0 {
					out = append(out, boundsSink{fn, ins, "divide", x.Y, gNonZero})
				}
			case *ssa.Slice:
				if kinds["slice"] {
					for _, o := range []ssa.Value{x.Low, x.High} {
						if o != nil && b.tv[o] {
							out = append(out, boundsSink{fn, ins, "slice", o, gUpper})
						}
					}
				}
				if kinds["lenconst"] && b.tlen[x.X] {
					for _, o := range []ssa.Value{x.High, x.Low} {
						if o == nil {
							continue
						}
						if c, ok := constInt(o); ok && c > 0 {
							out = append(out, boundsSink{fn, ins, "lenconst", o, gUpper})
							break
						}
					}
				}
				if kinds["step"] && x.Low != nil && b.tv[x.Low] && x.High == nil && sliceShrinksLoop(x) {
					out = append(out, boundsSink{fn, ins, "step", x.Low, gNonZero})
				}
			case *ssa.IndexAddr:
				if kinds["index"] && b.tv[x.Index] {
					out = append(out, boundsSink{fn, ins, "index", x.Index, gUpper})
				}
			case *ssa.Index:
				if kinds["index"] && b.tv[x.Index] {
					out = append(out, boundsSink{fn, ins, "index", x.Index, gUpper})
				}
			}
		})
	}
	return out
}

// sliceShrinksLoop: s = c[x:] feeds a phi that is (transitively) c itself: the loop advances by x.
func sliceShrinksLoop(s *ssa.Slice) bool {
	for _, ref := range *s.Referrers() {
		if ph, ok := ref.(*ssa.Phi); ok {
			if ph == s.X || phiFeeds(ph, s.X, 0) {
				return true
			}
		}
	}
	return false
}

func phiFeeds(ph *ssa.Phi, target ssa.Value, d int) bool {
	if d > 4 {
		return false
	}
	if ssa.Value(ph) == target {
		return true
	}
	for _, ref := range *ph.Referrers() {
		if p2, ok := ref.(*ssa.Phi); ok && phiFeeds(p2, target, d+1) {
			return true
		}
	}
	return false
}

func (s boundsSink) describe(b *boundsAn) string {
	return fmt.Sprintf("%s on %s (%s)", s.kind, shortVal(s.operand), b.origin[s.operand])
}

// sinkKey gives a position-free construct key: kind + the tainted source fields/decoders of the operand.
func (b *boundsAn) sinkKey(s boundsSink) string {
	p := b.w.prov(s.operand, provOpts{})
	var parts []string
	for _, rt := range p.Roots {
		switch rt.Kind {
		case RField:
			parts = append(parts, "."+rt.Field.Name())
		case RCall:
			if rt.Fn != nil {
				parts = append(parts, rt.Fn.Name()+"()")
			} else if rt.Meth != nil {
				parts = append(parts, rt.Meth.Name()+"()")
			}
		case RParam:
			parts = append(parts, "$"+rt.Param.Name())
		}
	}
	parts = uniq(parts)
	if len(parts) > 4 {
		parts = parts[:4]
	}
	return s.kind + " by " + strings.Join(parts, ",")
}

// isLenCall: v is len(x)/cap(x): the length of memory that already exists is a sound bound.
func isLenCall(v ssa.Value) bool {
	c, ok := stripConv(v).(*ssa.Call)
	if !ok {
		return false
	}
	bi, ok := c.Call.Value.(*ssa.Builtin)
	return ok && (bi.Name() == "len" || bi.Name() == "cap")
}

// isLenLike: len(x) or cap(x), possibly plus/minus a constant (`len(table)-1 < int(index)`).
func isLenLike(v ssa.Value) bool {
	for i := 0; i < 4; i++ {
		v = stripConv(v)
		if isLenCall(v) {
			return true
		}
		bo, ok := v.(*ssa.BinOp)
		if !ok || (bo.Op != token.ADD && bo.Op != token.SUB) {
			return false
		}
		if _, isC := constInt(bo.Y); isC {
			v = bo.X
		} else if _, isC := constInt(bo.X); isC && bo.Op == token.ADD {
			v = bo.Y
		} else {
			return false
		}
	}
	return false
}

// indexFitsArray: the sink indexes a fixed-size array and the operand's type and constant operands (masks, shifts,
// conversions from narrower types) keep it below the array length: `tab[(crc>>8)&0xff ^ uint16(b)]` with 256 entries.
func (b *boundsAn) indexFitsArray(ins ssa.Instruction, idx ssa.Value) bool {
	var t types.Type
	switch x := ins.(type) {
	case *ssa.IndexAddr:
		t = deref(x.X.Type())
	case *ssa.Index:
		t = x.X.Type()
	default:
		return false
	}
	arr, ok := t.Underlying().(*types.Array)
	if !ok {
		return false
	}
	bitsN := b.maxBits(idx, 0)
	return bitsN < 62 && int64(1)<<uint(bitsN) <= arr.Len()
}

// indexesLocallyGrownSlice: the sink indexes a slice that the enclosing function itself extends with append (a field
// or cell that receives append results). For such a container a bound on the loop counter says nothing about the
// container's length; only the append discipline (indexIntoGrownSlice) or a test of its len() does.
func indexesLocallyGrownSlice(ins ssa.Instruction) bool {
	ia, ok := ins.(*ssa.IndexAddr)
	if !ok {
		return false
	}
	ld, ok := ia.X.(*ssa.UnOp)
	if !ok || ld.Op != token.MUL {
		return false
	}
	found := false
	allInstrs(ia.Parent(), func(in ssa.Instruction) {
		st, ok := in.(*ssa.Store)
		if !ok {
			return
		}
		same := st.Addr == ld.X
		if fa, ok1 := st.Addr.(*ssa.FieldAddr); ok1 {
			if fb, ok2 := ld.X.(*ssa.FieldAddr); ok2 && fa.Field == fb.Field && sameBase(fa.X, fb.X) {
				same = true
			}
		}
		if !same {
			return
		}
		if c, ok := st.Val.(*ssa.Call); ok {
			if bi, ok := c.Call.Value.(*ssa.Builtin); ok && bi.Name() == "append" {
				found = true
			}
		}
	})
	return found
}

// indexIntoGrownSlice: the sink is s[i-c] (c >= 0 constant) where i counts the iterations of the enclosing loop from a
// non-negative constant in steps of one, and s is a field (or local cell) that the loop extends by one append in every
// iteration before the index is evaluated and before i is incremented: at the sink len(s) >= i+1 whatever the loop's
// bound is. No other store to s may occur inside the loop.
func indexIntoGrownSlice(ins ssa.Instruction, idx ssa.Value) bool {
	ia, ok := ins.(*ssa.IndexAddr)
	if !ok {
		return false
	}
	v := stripConv(idx)
	if bo, ok := v.(*ssa.BinOp); ok && bo.Op == token.SUB {
		if c, isC := constInt(bo.Y); isC && c >= 0 {
			v = stripConv(bo.X)
		}
	}
	ph, ok := v.(*ssa.Phi)
	if !ok || len(ph.Edges) != 2 {
		return false
	}
	header := ph.Block()
	latchIdx := -1
	for i, e := range ph.Edges {
		if c, isC := constInt(e); isC && c >= 0 {
			continue
		}
		bo, ok := stripConv(e).(*ssa.BinOp)
		if !ok || bo.Op != token.ADD || stripConv(bo.X) != ssa.Value(ph) {
			return false
		}
		if c, isC := constInt(bo.Y); !isC || c != 1 {
			return false
		}
		latchIdx = i
	}
	if latchIdx < 0 {
		return false
	}
	if c, isC := constInt(ph.Edges[1-latchIdx]); !isC || c < 0 {
		return false
	}
	latch := header.Preds[latchIdx]
	// the indexed slice: a load of an address (field of a local object, or a local cell)
	ld, ok := ia.X.(*ssa.UnOp)
	if !ok || ld.Op != token.MUL {
		return false
	}
	sameAddr := func(a ssa.Value) bool {
		if a == ld.X {
			return true
		}
		fa, ok1 := a.(*ssa.FieldAddr)
		fb, ok2 := ld.X.(*ssa.FieldAddr)
		return ok1 && ok2 && fa.Field == fb.Field && sameBase(fa.X, fb.X)
	}
	// loop body: blocks dominated by the header from which the latch is reachable
	inLoop := map[*ssa.BasicBlock]bool{}
	var back func(b *ssa.BasicBlock)
	back = func(b *ssa.BasicBlock) {
		if inLoop[b] || !header.Dominates(b) {
			return
		}
		inLoop[b] = true
		if b == header {
			return
		}
		for _, p := range b.Preds {
			back(p)
		}
	}
	back(latch)
	var grow *ssa.Store
	for blk := range inLoop {
		for _, in := range blk.Instrs {
			st, ok := in.(*ssa.Store)
			if !ok || !sameAddr(st.Addr) {
				continue
			}
			c, ok := st.Val.(*ssa.Call)
			if !ok {
				return false
			}
			bi, ok := c.Call.Value.(*ssa.Builtin)
			if !ok || bi.Name() != "append" || len(c.Call.Args) == 0 {
				return false
			}
			old, ok := c.Call.Args[0].(*ssa.UnOp)
			if !ok || old.Op != token.MUL || !sameAddr(old.X) {
				return false
			}
			if grow != nil {
				return false
			}
			grow = st
		}
	}
	if grow == nil {
		return false
	}
	before := func(a, b ssa.Instruction) bool { // a executes before b on every path reaching b within one iteration
		if a.Block() == b.Block() {
			for _, in := range a.Block().Instrs {
				if in == a {
					return true
				}
				if in == b {
					return false
				}
			}
		}
		return a.Block().Dominates(b.Block())
	}
	if !inLoop[ld.Block()] || !before(grow, ld) {
		return false
	}
	// the append happens in every iteration before the counter moves on
	return grow.Block() == latch || grow.Block().Dominates(latch)
}

// isInductionPhi: a phi one of whose incoming values is itself plus/minus something (a loop counter).
func isInductionPhi(ph *ssa.Phi) bool {
	for _, e := range ph.Edges {
		if bo, ok := stripConv(e).(*ssa.BinOp); ok && (bo.Op == token.ADD || bo.Op == token.SUB) {
			if stripConv(bo.X) == ssa.Value(ph) || stripConv(bo.Y) == ssa.Value(ph) {
				return true
			}
		}
	}
	return false
}

// phiIsMin: the two incoming values are selected by a comparison between (aliases of) themselves in such a way
// that the smaller is chosen: if a > b { v = b } / if b < a { v = b } ...
func phiIsMin(ph *ssa.Phi) bool {
	a, b := stripConv(ph.Edges[0]), stripConv(ph.Edges[1])
	for _, cond := range phiControls(ph) {
		bin, ok := cond.(*ssa.BinOp)
		if !ok {
			continue
		}
		x, y := stripConv(bin.X), stripConv(bin.Y)
		// len(s) evaluated twice is one value
		if sameLenCall(x, a) {
			x = a
		} else if sameLenCall(x, b) {
			x = b
		}
		if sameLenCall(y, a) {
			y = a
		} else if sameLenCall(y, b) {
			y = b
		}
		if !((x == a && y == b) || (x == b && y == a)) {
			// clamp-to-remaining: if p + a > q { v = q - p } else { v = a }
			if clampToRemaining(bin, a, b) {
				return true
			}
			continue
		}
		switch bin.Op {
		case token.GTR, token.GEQ, token.LSS, token.LEQ:
			// which value flows in on the edge where the comparison is true?
			iffBlock := bin.Block()
			iff, ok := lastInstr(iffBlock).(*ssa.If)
			if !ok || iff.Cond != ssa.Value(bin) {
				continue
			}
			// value chosen when cond true = the edge whose predecessor is (dominated by) Succs[0]
			var whenTrue ssa.Value
			for i, pred := range ph.Block().Preds {
				if pred == iffBlock.Succs[0] || iffBlock.Succs[0].Dominates(pred) && iffBlock.Succs[0] != ph.Block() {
					whenTrue = stripConv(ph.Edges[i])
				}
			}
			if whenTrue == nil {
				// the true edge goes straight to the join: the value from the If block itself
				for i, pred := range ph.Block().Preds {
					if pred == iffBlock && iffBlock.Succs[0] == ph.Block() {
						whenTrue = stripConv(ph.Edges[i])
					}
				}
			}
			if whenTrue == nil {
				continue
			}
			larger := x // for x > y, x >= y: x is the larger when true
			if bin.Op == token.LSS || bin.Op == token.LEQ {
				larger = y
			}
			// min is selected when, on the true edge, the value that flows in is NOT the larger one
			if whenTrue != larger {
				return true
			}
		}
	}
	return false
}

// sameLenCall: both are len() of the same slice value.
func sameLenCall(p, q ssa.Value) bool {
	if p == q {
		return false
	}
	cp, ok1 := p.(*ssa.Call)
	cq, ok2 := q.(*ssa.Call)
	if !ok1 || !ok2 {
		return false
	}
	bp, ok1 := cp.Call.Value.(*ssa.Builtin)
	bq, ok2 := cq.Call.Value.(*ssa.Builtin)
	if !ok1 || !ok2 || bp.Name() != "len" || bq.Name() != "len" {
		return false
	}
	return cp.Call.Args[0] == cq.Call.Args[0] || sameBase(cp.Call.Args[0], cq.Call.Args[0])
}

// checksumGuarded: every success return of fn is dominated by the equal edge of a comparison between a
// stored value and the result of a checksum computation (a call whose name mentions checksum/crc).
func (b *boundsAn) checksumGuarded(fn *ssa.Function) bool {
	isSum := func(v ssa.Value) bool {
		p := b.w.prov(v, provOpts{})
		return p.hasCall(func(rt Root) bool {
			n := ""
			if rt.Fn != nil {
				n = strings.ToLower(fullFuncName(rt.Fn))
			} else if rt.Meth != nil {
				n = strings.ToLower(rt.Meth.FullName())
			}
			return strings.Contains(n, "checksum") || strings.Contains(n, "crc")
		})
	}
	var guards []struct {
		iff *ssa.If
		eq  int
	}
	for _, blk := range fn.Blocks {
		iff, ok := lastInstr(blk).(*ssa.If)
		if !ok {
			continue
		}
		x, y, eqIdx, ok := eqEdge(iff)
		if !ok {
			continue
		}
		if isSum(x) != isSum(y) { // exactly one side is the computed checksum
			guards = append(guards, struct {
				iff *ssa.If
				eq  int
			}{iff, eqIdx})
		}
	}
	if len(guards) == 0 {
		return false
	}
	any := false
	for _, ret := range returnsOf(fn) {
		if classifyReturn(ret) == RetError {
			continue
		}
		// a nil result without error (e.g. "not present") carries no data
		any = true
		dom := false
		for _, g := range guards {
			if edgeDominates(g.iff.Block(), g.eq, ret.Block()) {
				dom = true
			}
		}
		if !dom {
			return false
		}
	}
	return any
}

// fieldBits: the widest value stored to field f by in-scope functions (type widths of what is stored).
func (b *boundsAn) fieldBits(f *types.Var, depth int) int {
	tb := typeBits(f.Type())
	if tb == 0 {
		tb = 64
	}
	if depth > 6 {
		return tb
	}
	b.w.buildFieldIndex()
	m, n := 0, 0
	for _, st := range b.w.fieldStoreIns[f] {
		if !b.scope[st.Parent()] {
			continue
		}
		n++
		if bb := b.maxBits(st.Val, depth+3); bb > m {
			m = bb
		}
	}
	if n == 0 || m == 0 || m > tb {
		return tb
	}
	return m
}

// clampToRemaining recognises `if p + a > q { v = q - p }` (v = phi(a, q - p)): v <= q - p and v <= a.
func clampToRemaining(bin *ssa.BinOp, e0, e1 ssa.Value) bool {
	if bin.Op != token.GTR && bin.Op != token.GEQ && bin.Op != token.LSS && bin.Op != token.LEQ {
		return false
	}
	sum, q := stripConv(bin.X), stripConv(bin.Y)
	if bin.Op == token.LSS || bin.Op == token.LEQ {
		sum, q = q, sum
	}
	add, ok := sum.(*ssa.BinOp)
	if !ok || add.Op != token.ADD {
		return false
	}
	for _, pair := range [][2]ssa.Value{{e0, e1}, {e1, e0}} {
		a, rem := pair[0], pair[1]
		sub, ok := rem.(*ssa.BinOp)
		if !ok || sub.Op != token.SUB || stripConv(sub.X) != q {
			continue
		}
		p := stripConv(sub.Y)
		ax, ay := stripConv(add.X), stripConv(add.Y)
		if (ax == p && ay == a) || (ay == p && ax == a) {
			return true
		}
		// p may be recomputed (len(b) twice): compare by expression string
		if (exprString(ax, 0) == exprString(p, 0) && ay == a) || (exprString(ay, 0) == exprString(p, 0) && ax == a) {
			return true
		}
	}
	return false
}

// lenAtLeast: a constant L with len(sl) >= L established at block `at` (0: nothing known). Sources: a dominating
// comparison of len(sl) with a constant on the edge where the length is not smaller; make with a length of proven
// minimum; arrays; constant sub-slices; parameters (every in-scope call site); phis (minimum of the edges).
func (b *boundsAn) lenAtLeast(sl ssa.Value, at *ssa.BasicBlock, depth int) int64 {
	if depth > 8 || sl == nil || at == nil {
		return 0
	}
	best := int64(0)
	up := func(k int64) {
		if k > best {
			best = k
		}
	}
	// dominating tests of len(sl)
	fn := at.Parent()
	same := func(v ssa.Value) bool { return v == sl || sameBase(v, sl) }
	for _, blk := range fn.Blocks {
		iff, ok := lastInstr(blk).(*ssa.If)
		if !ok {
			continue
		}
		bin, ok := iff.Cond.(*ssa.BinOp)
		if !ok {
			continue
		}
		for _, mOnX := range []bool{true, false} {
			m, other := bin.X, bin.Y
			if !mOnX {
				m, other = bin.Y, bin.X
			}
			lc, ok := stripConv(m).(*ssa.Call)
			if !ok {
				continue
			}
			bi, ok := lc.Call.Value.(*ssa.Builtin)
			if !ok || bi.Name() != "len" || !same(lc.Call.Args[0]) {
				continue
			}
			k, isC := constInt(other)
			if !isC {
				// len(sl) compared with a non-constant of proven minimum: len >= other >= k
				k = b.minConst(other, blk, depth+1)
				if k <= 0 {
					continue
				}
			}
			op := bin.Op
			if !mOnX {
				switch op {
				case token.LSS:
					op = token.GTR
				case token.LEQ:
					op = token.GEQ
				case token.GTR:
					op = token.LSS
				case token.GEQ:
					op = token.LEQ
				}
			}
			idx, low := -1, int64(0)
			switch op {
			case token.LSS:
				idx, low = 1, k
			case token.LEQ:
				idx, low = 1, k+1
			case token.GEQ:
				idx, low = 0, k
			case token.GTR:
				idx, low = 0, k+1
			case token.EQL:
				if isC {
					idx, low = 0, k
				}
			case token.NEQ:
				if isC {
					idx, low = 1, k
				}
			}
			if idx >= 0 && edgeDominates(blk, idx, at) {
				up(low)
			}
		}
	}
	// inside a loop guarded by i < len(sl) with a counter that starts at a non-negative constant: len(sl) >= 1; if the
	// length is known to be a multiple of m (every caller passes a window of x*m bytes), then len(sl) >= m
	for _, blk := range fn.Blocks {
		iff, ok := lastInstr(blk).(*ssa.If)
		if !ok {
			continue
		}
		bin, ok := iff.Cond.(*ssa.BinOp)
		if !ok || bin.Op != token.LSS {
			continue
		}
		lc, ok := stripConv(bin.Y).(*ssa.Call)
		if !ok {
			continue
		}
		bi, ok := lc.Call.Value.(*ssa.Builtin)
		if !ok || bi.Name() != "len" || !same(lc.Call.Args[0]) {
			continue
		}
		ph, ok := stripConv(bin.X).(*ssa.Phi)
		if !ok || !isInductionPhi(ph) {
			continue
		}
		nonNeg := false
		for _, e := range ph.Edges {
			if c, isC := constInt(e); isC && c >= 0 {
				nonNeg = true
			}
		}
		if !nonNeg || !edgeDominates(blk, 0, at) {
			continue
		}
		up(1)
		if m := b.lenMultipleOf(sl, depth+1); m > 1 {
			up(m)
		}
	}
	switch x := sl.(type) {
	case *ssa.MakeSlice:
		if c, ok := constInt(x.Len); ok {
			up(c)
		} else {
			up(b.minConst(x.Len, x.Block(), depth+1))
		}
	case *ssa.Slice:
		lo := int64(0)
		loConst := x.Low == nil
		if x.Low != nil {
			if c, ok := constInt(x.Low); ok {
				lo, loConst = c, true
			}
		}
		if x.High != nil {
			if hc, ok := constInt(x.High); ok && loConst {
				up(hc - lo) // the expression itself panics unless the operand is that long
			} else if loConst {
				if k := b.minConst(x.High, x.Block(), depth+1); k > lo {
					up(k - lo) // s[lo:n] with n of proven minimum
				}
			} else if add, ok := stripConv(x.High).(*ssa.BinOp); ok && add.Op == token.ADD {
				// s[i : i+n]: the window is n long
				lov := stripConv(x.Low)
				var n ssa.Value
				switch {
				case stripConv(add.X) == lov || sameLoad(stripConv(add.X), lov):
					n = add.Y
				case stripConv(add.Y) == lov || sameLoad(stripConv(add.Y), lov):
					n = add.X
				}
				if n != nil {
					if c, ok := constInt(n); ok {
						up(c)
					} else {
						up(b.minConst(n, x.Block(), depth+1))
					}
				}
			}
		} else if loConst {
			if arr, ok := deref(x.X.Type()).Underlying().(*types.Array); ok {
				up(arr.Len() - lo)
			} else if k := b.lenAtLeast(x.X, x.Block(), depth+1); k > lo {
				up(k - lo)
			}
		}
	case *ssa.Phi:
		lo := int64(-1)
		for _, e := range x.Edges {
			k := b.lenAtLeast(e, x.Block(), depth+1)
			if lo < 0 || k < lo {
				lo = k
			}
		}
		if lo > 0 {
			up(lo)
		}
	case *ssa.Parameter:
		pf := x.Parent()
		idx := -1
		for i, p := range pf.Params {
			if p == x {
				idx = i
			}
		}
		node := b.w.CHA().Nodes[pf]
		lo, n := int64(-1), 0
		if node != nil && idx >= 0 {
			for _, e := range node.In {
				if e.Site == nil || !b.scope[e.Caller.Func] {
					continue
				}
				cc := e.Site.Common()
				if cc.IsInvoke() || idx >= len(cc.Args) {
					lo = 0
					continue
				}
				n++
				k := b.lenAtLeast(cc.Args[idx], e.Site.Block(), depth+1)
				if lo < 0 || k < lo {
					lo = k
				}
			}
		}
		if n > 0 && lo > 0 {
			up(lo)
		}
		// the length travels alongside: every caller passes s[i:i+int(v)] (or s[:int(v)]) together with v as another
		// argument, so inside the callee len(sl) equals that parameter and inherits what is known about it
		if j := b.lenParam(x); j != nil {
			up(b.minConst(j, at, depth+1))
		}
	case *ssa.UnOp:
		// a local cell written once
		if x.Op == token.MUL {
			if al, ok := x.X.(*ssa.Alloc); ok {
				if sts := cellStores(al); len(sts) == 1 {
					up(b.lenAtLeast(sts[0].Val, sts[0].Block(), depth+1))
				}
			}
		}
	}
	return best
}

// lenParam: the parameter of sl's function that equals len(sl) at every in-scope call site, nil if none.
func (b *boundsAn) lenParam(sl *ssa.Parameter) *ssa.Parameter {
	pf := sl.Parent()
	idx := -1
	for i, q := range pf.Params {
		if q == sl {
			idx = i
		}
	}
	node := b.w.CHA().Nodes[pf]
	if node == nil || idx < 0 {
		return nil
	}
	cand := -2
	n := 0
	for _, e := range node.In {
		if e.Site == nil || !b.scope[e.Caller.Func] {
			continue
		}
		cc := e.Site.Common()
		if cc.IsInvoke() || idx >= len(cc.Args) {
			return nil
		}
		n++
		sx, ok := cc.Args[idx].(*ssa.Slice)
		if !ok || sx.High == nil {
			return nil
		}
		var ln ssa.Value
		if sx.Low == nil {
			ln = sx.High
		} else if add, ok := stripConv(sx.High).(*ssa.BinOp); ok && add.Op == token.ADD {
			lov := stripConv(sx.Low)
			switch {
			case stripConv(add.X) == lov || sameLoad(stripConv(add.X), lov):
				ln = add.Y
			case stripConv(add.Y) == lov || sameLoad(stripConv(add.Y), lov):
				ln = add.X
			}
		}
		if ln == nil {
			return nil
		}
		found := -1
		for j, a := range cc.Args {
			if j == idx {
				continue
			}
			if stripConv(a) == stripConv(ln) || sameLoad(stripConv(a), stripConv(ln)) {
				found = j
			}
		}
		if found < 0 || (cand != -2 && cand != found) {
			return nil
		}
		cand = found
	}
	if n == 0 || cand < 0 || cand >= len(pf.Params) {
		return nil
	}
	return pf.Params[cand]
}

// lenMultipleOf: a constant m > 1 such that len(sl) is always a multiple of m: sl is a parameter and every in-scope
// caller passes a window x[lo : lo+n*m] (or x[:n*m]) whose length is a product with the constant m. 0 if unknown.
func (b *boundsAn) lenMultipleOf(sl ssa.Value, depth int) int64 {
	p, ok := sl.(*ssa.Parameter)
	if !ok || depth > 6 {
		return 0
	}
	pf := p.Parent()
	idx := -1
	for i, q := range pf.Params {
		if q == p {
			idx = i
		}
	}
	node := b.w.CHA().Nodes[pf]
	if node == nil || idx < 0 {
		return 0
	}
	factorOf := func(v ssa.Value) int64 {
		// v = n*m, possibly through a phi whose other edge is the constant 0, or a local cell
		var rec func(v ssa.Value, d int) int64
		rec = func(v ssa.Value, d int) int64 {
			v = stripConv(v)
			if d > 4 {
				return 0
			}
			switch x := v.(type) {
			case *ssa.BinOp:
				if x.Op == token.MUL {
					if c, ok := constInt(x.Y); ok && c > 1 {
						return c
					}
					if c, ok := constInt(x.X); ok && c > 1 {
						return c
					}
				}
			case *ssa.UnOp:
				if al, ok := x.X.(*ssa.Alloc); ok && x.Op == token.MUL {
					m := int64(-1)
					for _, st := range cellStores(al) {
						if c, isC := constInt(st.Val); isC && c == 0 {
							continue
						}
						k := rec(st.Val, d+1)
						if k == 0 || (m > 0 && k != m) {
							return 0
						}
						m = k
					}
					if m > 0 {
						return m
					}
				}
			}
			return 0
		}
		return rec(v, 0)
	}
	m, n := int64(-1), 0
	for _, e := range node.In {
		if e.Site == nil || !b.scope[e.Caller.Func] {
			continue
		}
		cc := e.Site.Common()
		if cc.IsInvoke() || idx >= len(cc.Args) {
			return 0
		}
		n++
		sx, ok := cc.Args[idx].(*ssa.Slice)
		if !ok || sx.High == nil {
			return 0
		}
		// High = Low + n*m  or Low == nil and High = n*m
		var k int64
		if sx.Low == nil {
			k = factorOf(sx.High)
		} else if add, ok := stripConv(sx.High).(*ssa.BinOp); ok && add.Op == token.ADD {
			lo := stripConv(sx.Low)
			switch {
			case stripConv(add.X) == lo || sameLoad(stripConv(add.X), lo):
				k = factorOf(add.Y)
			case stripConv(add.Y) == lo || sameLoad(stripConv(add.Y), lo):
				k = factorOf(add.X)
			default:
				if c1, ok1 := constInt(add.X); ok1 {
					if c2, ok2 := constInt(lo); ok2 && c1 == c2 {
						k = factorOf(add.Y)
					}
				}
				if c1, ok1 := constInt(add.Y); ok1 && k == 0 {
					if c2, ok2 := constInt(lo); ok2 && c1 == c2 {
						k = factorOf(add.X)
					}
				}
			}
		}
		if k <= 1 || (m > 0 && k != m) {
			return 0
		}
		m = k
	}
	if n == 0 || m < 0 {
		return 0
	}
	return m
}

// minConst: the greatest constant K for which v >= K is established at block `at` (0: nothing known). Sources:
// constants; a dominating comparison of (an alias of) v with a positive constant on the edge where v is not smaller;
// a validator call on v whose accepted paths all establish a minimum; parameters (every in-scope call site);
// fields (every in-scope store, validated at the store or before the storing function succeeds).
func (b *boundsAn) minConst(v ssa.Value, at *ssa.BasicBlock, depth int) (res int64) {
	if depth > 20 || at == nil {
		return 0
	}
	if os.Getenv("DFS_DEBUG_MIN") != "" {
		defer func() {
			fmt.Fprintf(os.Stderr, "%*sminConst %s %s in %s = %d\n", depth, "", v.Name(), v.String(), fnName(at.Parent()), res)
		}()
	}
	if c, ok := constInt(v); ok {
		if c > 0 {
			return c
		}
		return 0
	}
	best := int64(0)
	up := func(k int64) {
		if k > best {
			best = k
		}
	}
	fn := at.Parent()
	in := map[ssa.Value]bool{}
	for _, a := range b.aliases(v) {
		in[a] = true
	}
	for _, blk := range fn.Blocks {
		iff, ok := lastInstr(blk).(*ssa.If)
		if !ok {
			continue
		}
		bin, ok := iff.Cond.(*ssa.BinOp)
		if !ok {
			continue
		}
		for _, mOnX := range []bool{true, false} {
			m, other := bin.X, bin.Y
			if !mOnX {
				m, other = bin.Y, bin.X
			}
			k, isC := constInt(other)
			if !in[m] || !isC || k <= 0 {
				continue
			}
			op := bin.Op
			if !mOnX {
				switch op {
				case token.LSS:
					op = token.GTR
				case token.LEQ:
					op = token.GEQ
				case token.GTR:
					op = token.LSS
				case token.GEQ:
					op = token.LEQ
				}
			}
			idx, low := -1, int64(0)
			switch op {
			case token.LSS: // m < K: false edge m >= K
				idx, low = 1, k
			case token.LEQ:
				idx, low = 1, k+1
			case token.GEQ:
				idx, low = 0, k
			case token.GTR:
				idx, low = 0, k+1
			case token.EQL:
				idx, low = 0, k
			case token.NEQ:
				idx, low = 1, k
			}
			if idx >= 0 && edgeDominates(blk, idx, at) {
				up(low)
			}
		}
	}
	// validator call on an alias whose nil-error edge dominates `at`
	for _, blk := range fn.Blocks {
		for _, ins := range blk.Instrs {
			c, ok := ins.(*ssa.Call)
			if !ok {
				continue
			}
			g := c.Call.StaticCallee()
			if g == nil || g.Blocks == nil || !b.w.inModule(g) || errResultIndex(g.Signature) < 0 {
				continue
			}
			argIdx := -1
			for i, a := range c.Call.Args {
				if in[a] || in[stripConv(a)] {
					argIdx = i
				}
			}
			if argIdx < 0 || argIdx >= len(g.Params) {
				// the validator is handed the object the value is a field of: validateX(obj) tests obj.f itself
				var fld *types.Var
				var base ssa.Value
				for a := range in {
					if ld, ok := a.(*ssa.UnOp); ok && ld.Op == token.MUL {
						if fa, ok := ld.X.(*ssa.FieldAddr); ok {
							fld, base = fa.X.Type().Underlying().(*types.Pointer).Elem().Underlying().(*types.Struct).Field(fa.Field), fa.X
						}
					}
				}
				if fld == nil {
					continue
				}
				oi := -1
				for i, a := range c.Call.Args {
					if a == base || sameBase(a, base) {
						oi = i
					}
				}
				iff, nilIdx := errNilEdge(fn, c)
				if oi < 0 || oi >= len(g.Params) || iff == nil || !edgeDominates(iff.Block(), nilIdx, at) {
					continue
				}
				var loads []ssa.Value
				allInstrs(g, func(gi ssa.Instruction) {
					if ld, ok := gi.(*ssa.UnOp); ok && ld.Op == token.MUL {
						if fa, ok := ld.X.(*ssa.FieldAddr); ok && fa.X == ssa.Value(g.Params[oi]) {
							if st, ok := fa.X.Type().Underlying().(*types.Pointer); ok {
								if ss, ok := st.Elem().Underlying().(*types.Struct); ok && ss.Field(fa.Field) == fld {
									loads = append(loads, ld)
								}
							}
						}
					}
				})
				lo, any := int64(-1), false
				for _, ret := range returnsOf(g) {
					if classifyReturn(ret) == RetError {
						continue
					}
					any = true
					k := int64(0)
					for _, ld := range loads {
						if kk := b.minConst(ld, ret.Block(), depth+2); kk > k {
							k = kk
						}
					}
					if lo < 0 || k < lo {
						lo = k
					}
				}
				if any && lo > 0 {
					up(lo)
				}
				continue
			}
			iff, nilIdx := errNilEdge(fn, c)
			if iff == nil || !edgeDominates(iff.Block(), nilIdx, at) {
				continue
			}
			lo, any := int64(-1), false
			for _, ret := range returnsOf(g) {
				if classifyReturn(ret) == RetError {
					continue
				}
				any = true
				k := b.minConst(g.Params[argIdx], ret.Block(), depth+2)
				if lo < 0 || k < lo {
					lo = k
				}
			}
			if any && lo > 0 {
				up(lo)
			}
		}
	}
	// a product or sum whose operands are both handed to a validator that recomputes the same expression from its
	// parameters and bounds it: checkExtent(sectorsPerFat, bytesPerSector, ...) tests sectorsPerFat*bytesPerSector
	if bo, ok := v.(*ssa.BinOp); ok && (bo.Op == token.MUL || bo.Op == token.ADD) && depth < 12 {
		inX, inY := map[ssa.Value]bool{}, map[ssa.Value]bool{}
		for _, a := range b.aliases(bo.X) {
			inX[a] = true
		}
		for _, a := range b.aliases(bo.Y) {
			inY[a] = true
		}
		for _, blk := range fn.Blocks {
			for _, ins := range blk.Instrs {
				c, ok := ins.(*ssa.Call)
				if !ok {
					continue
				}
				g := c.Call.StaticCallee()
				if g == nil || g.Blocks == nil || !b.w.inModule(g) || errResultIndex(g.Signature) < 0 || len(c.Call.Args) != len(g.Params) {
					continue
				}
				ix, iy := -1, -1
				for i, a := range c.Call.Args {
					if inX[a] || inX[stripConv(a)] {
						ix = i
					}
					if inY[a] || inY[stripConv(a)] {
						iy = i
					}
				}
				if ix < 0 || iy < 0 || ix == iy {
					continue
				}
				iff, nilIdx := errNilEdge(fn, c)
				if iff == nil || !edgeDominates(iff.Block(), nilIdx, at) {
					continue
				}
				px, py := ssa.Value(g.Params[ix]), ssa.Value(g.Params[iy])
				allInstrs(g, func(gi ssa.Instruction) {
					gb, ok := gi.(*ssa.BinOp)
					if !ok || gb.Op != bo.Op {
						return
					}
					gx, gy := unspillParam(stripConv(gb.X)), unspillParam(stripConv(gb.Y))
					if !((gx == px && gy == py) || (gx == py && gy == px)) {
						return
					}
					lo, any := int64(-1), false
					for _, ret := range returnsOf(g) {
						if classifyReturn(ret) == RetError {
							continue
						}
						any = true
						k := b.minConst(gb, ret.Block(), depth+3)
						if lo < 0 || k < lo {
							lo = k
						}
					}
					if any && lo > 0 {
						up(lo)
					}
				})
			}
		}
	}
	switch x := v.(type) {
	case *ssa.BinOp:
		kx, ky := b.minConst(x.X, at, depth+1), b.minConst(x.Y, at, depth+1)
		switch x.Op {
		case token.MUL:
			if kx > 0 && ky > 0 && kx < 1<<31 && ky < 1<<31 && b.maxBits(x.X, 0)+b.maxBits(x.Y, 0) <= func() int {
				if tb := typeBits(x.Type()); tb > 0 {
					return tb
				}
				return 64
			}() {
				up(kx * ky)
			}
		case token.ADD:
			// 0 means "nothing known", which for an unsigned operand still means >= 0
			unsigned := false
			if bt, ok := x.Type().Underlying().(*types.Basic); ok && bt.Info()&types.IsUnsigned != 0 {
				unsigned = true
			}
			tb := typeBits(x.Type())
			mx := b.maxBits(x.X, 0)
			if by := b.maxBits(x.Y, 0); by > mx {
				mx = by
			}
			noWrap := tb == 64 || mx+1 <= tb
			if noWrap && ((unsigned && kx+ky > 0) || (kx > 0 && ky > 0)) {
				up(kx + ky)
			}
		}
	case *ssa.Convert:
		if typeBits(x.Type()) >= typeBits(x.X.Type()) {
			up(b.minConst(x.X, at, depth+1))
		}
	case *ssa.ChangeType:
		up(b.minConst(x.X, at, depth+1))
	case *ssa.Parameter:
		pf := x.Parent()
		idx := -1
		for i, p := range pf.Params {
			if p == x {
				idx = i
			}
		}
		node := b.w.CHA().Nodes[pf]
		lo, n := int64(-1), 0
		if node != nil && idx >= 0 {
			for _, e := range node.In {
				if e.Site == nil || !b.scope[e.Caller.Func] {
					continue
				}
				cc := e.Site.Common()
				if cc.IsInvoke() || idx >= len(cc.Args) {
					lo = 0
					continue
				}
				n++
				k := b.minConst(cc.Args[idx], e.Site.Block(), depth+1)
				if lo < 0 || k < lo {
					lo = k
				}
			}
		}
		if n > 0 && lo > 0 {
			up(lo)
		}
	case *ssa.UnOp:
		if x.Op == token.MUL {
			if fa, ok := x.X.(*ssa.FieldAddr); ok {
				if _, f, _, ok := fieldOfAddr(fa); ok {
					up(b.fieldMin(f, depth))
				}
			}
		}
	case *ssa.Field:
		if _, f, _, ok := fieldOfAddr(x); ok {
			up(b.fieldMin(f, depth))
		}
	}
	return best
}

// fieldMin: a minimum every in-scope store to f establishes (at the store, or on every success return of the storing function).
func (b *boundsAn) fieldMin(f *types.Var, depth int) int64 {
	if b.fieldLo == nil {
		b.fieldLo = map[*types.Var]int64{}
	}
	if k, ok := b.fieldLo[f]; ok {
		return k
	}
	b.fieldLo[f] = 0 // recursion guard
	b.w.buildFieldIndex()
	lo, n := int64(-1), 0
	for _, st := range b.w.fieldStoreIns[f] {
		if !b.scope[st.Parent()] {
			continue
		}
		n++
		k := b.minConst(st.Val, st.Block(), depth+1)
		if k == 0 {
			// validated after the store, before any success return
			k2, any := int64(-1), false
			for _, ret := range returnsOf(st.Parent()) {
				if classifyReturn(ret) == RetError {
					continue
				}
				any = true
				kk := b.minConst(st.Val, ret.Block(), depth+1)
				if k2 < 0 || kk < k2 {
					k2 = kk
				}
			}
			if any && k2 > 0 {
				k = k2
			}
		}
		if lo < 0 || k < lo {
			lo = k
		}
	}
	if n == 0 || lo < 0 {
		lo = 0
	}
	b.fieldLo[f] = lo
	return lo
}

// derivedFrom: m is computed from a member v of set through arithmetic and conversions in such a way that an upper
// bound on m is an upper bound on v: m is non-decreasing in v (v is an addend, a factor, the dividend or the shifted
// value, never a subtrahend, divisor or shift amount) and no step can wrap around in its integer type (a product of
// two 32-bit header fields computed in 32 bits says nothing about its factors).
func (b *boundsAn) derivedFrom(m ssa.Value, set map[ssa.Value]bool, depth int) bool {
	if depth > 10 {
		return false
	}
	if set[m] {
		return true
	}
	tb := typeBits(m.Type())
	if tb == 0 {
		tb = 64
	}
	switch x := m.(type) {
	case *ssa.Convert:
		if xb := typeBits(x.X.Type()); xb > tb && b.maxBits(x.X, 0) > tb {
			return false // narrowing that can drop high bits
		}
		return b.derivedFrom(x.X, set, depth+1)
	case *ssa.ChangeType:
		return b.derivedFrom(x.X, set, depth+1)
	case *ssa.BinOp:
		bx, by := b.maxBits(x.X, 0), b.maxBits(x.Y, 0)
		switch x.Op {
		case token.ADD:
			mx := bx
			if by > mx {
				mx = by
			}
			if tb < 64 && mx+1 > tb {
				return false // a sum of 64-bit quantities derived from lengths and 32-bit fields does not wrap; narrower sums can
			}
			return b.derivedFrom(x.X, set, depth+1) || b.derivedFrom(x.Y, set, depth+1)
		case token.MUL:
			if bx+by > tb {
				return false
			}
			return b.derivedFrom(x.X, set, depth+1) || b.derivedFrom(x.Y, set, depth+1)
		case token.SHL:
			c, ok := constInt(x.Y)
			if !ok || bx+int(c) > tb {
				return false
			}
			return b.derivedFrom(x.X, set, depth+1)
		case token.SUB:
			if b.derivedFrom(x.X, set, depth+1) {
				return true
			}
			// a - v in unsigned arithmetic: if v exceeds a the difference wraps to a value of the order of the type's
			// range and the comparison rejects it, otherwise v <= a. Under the single-corrupted-field model (C18) a is
			// genuine, so v is bounded; with several hostile fields (C15) a itself would have to be bounded.
			if bt, ok := x.Type().Underlying().(*types.Basic); ok && bt.Info()&types.IsUnsigned != 0 && b.trustChecksums {
				return b.derivedFrom(x.Y, set, depth+1)
			}
			return false
		case token.QUO, token.SHR:
			return b.derivedFrom(x.X, set, depth+1)
		}
	}
	return false
}

package main

// BOUNDS: taint of device-derived values × dominating guards × type width.
//
// Sources: results of encoding/binary UintNN decoders and byte loads from []byte values in the scoped
// functions, propagated through arithmetic, conversions, phis, struct fields (field-based) and calls
// (context-insensitive parameter binding, per-result return taint). A sink operand is *guarded* when a
// comparison on it (or on a value it is a conversion/monotone image of) dominates the sink through the edge
// on which the value is bounded, when all its tainted operands are guarded, when it is loaded from a field all
// of whose tainted stores are guarded at the store, or when its static type bounds it below 2^24.

import (
	"fmt"
	"go/token"
	"go/types"
	"sort"
	"strings"

	"golang.org/x/tools/go/ssa"
)

type boundsAn struct {
	w          *World
	scope      map[*ssa.Function]bool
	tv         map[ssa.Value]bool  // tainted values
	tlen       map[ssa.Value]bool  // slices whose length is tainted
	tf         map[*types.Var]bool // tainted fields
	retT       map[*ssa.Function][]bool
	origin     map[ssa.Value]string
	noWidth    bool                   // while judging an index/slice bound a small type is not a guard (the container may be smaller)
	loopBound  map[*ssa.Phi]ssa.Value // induction variable -> the device-derived value its loop condition compares it with
	fieldOK    map[*types.Var]int     // 0 unknown, 1 validated upper, 2 not
	fieldOKIdx map[*types.Var]int
	fieldNZ    map[*types.Var]int
}

func newBounds(w *World, fns []*ssa.Function) *boundsAn {
	b := &boundsAn{w: w, scope: map[*ssa.Function]bool{}, tv: map[ssa.Value]bool{}, tlen: map[ssa.Value]bool{}, tf: map[*types.Var]bool{},
		retT: map[*ssa.Function][]bool{}, loopBound: map[*ssa.Phi]ssa.Value{}, origin: map[ssa.Value]string{}, fieldOK: map[*types.Var]int{}, fieldOKIdx: map[*types.Var]int{}, fieldNZ: map[*types.Var]int{}}
	for _, f := range fns {
		b.scope[f] = true
	}
	b.propagate()
	return b
}

func isBinaryDecode(c *ssa.Call) bool {
	f := c.Call.StaticCallee()
	if f == nil {
		return false
	}
	n := fullFuncName(f)
	return strings.HasPrefix(n, "(encoding/binary.") && strings.Contains(n, ").Uint")
}

func isByteContainer(t types.Type) bool {
	switch u := t.Underlying().(type) {
	case *types.Slice:
		b, ok := u.Elem().Underlying().(*types.Basic)
		return ok && b.Kind() == types.Uint8
	case *types.Pointer:
		if a, ok := u.Elem().Underlying().(*types.Array); ok {
			b, ok := a.Elem().Underlying().(*types.Basic)
			return ok && b.Kind() == types.Uint8
		}
	case *types.Array:
		b, ok := u.Elem().Underlying().(*types.Basic)
		return ok && b.Kind() == types.Uint8
	}
	return false
}

func (b *boundsAn) mark(v ssa.Value, why string) bool {
	if b.tv[v] {
		return false
	}
	b.tv[v] = true
	if b.origin[v] == "" {
		b.origin[v] = why
	}
	return true
}

func (b *boundsAn) propagate() {
	var fns []*ssa.Function
	for f := range b.scope {
		fns = append(fns, f)
	}
	sort.Slice(fns, func(i, j int) bool { return fns[i].String() < fns[j].String() })
	for changed := true; changed; {
		changed = false
		for _, fn := range fns {
			allInstrs(fn, func(ins ssa.Instruction) {
				switch x := ins.(type) {
				case *ssa.Call:
					if isBinaryDecode(x) {
						if b.mark(x, "decoded by "+x.Call.StaticCallee().Name()+" at "+b.w.relFile(x.Pos())) {
							changed = true
						}
						return
					}
					if bi, ok := x.Call.Value.(*ssa.Builtin); ok {
						switch bi.Name() {
						case "len", "cap":
							if b.tlen[x.Call.Args[0]] && b.mark(x, "length of a slice sized by device data") {
								changed = true
							}
						case "min", "max":
							for _, a := range x.Call.Args {
								if b.tv[a] && b.mark(x, b.origin[a]) {
									changed = true
								}
							}
						case "append":
							if b.tlen[x.Call.Args[0]] && !b.tlen[x] {
								b.tlen[x] = true
								changed = true
							}
						}
						return
					}
					g := x.Call.StaticCallee()
					if g == nil || !b.scope[g] {
						return
					}
					for i, a := range x.Call.Args {
						if i < len(g.Params) {
							if b.tv[a] && b.mark(g.Params[i], b.origin[a]) {
								changed = true
							}
							if b.tlen[a] && !b.tlen[g.Params[i]] {
								b.tlen[g.Params[i]] = true
								changed = true
							}
						}
					}
					rt := b.retT[g]
					if g.Signature.Results().Len() == 1 && len(rt) == 1 && rt[0] {
						if b.mark(x, "returned by "+fnName(g)) {
							changed = true
						}
					}
				case *ssa.Extract:
					if c, ok := x.Tuple.(*ssa.Call); ok {
						if g := c.Call.StaticCallee(); g != nil && b.scope[g] {
							if rt := b.retT[g]; x.Index < len(rt) && rt[x.Index] {
								if b.mark(x, "returned by "+fnName(g)) {
									changed = true
								}
							}
						}
					}
				case *ssa.Return:
					rt := b.retT[fn]
					if rt == nil {
						rt = make([]bool, len(x.Results))
						b.retT[fn] = rt
					}
					for i, rv := range x.Results {
						if i < len(rt) && b.tv[rv] && !rt[i] {
							rt[i] = true
							changed = true
						}
					}
				case *ssa.BinOp:
					switch x.Op {
					case token.LSS, token.LEQ, token.GTR, token.GEQ, token.NEQ:
						// a loop counter compared with a device-derived bound ranges up to that bound
						for _, pair := range [][2]ssa.Value{{x.X, x.Y}, {x.Y, x.X}} {
							ph, isPhi := stripConv(pair[0]).(*ssa.Phi)
							if !isPhi || !b.tv[pair[1]] || b.tv[ph] || !isInductionPhi(ph) {
								continue
							}
							for _, ref := range *x.Referrers() {
								if _, isIf := ref.(*ssa.If); isIf {
									b.loopBound[ph] = pair[1]
									if b.mark(ph, "loop counter bounded by "+b.origin[pair[1]]) {
										changed = true
									}
								}
							}
						}
						return
					case token.EQL:
						return
					}
					for _, o := range []ssa.Value{x.X, x.Y} {
						if b.tv[o] && b.mark(x, b.origin[o]) {
							changed = true
						}
					}
				case *ssa.Convert:
					if b.tv[x.X] && typeBits(x.Type()) > 0 && b.mark(x, b.origin[x.X]) {
						changed = true
					}
				case *ssa.ChangeType:
					if b.tv[x.X] && b.mark(x, b.origin[x.X]) {
						changed = true
					}
				case *ssa.Phi:
					for _, e := range x.Edges {
						if b.tv[e] && b.mark(x, b.origin[e]) {
							changed = true
						}
						if b.tlen[e] && !b.tlen[x] {
							b.tlen[x] = true
							changed = true
						}
					}
				case *ssa.UnOp:
					if x.Op != token.MUL {
						if b.tv[x.X] && b.mark(x, b.origin[x.X]) {
							changed = true
						}
						return
					}
					switch a := x.X.(type) {
					case *ssa.IndexAddr:
						if isByteContainer(a.X.Type()) && typeBits(x.Type()) == 8 {
							if b.mark(x, "byte read from a buffer at "+b.w.relFile(instrPos(x))) {
								changed = true
							}
						}
					case *ssa.FieldAddr:
						if _, f, _, ok := fieldOfAddr(a); ok && b.tf[f] && typeBits(x.Type()) > 0 {
							if b.mark(x, "field "+f.Name()+" (set from device data)") {
								changed = true
							}
						}
					case *ssa.Alloc:
						// local cell: union over stores
						for _, ref := range *a.Referrers() {
							if st, ok := ref.(*ssa.Store); ok && st.Addr == ssa.Value(a) {
								if b.tv[st.Val] && b.mark(x, b.origin[st.Val]) {
									changed = true
								}
								if b.tlen[st.Val] && !b.tlen[x] {
									b.tlen[x] = true
									changed = true
								}
							}
						}
					}
				case *ssa.Field:
					if _, f, _, ok := fieldOfAddr(x); ok && b.tf[f] && typeBits(x.Type()) > 0 {
						if b.mark(x, "field "+f.Name()+" (set from device data)") {
							changed = true
						}
					}
				case *ssa.Index:
					if isByteContainer(x.X.Type()) {
						if b.mark(x, "byte read from a buffer at "+b.w.relFile(instrPos(x))) {
							changed = true
						}
					}
				case *ssa.Store:
					if _, f, _, ok := fieldOfAddr(x.Addr); ok && b.tv[x.Val] && !b.tf[f] {
						b.tf[f] = true
						changed = true
					}
				case *ssa.MakeSlice:
					if (b.tv[x.Len] || b.tv[x.Cap]) && !b.tlen[x] {
						b.tlen[x] = true
						changed = true
					}
				case *ssa.Slice:
					if ((x.High != nil && b.tv[x.High]) || (x.Low != nil && b.tv[x.Low]) || b.tlen[x.X]) && !b.tlen[x] {
						b.tlen[x] = true
						changed = true
					}
				}
			})
		}
	}
}

// ---- guards ---------------------------------------------------------------------------------------

// aliases returns values that carry the same magnitude as v: conversions (both ways), other loads of the same
// field of the same base in the same function.
func (b *boundsAn) aliases(v ssa.Value) []ssa.Value {
	out := []ssa.Value{v}
	seen := map[ssa.Value]bool{v: true}
	add := func(x ssa.Value) {
		if x != nil && !seen[x] {
			seen[x] = true
			out = append(out, x)
		}
	}
	for i := 0; i < len(out) && i < 40; i++ {
		x := out[i]
		switch c := x.(type) {
		case *ssa.Convert:
			add(c.X)
		case *ssa.ChangeType:
			add(c.X)
		}
		if refs := x.Referrers(); refs != nil {
			for _, ref := range *refs {
				switch r := ref.(type) {
				case *ssa.Convert:
					add(r)
				case *ssa.ChangeType:
					add(r)
				}
			}
		}
		// other loads of the same field on the same base value
		if ld, ok := x.(*ssa.UnOp); ok && ld.Op == token.MUL {
			if fa, ok := ld.X.(*ssa.FieldAddr); ok {
				fn := ld.Parent()
				allInstrs(fn, func(ins ssa.Instruction) {
					if l2, ok := ins.(*ssa.UnOp); ok && l2.Op == token.MUL {
						if fa2, ok := l2.X.(*ssa.FieldAddr); ok && fa2.Field == fa.Field && sameBase(fa2.X, fa.X) {
							add(l2)
						}
					}
				})
			}
		}
	}
	return out
}

func sameBase(a, b ssa.Value) bool {
	if a == b {
		return true
	}
	// loads of the same local cell / the same field chain
	la, ok1 := a.(*ssa.UnOp)
	lb, ok2 := b.(*ssa.UnOp)
	if ok1 && ok2 && la.Op == token.MUL && lb.Op == token.MUL {
		if la.X == lb.X {
			return true
		}
		fa, ok3 := la.X.(*ssa.FieldAddr)
		fb, ok4 := lb.X.(*ssa.FieldAddr)
		if ok3 && ok4 && fa.Field == fb.Field {
			return sameBase(fa.X, fb.X)
		}
	}
	fa, ok3 := a.(*ssa.FieldAddr)
	fb, ok4 := b.(*ssa.FieldAddr)
	if ok3 && ok4 && fa.Field == fb.Field {
		return sameBase(fa.X, fb.X)
	}
	return false
}

// cmpBoundEdge: for If on `x OP y`, with m on side X (mOnX) or Y, return the successor index on which m is
// bounded above (smallIdx) and the one on which it is known non-zero (nzIdx), -1 if none.
func cmpEdges(bin *ssa.BinOp, mOnX bool, other ssa.Value) (upperIdx, nzIdx int) {
	upperIdx, nzIdx = -1, -1
	op := bin.Op
	if !mOnX {
		// swap sides: y OP m  ==  m OP' y
		switch op {
		case token.LSS:
			op = token.GTR
		case token.LEQ:
			op = token.GEQ
		case token.GTR:
			op = token.LSS
		case token.GEQ:
			op = token.LEQ
		}
	}
	zero := false
	one := false
	if c, ok := constInt(other); ok {
		zero = c == 0
		one = c == 1
	}
	switch op {
	case token.GTR, token.GEQ: // m > K : false edge bounds m
		upperIdx = 1
		if zero && op == token.GTR || one && op == token.GEQ {
			nzIdx = 0
		}
		if zero && op == token.GTR {
			upperIdx = -1 // m > 0 bounds nothing above on the false edge except m <= 0
		}
	case token.LSS, token.LEQ: // m < K : true edge bounds m
		upperIdx = 0
		if one && op == token.LSS || zero && op == token.LEQ {
			nzIdx = 1
		}
	case token.EQL:
		upperIdx = 0
		if zero {
			nzIdx = 1
		} else {
			if c, ok := constInt(other); ok && c != 0 {
				nzIdx = 0
			}
		}
	case token.NEQ:
		upperIdx = 1
		if zero {
			nzIdx = 0
		} else if c, ok := constInt(other); ok && c != 0 {
			nzIdx = 1
		}
	}
	return
}

type guardKind int

const (
	gUpper guardKind = iota
	gNonZero
)

// directGuard: some If in at's function compares an alias of v with an untainted value (or with len of an
// untainted slice) and the bounding edge dominates `at`.
func (b *boundsAn) directGuard(v ssa.Value, at *ssa.BasicBlock, kind guardKind, depth int) bool {
	fn := at.Parent()
	al := b.aliases(v)
	in := map[ssa.Value]bool{}
	for _, a := range al {
		in[a] = true
	}
	for _, blk := range fn.Blocks {
		iff, ok := lastInstr(blk).(*ssa.If)
		if !ok {
			continue
		}
		bin, ok := iff.Cond.(*ssa.BinOp)
		if !ok {
			continue
		}
		for _, mOnX := range []bool{true, false} {
			m, other := bin.X, bin.Y
			if !mOnX {
				m, other = bin.Y, bin.X
			}
			if !in[m] {
				// a sum/product containing the value bounds it too (unsigned monotone): m = v + k, v * k
				if bo, ok := stripConv(m).(*ssa.BinOp); ok && (bo.Op == token.ADD || bo.Op == token.MUL) && (in[stripConv(bo.X)] || in[stripConv(bo.Y)] || in[bo.X] || in[bo.Y]) {
					if kind == gNonZero {
						continue
					}
				} else {
					continue
				}
			}
			if kind == gUpper && b.tv[other] && !isLenCall(other) && (depth > 3 || !b.isGuarded(other, blk, gUpper, depth+2)) {
				continue // compared with another unbounded device value
			}
			up, nz := cmpEdges(bin, mOnX, other)
			idx := up
			if kind == gNonZero {
				idx = nz
			}
			if idx < 0 {
				continue
			}
			if edgeDominates(blk, idx, at) {
				return true
			}
			// the other edge leaves the function/loop iteration (return/continue): then the fall-through is guarded
			oth := blk.Succs[1-idx]
			if blk.Succs[idx].Dominates(at) && len(blk.Succs[idx].Preds) > 1 {
				// joined block: accept if every other predecessor path comes from blocks dominated by the bounding edge
				_ = oth
			}
		}
	}
	return false
}

func (b *boundsAn) widthBelow(v ssa.Value, limitBits int) bool {
	// value bounded by its type (and by the types of what it was converted from)
	bitsOf := func(x ssa.Value) int { return typeBits(x.Type()) }
	v0 := v
	for i := 0; i < 6; i++ {
		if c, ok := v0.(*ssa.Convert); ok {
			if bb := bitsOf(c.X); bb > 0 && bb < bitsOf(c) {
				v0 = c.X
				continue
			}
		}
		break
	}
	bb := bitsOf(v0)
	return bb > 0 && bb <= limitBits
}

// isGuarded: recursive guardedness of v at block `at`.
func (b *boundsAn) isGuarded(v ssa.Value, at *ssa.BasicBlock, kind guardKind, depth int) bool {
	if depth > 8 {
		return false
	}
	if !b.tv[v] {
		if kind == gNonZero {
			if c, ok := constInt(v); ok {
				return c != 0
			}
			// untainted non-constant values are outside the rule's scope
			return true
		}
		return true
	}
	if b.directGuard(v, at, kind, depth) {
		return true
	}
	if kind == gUpper && !b.noWidth && b.widthBelow(v, 16) {
		return true
	}
	switch x := v.(type) {
	case *ssa.Convert:
		return b.isGuarded(x.X, at, kind, depth+1)
	case *ssa.ChangeType:
		return b.isGuarded(x.X, at, kind, depth+1)
	case *ssa.BinOp:
		switch x.Op {
		case token.ADD, token.MUL, token.SHL, token.OR:
			if kind == gUpper {
				return b.isGuarded(x.X, at, kind, depth+1) && b.isGuarded(x.Y, at, kind, depth+1)
			}
			if x.Op == token.ADD || x.Op == token.OR {
				// a + c with c>0 constant is non-zero for unsigned
				if c, ok := constInt(x.Y); ok && c > 0 {
					return true
				}
				if c, ok := constInt(x.X); ok && c > 0 {
					return true
				}
			}
			if x.Op == token.MUL {
				return b.isGuarded(x.X, at, kind, depth+1) && b.isGuarded(x.Y, at, kind, depth+1)
			}
			return false
		case token.SUB, token.QUO, token.REM, token.SHR, token.AND:
			if kind == gUpper {
				// bounded by the left operand (unsigned) / by the mask
				if x.Op == token.AND {
					if _, ok := constInt(x.Y); ok {
						return true
					}
				}
				if x.Op == token.REM {
					return b.isGuarded(x.Y, at, kind, depth+1) || b.isGuarded(x.X, at, kind, depth+1)
				}
				return b.isGuarded(x.X, at, kind, depth+1)
			}
			return false
		}
	case *ssa.Phi:
		if lb, ok := b.loopBound[x]; ok && kind == gUpper {
			return b.isGuarded(lb, x.Block(), kind, depth+1)
		}
		for _, e := range x.Edges {
			if !b.isGuarded(e, x.Block(), kind, depth+1) {
				return false
			}
		}
		return true
	case *ssa.UnOp:
		if x.Op == token.MUL {
			if fa, ok := x.X.(*ssa.FieldAddr); ok {
				if _, f, _, ok := fieldOfAddr(fa); ok {
					return b.fieldValidated(f, kind)
				}
			}
		}
	case *ssa.Field:
		if _, f, _, ok := fieldOfAddr(x); ok {
			return b.fieldValidated(f, kind)
		}
	case *ssa.Parameter:
		// every in-scope call site passes a guarded actual
		fn := x.Parent()
		idx := -1
		for i, p := range fn.Params {
			if p == x {
				idx = i
			}
		}
		node := b.w.CHA().Nodes[fn]
		n := 0
		if node != nil && idx >= 0 {
			for _, e := range node.In {
				if e.Site == nil || !b.scope[e.Caller.Func] {
					continue
				}
				cc := e.Site.Common()
				if cc.IsInvoke() || idx >= len(cc.Args) {
					continue
				}
				n++
				if !b.isGuarded(cc.Args[idx], e.Site.Block(), kind, depth+1) {
					return false
				}
			}
		}
		return n > 0
	case *ssa.Call:
		if bi, ok := x.Call.Value.(*ssa.Builtin); ok && (bi.Name() == "min") && kind == gUpper {
			for _, a := range x.Call.Args {
				if b.isGuarded(a, at, kind, depth+1) {
					return true
				}
			}
		}
		if g := x.Call.StaticCallee(); g != nil && b.scope[g] && g.Blocks != nil {
			for _, ret := range returnsOf(g) {
				if len(ret.Results) == 1 && !b.isGuarded(ret.Results[0], ret.Block(), kind, depth+1) {
					return false
				}
			}
			return true
		}
	case *ssa.Extract:
		if c, ok := x.Tuple.(*ssa.Call); ok {
			if g := c.Call.StaticCallee(); g != nil && b.scope[g] && g.Blocks != nil {
				for _, ret := range returnsOf(g) {
					if x.Index < len(ret.Results) && classifyReturn(ret) != RetError && !b.isGuarded(ret.Results[x.Index], ret.Block(), kind, depth+1) {
						return false
					}
				}
				return true
			}
		}
	}
	return false
}

// fieldValidated: every tainted store to f in scope is guarded at the store.
func (b *boundsAn) fieldValidated(f *types.Var, kind guardKind) bool {
	cache := b.fieldOK
	if kind == gNonZero {
		cache = b.fieldNZ
	}
	if v := cache[f]; v != 0 {
		return v == 1
	}
	cache[f] = 2 // recursion guard: pessimistic
	b.w.buildFieldIndex()
	ok := true
	n := 0
	for _, st := range b.w.fieldStoreIns[f] {
		if !b.scope[st.Parent()] || !b.tv[st.Val] {
			continue
		}
		n++
		if !b.isGuarded(st.Val, st.Block(), kind, 1) {
			// a validation after the store also counts when every success return of the storing function is
			// dominated by the bounding edge of a comparison on the stored value
			if !b.validatedBeforeSuccess(st, kind) {
				ok = false
			}
		}
	}
	if n == 0 {
		ok = false
	}
	if ok {
		cache[f] = 1
	}
	return ok
}

func (b *boundsAn) validatedBeforeSuccess(st *ssa.Store, kind guardKind) bool {
	fn := st.Parent()
	rets := returnsOf(fn)
	any := false
	for _, ret := range rets {
		if classifyReturn(ret) == RetError {
			continue
		}
		any = true
		if !b.directGuard(st.Val, ret.Block(), kind, 0) {
			return false
		}
	}
	return any
}

// ---- sinks -------------------------------------------------------------------------------------------

type boundsSink struct {
	fn      *ssa.Function
	ins     ssa.Instruction
	kind    string // "make", "divide", "slice", "index", "step"
	operand ssa.Value
	need    guardKind
}

func (b *boundsAn) sinks(kinds map[string]bool) []boundsSink {
	var out []boundsSink
	var fns []*ssa.Function
	for f := range b.scope {
		fns = append(fns, f)
	}
	sort.Slice(fns, func(i, j int) bool { return fns[i].String() < fns[j].String() })
	for _, fn := range fns {
		allInstrs(fn, func(ins ssa.Instruction) {
			switch x := ins.(type) {
			case *ssa.MakeSlice:
				if kinds["make"] {
					for _, o := range []ssa.Value{x.Len, x.Cap} {
						if b.tv[o] {
							out = append(out, boundsSink{fn, ins, "make", o, gUpper})
							break
						}
					}
				}
			case *ssa.BinOp:
				if kinds["divide"] && (x.Op == token.QUO || x.Op == token.REM) && b.tv[x.Y] && typeBits(x.Type()) > 0 {
					out = append(out, boundsSink{fn, ins, "divide", x.Y, gNonZero})
				}
			case *ssa.Slice:
				if kinds["slice"] {
					for _, o := range []ssa.Value{x.Low, x.High} {
						if o != nil && b.tv[o] {
							out = append(out, boundsSink{fn, ins, "slice", o, gUpper})
						}
					}
				}
				if kinds["step"] && x.Low != nil && b.tv[x.Low] && x.High == nil && sliceShrinksLoop(x) {
					out = append(out, boundsSink{fn, ins, "step", x.Low, gNonZero})
				}
			case *ssa.IndexAddr:
				if kinds["index"] && b.tv[x.Index] {
					out = append(out, boundsSink{fn, ins, "index", x.Index, gUpper})
				}
			case *ssa.Index:
				if kinds["index"] && b.tv[x.Index] {
					out = append(out, boundsSink{fn, ins, "index", x.Index, gUpper})
				}
			}
		})
	}
	return out
}

// sliceShrinksLoop: s = c[x:] feeds a phi that is (transitively) c itself: the loop advances by x.
func sliceShrinksLoop(s *ssa.Slice) bool {
	for _, ref := range *s.Referrers() {
		if ph, ok := ref.(*ssa.Phi); ok {
			if ph == s.X || phiFeeds(ph, s.X, 0) {
				return true
			}
		}
	}
	return false
}

func phiFeeds(ph *ssa.Phi, target ssa.Value, d int) bool {
	if d > 4 {
		return false
	}
	if ssa.Value(ph) == target {
		return true
	}
	for _, ref := range *ph.Referrers() {
		if p2, ok := ref.(*ssa.Phi); ok && phiFeeds(p2, target, d+1) {
			return true
		}
	}
	return false
}

func (s boundsSink) describe(b *boundsAn) string {
	return fmt.Sprintf("%s on %s (%s)", s.kind, shortVal(s.operand), b.origin[s.operand])
}

// sinkKey gives a position-free construct key: kind + the tainted source fields/decoders of the operand.
func (b *boundsAn) sinkKey(s boundsSink) string {
	p := b.w.prov(s.operand, provOpts{})
	var parts []string
	for _, rt := range p.Roots {
		switch rt.Kind {
		case RField:
			parts = append(parts, "."+rt.Field.Name())
		case RCall:
			if rt.Fn != nil {
				parts = append(parts, rt.Fn.Name()+"()")
			} else if rt.Meth != nil {
				parts = append(parts, rt.Meth.Name()+"()")
			}
		case RParam:
			parts = append(parts, "$"+rt.Param.Name())
		}
	}
	parts = uniq(parts)
	if len(parts) > 4 {
		parts = parts[:4]
	}
	return s.kind + " by " + strings.Join(parts, ",")
}

// isLenCall: v is len(x)/cap(x): the length of memory that already exists is a sound bound.
func isLenCall(v ssa.Value) bool {
	c, ok := stripConv(v).(*ssa.Call)
	if !ok {
		return false
	}
	bi, ok := c.Call.Value.(*ssa.Builtin)
	return ok && (bi.Name() == "len" || bi.Name() == "cap")
}

// isInductionPhi: a phi one of whose incoming values is itself plus/minus something (a loop counter).
func isInductionPhi(ph *ssa.Phi) bool {
	for _, e := range ph.Edges {
		if bo, ok := stripConv(e).(*ssa.BinOp); ok && (bo.Op == token.ADD || bo.Op == token.SUB) {
			if stripConv(bo.X) == ssa.Value(ph) || stripConv(bo.Y) == ssa.Value(ph) {
				return true
			}
		}
	}
	return false
}

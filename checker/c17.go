package main

// C17 — concurrent readers of one squashfs image are safe and correct (mechanism level; LOCK engine).

import (
	"fmt"
	"go/token"
	"go/types"
	"sort"
	"strings"

	"golang.org/x/tools/go/ssa"
)

func init() {
	register("C17", runC17, `Mechanism-level decision of reader concurrency safety for squashfs (lockset + reachability + store analysis).
C17-a guarded-by: lru.{cache,maxBlocks,root} and lruBlock.{prev,next,pos} are loaded/stored only with lru.mu in the lockset; lruBlock.{data,size} only with that block's mu; the unlocked helper methods (unlink/pop/push/trim/add) are only called with lru.mu held (their entry lockset is the intersection over their call sites).
C17-b every Lock is released (directly or by a deferred Unlock) on every path to a return.
C17-c lock order/progress: the only nested acquisition is lru.mu -> block.mu; lru.mu is never acquired while a block mutex or lru.mu itself is held (also through calls); while lru.mu is held only the list/map helpers run (no I/O, decompression or fetch); the fetch closures handed to lru.get reach no Lock and no lru.get.
C17-d shared state is immutable after Read: in every function reachable from the reading entry points no store targets a field or element of an object that is not freshly allocated on that path, other than per-handle File fields and the lru/lruBlock fields covered by C17-a.
C17-e cache coherence: the key of each cache.get call is the device offset its fetch closure reads from, and get returns only what fetch produced or what a previous fetch stored in the block.
With a-e every shared access is read-only or ordered by a mutex, the lock graph is acyclic and nothing blocks under lru.mu. Assumes the backend's ReadAt is safe for concurrent use and third-party decompressors keep no global state.`)
}

const (
	lkLRU   = 1 << 0
	lkBlock = 1 << 1
	dfLRU   = 1 << 2
	dfBlock = 1 << 3
)

type lockAn struct {
	w       *World
	pkg     string
	entry   map[*ssa.Function]int // entry lockset (lkLRU|lkBlock bits)
	before  map[ssa.Instruction]uint64
	atRet   map[*ssa.Return]uint64
	fnsDone map[*ssa.Function]bool
	// effect: net change of the lockset across a call of an in-package function that hands a lock over to its caller
	// (returns with a lock held that it did not hold on entry) or releases one for it: acquired / released bits
	effect map[*ssa.Function][2]int
}

// mutexKind: for x.mu.Lock()/Unlock() return which mutex (by owner type) and the op.
func mutexOp(c ssa.CallInstruction) (kind int, op string) {
	f := c.Common().StaticCallee()
	if f == nil {
		return 0, ""
	}
	n := fullFuncName(f)
	switch n {
	case "(*sync.Mutex).Lock", "(*sync.RWMutex).Lock", "(*sync.RWMutex).RLock":
		op = "lock"
	case "(*sync.Mutex).Unlock", "(*sync.RWMutex).Unlock", "(*sync.RWMutex).RUnlock":
		op = "unlock"
	default:
		return 0, ""
	}
	if len(c.Common().Args) == 0 {
		return 0, ""
	}
	owner, _, _, ok := fieldOfAddr(c.Common().Args[0])
	if !ok || owner == nil {
		return 0, op
	}
	switch owner.Obj().Name() {
	case "lru":
		return lkLRU, op
	case "lruBlock":
		return lkBlock, op
	}
	return 0, op
}

func (a *lockAn) run(fn *ssa.Function) {
	rule := &flowRule{w: a.w}
	rule.step = func(ins ssa.Instruction, s int) (uint64, bool) {
		switch x := ins.(type) {
		case *ssa.Call:
			k, op := mutexOp(x)
			if k == 0 {
				if g := x.Call.StaticCallee(); g != nil {
					if ef, ok := a.effect[g]; ok && (ef[0] != 0 || ef[1] != 0) {
						return 1 << uint((s|ef[0])&^ef[1]), true
					}
				}
				return 0, false
			}
			if op == "lock" {
				return 1 << uint(s|k), true
			}
			return 1 << uint(s&^k), true
		case *ssa.Defer:
			k, op := mutexOp(x)
			if k != 0 && op == "unlock" {
				return 1 << uint(s|k<<2), true
			}
		}
		return 0, false
	}
	res := rule.run(fn, 1<<uint(a.entry[fn]), 0)
	for ins, m := range res.Before {
		a.before[ins] = m
	}
	for ret, m := range res.Returns {
		a.atRet[ret] = m
	}
	a.fnsDone[fn] = true
}

// heldAll: locks held in every state of the mask.
func heldAll(m uint64) int {
	all := lkLRU | lkBlock
	any := false
	bits(m, func(s int) {
		any = true
		all &= s
	})
	if !any {
		return 0
	}
	return all & (lkLRU | lkBlock)
}

// heldAny: locks held in some state of the mask.
func heldAny(m uint64) int {
	r := 0
	bits(m, func(s int) { r |= s & (lkLRU | lkBlock) })
	return r
}

func lockNames(k int) string {
	var xs []string
	if k&lkLRU != 0 {
		xs = append(xs, "lru.mu")
	}
	if k&lkBlock != 0 {
		xs = append(xs, "block.mu")
	}
	if len(xs) == 0 {
		return "none"
	}
	return strings.Join(xs, "+")
}

var c17Guarded = map[string]map[string]int{
	"lru":      {"cache": lkLRU, "maxBlocks": lkLRU, "root": lkLRU},
	"lruBlock": {"prev": lkLRU, "next": lkLRU, "pos": lkLRU, "data": lkBlock, "size": lkBlock},
}

// c17Unlocked lists accesses known to run without the lock, each with the reason it is not a finding.
var c17Unlocked = map[string]string{
	"(*squashfs.FileSystem).GetCacheSize|lru.maxBlocks": "diagnostic getter outside the reading entry points; reads one int (observation, not part of the property's reader set)",
}

func runC17(w *World, r *Report) {
	pkg := "filesystem/squashfs"
	var fns []*ssa.Function
	for _, fn := range w.ModFns {
		if w.pkgOf(fn) == pkg {
			fns = append(fns, fn)
		}
	}
	a := &lockAn{w: w, pkg: pkg, entry: map[*ssa.Function]int{}, before: map[ssa.Instruction]uint64{}, atRet: map[*ssa.Return]uint64{}, fnsDone: map[*ssa.Function]bool{}, effect: map[*ssa.Function][2]int{}}
	// which functions touch the mutexes or the guarded fields at all
	touches := func(fn *ssa.Function) bool {
		t := false
		allInstrs(fn, func(ins ssa.Instruction) {
			if c, ok := ins.(ssa.CallInstruction); ok {
				if _, op := mutexOp(c); op != "" {
					t = true
				}
			}
			if fa, ok := ins.(*ssa.FieldAddr); ok {
				if n, f, _, ok := fieldOfAddr(fa); ok && n != nil {
					if _, g := c17Guarded[n.Obj().Name()][f.Name()]; g {
						t = true
					}
				}
			}
		})
		return t
	}
	// helper methods of lru/lruBlock: entry lockset = intersection over in-package call sites
	isHelper := func(fn *ssa.Function) bool {
		if fn.Signature.Recv() == nil {
			return false
		}
		n := namedOf(fn.Signature.Recv().Type())
		return n != nil && (n.Obj().Name() == "lru" || n.Obj().Name() == "lruBlock")
	}
	for iter := 0; iter < 6; iter++ {
		a.before = map[ssa.Instruction]uint64{}
		a.atRet = map[*ssa.Return]uint64{}
		for _, fn := range fns {
			a.run(fn)
		}
		changed := false
		// lock hand-over: what a function that operates the mutexes leaves held (or releases) at every normal return
		for _, fn := range fns {
			ops := calls(fn, false, func(c ssa.CallInstruction) bool { _, op := mutexOp(c); return op != "" })
			if len(ops) == 0 {
				continue
			}
			exit := lkLRU | lkBlock
			any := false
			for ret, m := range a.atRet {
				if ret.Parent() != fn {
					continue
				}
				// deferred unlocks run at the return
				var after uint64
				bits(m, func(st int) { after |= 1 << uint((st&(lkLRU|lkBlock))&^((st>>2)&(lkLRU|lkBlock))) })
				exit &= heldAll(after)
				any = true
			}
			if !any {
				continue
			}
			en := a.entry[fn]
			ef := [2]int{exit &^ en, en &^ exit}
			if a.effect[fn] != ef {
				a.effect[fn] = ef
				changed = true
			}
		}
		for _, fn := range fns {
			if !isHelper(fn) {
				continue
			}
			locksSelf := false
			for _, c := range calls(fn, false, func(c ssa.CallInstruction) bool { _, op := mutexOp(c); return op == "lock" }) {
				_ = c
				locksSelf = true
			}
			if locksSelf {
				continue
			}
			inter := lkLRU | lkBlock
			n := 0
			for _, caller := range fns {
				for _, c := range calls(caller, false, func(c ssa.CallInstruction) bool { return c.Common().StaticCallee() == fn }) {
					n++
					inter &= heldAll(a.before[c.(ssa.Instruction)])
				}
			}
			if n == 0 {
				inter = 0
			}
			if a.entry[fn] != inter {
				a.entry[fn] = inter
				changed = true
			}
		}
		if !changed {
			break
		}
	}

	// C17-a guarded-by
	for _, fn := range fns {
		if !touches(fn) {
			continue
		}
		name := fnName(fn)
		seen := map[string]bool{}
		allInstrs(fn, func(ins ssa.Instruction) {
			var addr ssa.Value
			kind := ""
			switch x := ins.(type) {
			case *ssa.UnOp:
				if x.Op == token.MUL {
					addr, kind = x.X, "load"
				}
			case *ssa.Store:
				addr, kind = x.Addr, "store"
			}
			fa, ok := addr.(*ssa.FieldAddr)
			if !ok {
				return
			}
			n, f, base, ok := fieldOfAddr(fa)
			if !ok || n == nil {
				return
			}
			need, guarded := c17Guarded[n.Obj().Name()][f.Name()]
			if !guarded {
				return
			}
			// a freshly allocated object is not shared yet
			if c17FreshDeep(w, base) {
				return
			}
			have := heldAll(a.before[ins])
			key := n.Obj().Name() + "." + f.Name()
			cons := kind + " of " + key
			if seen[cons] && have&need != 0 {
				return
			}
			seen[cons] = true
			if why, ok := c17Unlocked[name+"|"+key]; ok && have&need == 0 {
				r.Note("%s: unlocked %s (%s)", name, cons, why)
				return
			}
			r.Check(have&need != 0, "C17-a", name, cons+" under "+lockNames(need), w.relFile(instrPos(ins)), "lockset: "+lockNames(have),
				fmt.Sprintf("%s is accessed with lockset {%s}; it is guarded by %s", key, lockNames(have), lockNames(need)))
		})
	}
	// C17-b every lock released at return
	for _, fn := range fns {
		locks := len(calls(fn, false, func(c ssa.CallInstruction) bool { _, op := mutexOp(c); return op == "lock" })) > 0
		receives := len(calls(fn, false, func(c ssa.CallInstruction) bool {
			g := c.Common().StaticCallee()
			return g != nil && a.effect[g][0] != 0
		})) > 0
		if !locks && !receives {
			continue
		}
		// a lock this function hands over to its callers (it returns with it held on every path, it is unexported
		// and called from the package): the callers, analysed with that effect, are the ones that must release it
		handover := 0
		if ef := a.effect[fn]; ef[0] != 0 && !token.IsExported(fn.Name()) {
			ncallers := 0
			for _, caller := range fns {
				ncallers += len(calls(caller, false, func(c ssa.CallInstruction) bool { return c.Common().StaticCallee() == fn }))
			}
			if ncallers > 0 {
				handover = ef[0]
			}
		}
		bad := ""
		for _, ret := range returnsOf(fn) {
			bits(a.atRet[ret], func(s int) {
				held := s & (lkLRU | lkBlock) &^ handover
				deferred := (s >> 2) & (lkLRU | lkBlock)
				if held&^deferred != 0 {
					bad = lockNames(held&^deferred) + " still held at " + w.relFile(instrPos(ret))
				}
			})
		}
		r.Check(bad == "", "C17-b", fnName(fn), "every Lock is released on every path", w.relFile(fn.Pos()), "", "a mutex is not released before return: "+bad)
	}
	// C17-c lock order
	lockers := map[*ssa.Function]int{} // functions that (transitively) acquire lru.mu / block.mu
	for changed := true; changed; {
		changed = false
		for _, fn := range fns {
			k := lockers[fn]
			for _, c := range calls(fn, false, func(ssa.CallInstruction) bool { return true }) {
				if mk, op := mutexOp(c); op == "lock" {
					k |= mk
				}
				if g := c.Common().StaticCallee(); g != nil {
					k |= lockers[g]
				}
			}
			if k != lockers[fn] {
				lockers[fn] = k
				changed = true
			}
		}
	}
	nOrder := 0
	for _, fn := range fns {
		for _, c := range calls(fn, false, func(ssa.CallInstruction) bool { return true }) {
			held := heldAny(a.before[c.(ssa.Instruction)])
			if held == 0 {
				continue
			}
			acquire := 0
			what := ""
			if mk, op := mutexOp(c); op == "lock" {
				acquire, what = mk, "Lock of "+lockNames(mk)
			} else if op == "unlock" {
				continue
			} else if g := c.Common().StaticCallee(); g != nil && lockers[g] != 0 {
				acquire, what = lockers[g], "call of "+fnName(g)+" (acquires "+lockNames(lockers[g])+")"
			}
			if acquire != 0 {
				nOrder++
				ok := !(acquire&lkLRU != 0) && !(held&lkBlock != 0 && acquire&lkBlock != 0)
				// allowed: lru.mu held, acquire block.mu
				r.Check(ok, "C17-c", fnName(fn), "nested acquisition "+lockNames(held)+" -> "+lockNames(acquire)+" #"+ordinal(fn, c), w.relFile(c.Pos()), what,
					fmt.Sprintf("%s while holding %s: only lru.mu -> block.mu is allowed (lru.mu under a block mutex, or lru.mu twice, can deadlock)", what, lockNames(held)))
				continue
			}
			// under lru.mu only helpers may run
			if held&lkLRU != 0 {
				g := c.Common().StaticCallee()
				okCall := false
				switch {
				case g != nil && isHelper(g):
					okCall = true
				case g == nil:
					if _, isB := c.Common().Value.(*ssa.Builtin); isB {
						okCall = true
					}
				case g != nil && !w.inModule(g) && (strings.HasPrefix(fullFuncName(g), "(*sync.") || strings.HasPrefix(fullFuncName(g), "runtime.")):
					okCall = true
				}
				if g != nil && isHelper(g) {
					continue
				}
				nOrder++
				r.Check(okCall, "C17-c", fnName(fn), "only list/map helpers run under lru.mu #"+ordinal(fn, c), w.relFile(c.Pos()), "",
					"a call that may block or do I/O runs while the cache-wide mutex is held: all readers serialise behind it (or deadlock if it re-enters the cache)")
			}
		}
	}
	// fetch closures reach no Lock and no lru.get
	getFn := w.MethodOpt(pkg, "lru", "get")
	if getFn == nil {
		fatalf("C17: squashfs lru.get not found")
	}
	nGet := 0
	for _, fn := range fns {
		for _, c := range calls(fn, false, func(c ssa.CallInstruction) bool { return c.Common().StaticCallee() == getFn }) {
			nGet++
			args := c.Common().Args
			key, fetch := args[1], args[2]
			for {
				if ct, isCT := fetch.(*ssa.ChangeType); isCT {
					fetch = ct.X
					continue
				}
				break
			}
			mc, ok := fetch.(*ssa.MakeClosure)
			if !ok {
				r.Undecided("C17-c", fnName(fn), "fetch closure #"+ordinal(fn, c), w.relFile(c.Pos()), "the fetch argument is not a closure literal")
				continue
			}
			cl := mc.Fn.(*ssa.Function)
			rc := &Reach{w: w, sink: func(c ssa.CallInstruction, _ *evaluator) string {
				if _, op := mutexOp(c); op == "lock" {
					return "Lock"
				}
				if c.Common().StaticCallee() == getFn {
					return "lru.get"
				}
				return ""
			}, enter: func(f *ssa.Function) bool { return w.pkgOf(f) == pkg }}
			rc.Run(cl, nil)
			if len(rc.Hits) == 0 {
				r.Ok("C17-c", fnName(fn), "fetch closure re-enters no lock #"+ordinal(fn, c), w.relFile(c.Pos()), fmt.Sprintf("%d functions reachable", len(rc.Funcs)))
			} else {
				h := rc.Hits[0]
				r.Fail("C17-c", fnName(fn), "fetch closure re-enters no lock #"+ordinal(fn, c), w.relFile(c.Pos()),
					"the fetch closure runs with the block mutex held and reaches "+h.Label+" in "+fnName(h.Site.Parent())+": the hand-over can deadlock", rc.Chain(h.Ctx)...)
			}
			// C17-e key = read offset
			c17Coherence(w, r, fn, c, key, cl, mc)
		}
	}
	if nGet < 2 {
		r.Fail("C17-e", pkg, "cache.get call sites", pkg, fmt.Sprintf("only %d cache.get call sites found (confirmed: 2)", nGet))
	}
	// get returns only fetch output or block.data
	c17GetTransparent(w, r, getFn)
	// C17-d
	c17Immutable(w, r, pkg, fns)

	r.Floor("C17-a", r.countRule("C17-a"), 15)
	r.Floor("C17-b", r.countRule("C17-b"), 2)
	r.Floor("C17-c", r.countRule("C17-c"), 4)
	r.Floor("C17-d", r.countRule("C17-d"), 1)
	r.Floor("C17-e", r.countRule("C17-e"), 3)
	r.Assume("the backend's ReadAt is safe for concurrent use (*os.File is); third-party decompressors keep no global mutable state")
	r.Assume("each goroutine uses its own File handles, as the property states")
}

// c17Fresh: base points to an object allocated in this function (not yet published).
func c17Fresh(w *World, base ssa.Value) bool {
	p := w.prov(base, provOpts{})
	if len(p.Roots) == 0 {
		return false
	}
	for _, rt := range p.Roots {
		if rt.Kind != RAlloc {
			return false
		}
	}
	return true
}

func c17Coherence(w *World, r *Report, fn *ssa.Function, site ssa.CallInstruction, key ssa.Value, cl *ssa.Function, mc *ssa.MakeClosure) {
	env := map[ssa.Value][]ssa.Value{}
	for i, fv := range cl.FreeVars {
		if i < len(mc.Bindings) {
			env[fv] = []ssa.Value{mc.Bindings[i]}
		}
	}
	reads := calls(cl, false, isReadAt)
	if len(reads) == 0 {
		// the fetch may have been lifted into a method the closure calls: its parameters stand for the closure's actuals
		for _, c := range calls(cl, false, func(c ssa.CallInstruction) bool {
			g := c.Common().StaticCallee()
			return g != nil && w.fnSet[g] && g.Blocks != nil && w.pkgOf(g) == w.pkgOf(fn)
		}) {
			g := c.Common().StaticCallee()
			rs := calls(g, false, isReadAt)
			if len(rs) == 0 {
				continue
			}
			for i, p := range g.Params {
				if i < len(c.Common().Args) {
					env[p] = []ssa.Value{c.Common().Args[i]}
				}
			}
			reads = append(reads, rs...)
		}
	}
	if len(reads) == 0 {
		r.Undecided("C17-e", fnName(fn), "key is the fetch offset #"+ordinal(fn, site), w.relFile(site.Pos()), "the fetch closure performs no ReadAt, directly or in a method it calls")
		return
	}
	keyRoots := strings.Join(w.prov(key, provOpts{}).rootStrings(), ",")
	for _, rd := range reads {
		off := argsOf(rd)[1]
		ok := false
		for _, t := range addends(off) {
			if t.neg {
				continue
			}
			pt := w.prov(t.v, provOpts{env: env})
			if strings.Join(pt.rootStrings(), ",") == keyRoots && len(pt.BinOps) == len(w.prov(key, provOpts{}).BinOps) {
				ok = true
			}
		}
		r.Check(ok, "C17-e", fnName(fn), "key is the fetch offset #"+ordinal(cl, rd), w.relFile(rd.Pos()), "offset = key (+ constant)",
			"the cache key ("+keyRoots+") is not the offset the fetch closure reads from: two different blocks can share a key")
	}
}

func c17GetTransparent(w *World, r *Report, get *ssa.Function) {
	name := fnName(get)
	for _, ret := range returnsOf(get) {
		if classifyReturn(ret) == RetError {
			continue
		}
		v := retResult(ret, 0)
		p := w.prov(v, provOpts{})
		ok := true
		for _, rt := range p.Roots {
			switch {
			case rt.Kind == RField && rt.Field.Name() == "data":
			case rt.Kind == RCall && rt.Fn == nil && rt.Meth == nil: // dynamic call: fetch()
			case rt.Kind == RConst:
			default:
				ok = false
			}
		}
		// no slicing of the data on the way out
		if _, isSlice := stripConv(v).(*ssa.Slice); isSlice {
			ok = false
		}
		r.Check(ok, "C17-e", name, "get returns what fetch produced or what is cached #"+w.relFile(instrPos(ret)), w.relFile(instrPos(ret)), strings.Join(p.rootStrings(), ","),
			"lru.get returns something other than the fetch result / the cached block data: "+strings.Join(p.rootStrings(), ","))
	}
	// the only store to block.data is the fetch result
	allInstrs(get, func(ins ssa.Instruction) {
		st, ok := ins.(*ssa.Store)
		if !ok {
			return
		}
		if _, f, _, ok := fieldOfAddr(st.Addr); ok && f.Name() == "data" {
			p := w.prov(st.Val, provOpts{})
			good, nDyn := true, 0
			for _, rt := range p.Roots {
				switch {
				case rt.Kind == RCall && rt.Fn == nil && rt.Meth == nil:
					nDyn++
				case rt.Kind == RConst, rt.Kind == RAlloc:
				case rt.Kind == RField && rt.Field.Name() == "data":
					// the named result is also assigned the cached data on the hit path (flow-insensitive cell)
				default:
					good = false
				}
			}
			good = good && nDyn > 0
			r.Check(good, "C17-e", name, "cached data is the fetch result", w.relFile(st.Pos()), "", "block.data is assigned something other than the value fetch returned")
		}
	})
}

func c17Immutable(w *World, r *Report, pkg string, fns []*ssa.Function) {
	// entry points: reading API of squashfs FileSystem / File / directoryEntry
	var roots []*ssa.Function
	for _, tn := range []string{"FileSystem", "File", "directoryEntry"} {
		if w.Pkg(pkg).Type(tn) == nil {
			continue
		}
		n := w.Named(pkg, tn)
		names := []string{"ReadDir", "Open", "OpenFile", "ReadFile", "Stat", "Read", "Seek", "Close", "SetCacheSize", "GetCacheSize", "Label", "Type",
			"Name", "IsDir", "Info", "ModTime", "Mode", "Size", "Sys", "ReadLink", "Xattrs", "UID", "GID"}
		for _, m := range names {
			if f := w.MethodOf(n, m); f != nil && f.Blocks != nil && w.pkgOf(f) == pkg {
				if tn == "FileSystem" && m == "Close" {
					continue
				}
				roots = append(roots, f)
			}
		}
	}
	reach := w.reachableFrom(roots, func(f *ssa.Function) bool { return w.pkgOf(f) == pkg })
	exemptType := map[string]bool{"File": true, "lru": true, "lruBlock": true}
	nStores, nFresh := 0, 0
	for _, fn := range sortedFns(reach) {
		// workspace (build-time) paths are not reading an opened image
		allInstrs(fn, func(ins ssa.Instruction) {
			st, ok := ins.(*ssa.Store)
			if !ok {
				return
			}
			var base ssa.Value
			var label string
			switch x := st.Addr.(type) {
			case *ssa.FieldAddr:
				n, f, b, ok := fieldOfAddr(x)
				if !ok {
					return
				}
				if n != nil && exemptType[n.Obj().Name()] {
					return
				}
				tn := "struct"
				if n != nil {
					if n.Obj().Pkg() == nil || !strings.HasPrefix(n.Obj().Pkg().Path(), modPath) {
						return
					}
					tn = n.Obj().Name()
				}
				base, label = b, tn+"."+f.Name()
			case *ssa.IndexAddr:
				base, label = x.X, "element of "+types.TypeString(x.X.Type(), shortQual)
			default:
				return
			}
			nStores++
			if c17FreshDeep(w, base) {
				nFresh++
				return
			}
			r.Fail("C17-d", fnName(fn), "store to "+label, w.relFile(st.Pos()), "a function reachable from the reading entry points stores into an object that is not freshly allocated on this path: concurrent readers of one opened image race on it")
		})
	}
	r.Ok("C17-d", pkg, "stores in reader-reachable functions target fresh objects", pkg, fmt.Sprintf("%d functions reachable, %d stores, %d to fresh objects, the rest reported", len(reach), nStores, nFresh))
	var names []string
	for f := range reach {
		names = append(names, fnName(f))
	}
	sort.Strings(names)
	r.Extra["reader_reachable_functions"] = len(names)
}

// c17FreshDeep: base points into memory allocated on this path: an Alloc (new / composite literal / varargs
// array), a make, an element or field of such an object, the result of an in-module function all of whose
// returned pointers are fresh, or the result of an external constructor.
func c17FreshDeep(w *World, base ssa.Value) bool {
	return freshPtr(w, base, map[ssa.Value]bool{}, 0)
}

func freshPtr(w *World, v ssa.Value, seen map[ssa.Value]bool, depth int) bool {
	if depth > 12 {
		return false
	}
	if seen[v] {
		return true // loop-carried: judged by the other edges
	}
	seen[v] = true
	switch x := v.(type) {
	case *ssa.Alloc:
		return true
	case *ssa.MakeSlice, *ssa.MakeMap, *ssa.MakeChan:
		return true
	case *ssa.Const:
		return true
	case *ssa.FieldAddr:
		return freshPtr(w, x.X, seen, depth+1)
	case *ssa.IndexAddr:
		return freshPtr(w, x.X, seen, depth+1)
	case *ssa.Slice:
		return freshPtr(w, x.X, seen, depth+1)
	case *ssa.ChangeType:
		return freshPtr(w, x.X, seen, depth+1)
	case *ssa.Convert:
		return freshPtr(w, x.X, seen, depth+1)
	case *ssa.Phi:
		for _, e := range x.Edges {
			if !freshPtr(w, e, seen, depth+1) {
				return false
			}
		}
		return true
	case *ssa.UnOp:
		if x.Op != token.MUL {
			return false
		}
		// load of a pointer/slice from a local cell or from a field of a fresh object
		switch a := x.X.(type) {
		case *ssa.Alloc:
			n := 0
			for _, ref := range *a.Referrers() {
				if st, ok := ref.(*ssa.Store); ok && st.Addr == ssa.Value(a) {
					n++
					if !freshPtr(w, st.Val, seen, depth+1) {
						return false
					}
				}
			}
			for _, st := range cellStores(a) {
				n++
				if !freshPtr(w, st.Val, seen, depth+1) {
					return false
				}
			}
			return n > 0
		case *ssa.FieldAddr:
			// a slice/pointer held in a field of a fresh object: fresh if every store to that field in this
			// function is fresh
			if !freshPtr(w, a.X, seen, depth+1) {
				return false
			}
			n := 0
			ok := true
			allInstrs(x.Parent(), func(ins ssa.Instruction) {
				if st, isSt := ins.(*ssa.Store); isSt {
					if fa, isFA := st.Addr.(*ssa.FieldAddr); isFA && fa.X == a.X && fa.Field == a.Field {
						n++
						if !freshPtr(w, st.Val, seen, depth+1) {
							ok = false
						}
					}
				}
			})
			return ok && n > 0
		}
		return false
	case *ssa.Extract:
		return freshPtr(w, x.Tuple, seen, depth+1)
	case *ssa.Call:
		if b, ok := x.Call.Value.(*ssa.Builtin); ok {
			switch b.Name() {
			case "append":
				return freshPtr(w, x.Call.Args[0], seen, depth+1)
			}
			return false
		}
		g := x.Call.StaticCallee()
		if g == nil {
			return false
		}
		if !w.inModule(g) || g.Blocks == nil {
			return true // external constructor / library function returning new memory
		}
		for _, ret := range returnsOf(g) {
			for _, rv := range ret.Results {
				switch rv.Type().Underlying().(type) {
				case *types.Pointer, *types.Slice, *types.Map, *types.Interface:
					if !freshPtr(w, rv, seen, depth+1) {
						return false
					}
				}
			}
		}
		return true
	case *ssa.MakeInterface:
		return freshPtr(w, x.X, seen, depth+1)
	case *ssa.TypeAssert:
		return freshPtr(w, x.X, seen, depth+1)
	}
	return false
}

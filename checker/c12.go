package main

// C12 — existing filesystems and tables are recognised as what they are (structural clauses).

import (
	"fmt"
	"go/constant"
	"go/token"
	"go/types"
	"sort"
	"strings"

	"golang.org/x/tools/go/ssa"
)

func init() {
	register("C12", runC12, `Structural clauses of recognition, decided statically.
C12-a in partition.Read the GPT reader is consulted first, its table is returned on its nil-error edge, and the MBR reader is only reached on the GPT error edge (a GPT disk carries a protective MBR the MBR reader accepts).
C12-b in Disk.GetFilesystem every implementer of filesystem.FileSystem is probed through its package Read, each probe's filesystem is returned exactly on that probe's nil-error edge, and the fall-through returns an error.
C12-c every filesystem reader rejects on its format's magic: a comparison with the format's signature constant (0x55AA, "CD001", 0x73717368, 0xEF53) lies in a function reachable from the package Read, its mismatch edge returns an error, and that error is propagated by every caller up to Read.
C12-d FAT12/FAT16 thresholds: Create and Read of one package reject the same cluster-count intervals, and the FAT12 and FAT16 acceptance intervals are adjacent and disjoint (4085, 65525).
C12-e writer magic = reader magic at the same offset (byte-layout extraction, see codec rules).
C12-f recognition is position-independent: in the six filesystem readers no rejection (an error return) is decided by a condition that depends on the start offset of the range (other than a sign test of start itself) - the property quantifies over whole disk and any partition.
C12-g stale signatures: in Disk.CreateFilesystem every feasible path to one of the six filesystem Create calls passes a device write of zero bytes at the start of the target range that covers the places where the supported formats keep what identifies them (FAT boot sector and squashfs superblock at 0, ext4 superblock at 1024..2048, first ISO9660 volume descriptor at 32768..34816: at least 34816 bytes, or the whole range if it is smaller). The Create functions write only their own structures, so without it the previous filesystem's signature survives and GetFilesystem reports the old type (the property quantifies over stale bytes of a previous different filesystem).
C12-h a table of another kind written over a GPT disk must not read back as the old GPT (partition.Read looks for a GPT first; the property quantifies over "rewrite of a table over an existing different table"): every success return of Disk.Partition lies behind a call of a function that reads at the places where gpt.Read looks for a header (an offset derived from the logical block size, and one derived from the disk size), compares what it read with the GPT signature "EFI PART" and overwrites it through the writable file.
Not covered: equality of the cluster-count formulas in Create and Read; whether fat32.Read rejects every FAT16 image.`)
}

func runC12(w *World, r *Report) {
	c12TableOrder(w, r)
	c12Probes(w, r)
	c12Magic(w, r)
	c12Thresholds(w, r)
	c12PositionIndependent(w, r)
	c12EraseBeforeCreate(w, r)
	c12StaleGPT(w, r)
	r.Floor("C12-h", r.countRule("C12-h"), 1)
	r.Floor("C12-g", r.countRule("C12-g"), 6)
	r.Floor("C12-f", r.countRule("C12-f"), 6)
	r.Floor("C12-a", r.countRule("C12-a"), 3)
	r.Floor("C12-b", r.countRule("C12-b"), 13)
	r.Floor("C12-c", r.countRule("C12-c"), 10)
	r.Floor("C12-d", r.countRule("C12-d"), 3)
}

// errNilEdge: for call c (returning (..., error)) tested with `err == nil`/`err != nil` in fn, return the If
// and the successor index of the nil-error edge.
func errNilEdge(fn *ssa.Function, c *ssa.Call) (*ssa.If, int) {
	for _, b := range fn.Blocks {
		iff, ok := lastInstr(b).(*ssa.If)
		if !ok {
			continue
		}
		x, trueNonNil, ok := nilTest(iff.Cond)
		if !ok || errSourceCall(x) != c {
			continue
		}
		if trueNonNil {
			return iff, 1
		}
		return iff, 0
	}
	return nil, 0
}

func c12TableOrder(w *World, r *Report) {
	pr := w.Func("partition", "Read")
	name := fnName(pr)
	gptRead, mbrRead := w.Func("partition/gpt", "Read"), w.Func("partition/mbr", "Read")
	var gc, mc *ssa.Call
	for _, c := range calls(pr, false, func(ssa.CallInstruction) bool { return true }) {
		switch c.Common().StaticCallee() {
		case gptRead:
			gc, _ = c.(*ssa.Call)
		case mbrRead:
			mc, _ = c.(*ssa.Call)
		}
	}
	if gc == nil || mc == nil {
		c12ProbeTable(w, r, pr, gptRead, mbrRead)
		return
	}
	giff, gnil := errNilEdge(pr, gc)
	if giff == nil {
		r.Fail("C12-a", name, "GPT result tested", w.relFile(gc.Pos()), "the error of gpt.Read is not tested")
		return
	}
	r.Check(edgeDominates(giff.Block(), 1-gnil, mc.Block()), "C12-a", name, "MBR reader only on the GPT error edge", w.relFile(mc.Pos()), "",
		"mbr.Read is consulted on a path where gpt.Read has not failed: a GPT disk is reported through its protective MBR")
	// the gpt table is returned on the nil edge
	okRet := false
	for _, ret := range returnsOf(pr) {
		if classifyReturn(ret) == RetError || !edgeDominates(giff.Block(), gnil, ret.Block()) {
			continue
		}
		p := w.prov(ret.Results[0], provOpts{})
		for _, rt := range p.Roots {
			if rt.Kind == RCall && rt.Call == ssa.CallInstruction(gc) {
				okRet = true
			}
		}
	}
	r.Check(okRet, "C12-a", name, "GPT table returned on its nil-error edge", w.relFile(giff.Pos()), "", "the table gpt.Read produced is not what partition.Read returns when gpt.Read succeeds")
	// mbr likewise, and the fall-through is an error
	miff, mnil := errNilEdge(pr, mc)
	okM := false
	if miff != nil {
		for _, ret := range returnsOf(pr) {
			if classifyReturn(ret) != RetError && edgeDominates(miff.Block(), mnil, ret.Block()) {
				for _, rt := range w.prov(ret.Results[0], provOpts{}).Roots {
					if rt.Kind == RCall && rt.Call == ssa.CallInstruction(mc) {
						okM = true
					}
				}
			}
		}
	}
	r.Check(okM, "C12-a", name, "MBR table returned on its nil-error edge", w.relFile(mc.Pos()), "", "the table mbr.Read produced is not returned on its success edge")
	for _, ret := range returnsOf(pr) {
		if classifyReturn(ret) == RetError {
			continue
		}
		dom := edgeDominates(giff.Block(), gnil, ret.Block()) || (miff != nil && edgeDominates(miff.Block(), mnil, ret.Block()))
		r.Check(dom, "C12-a", name, "success only from a reader's success", w.relFile(instrPos(ret)), "", "partition.Read can succeed although neither reader succeeded")
	}
}

// c12ProbeTable: partition.Read written as an ordered table of probe closures and a loop. Decided when the shape is
// exactly: closures that each return the results of one reader, stored at constant indices of one slice literal; a
// range loop that calls the element and returns its table on the nil-error edge; every return after the loop an error.
func c12ProbeTable(w *World, r *Report, pr, gptRead, mbrRead *ssa.Function) {
	name := fnName(pr)
	readerOf := func(cl *ssa.Function) *ssa.Function {
		var found *ssa.Function
		n := 0
		for _, c := range calls(cl, false, func(ssa.CallInstruction) bool { return true }) {
			if g := c.Common().StaticCallee(); g == gptRead || g == mbrRead {
				found = g
				n++
			}
		}
		if n != 1 {
			return nil
		}
		return found
	}
	idx := map[*ssa.Function]int64{}
	var arr ssa.Value
	oneArray := true
	allInstrs(pr, func(ins ssa.Instruction) {
		st, ok := ins.(*ssa.Store)
		if !ok {
			return
		}
		mc, ok := st.Val.(*ssa.MakeClosure)
		if !ok {
			return
		}
		cl, _ := mc.Fn.(*ssa.Function)
		rd := readerOf(cl)
		ia, isIA := st.Addr.(*ssa.IndexAddr)
		if rd == nil || !isIA {
			return
		}
		k, isC := constInt(ia.Index)
		if !isC {
			return
		}
		if arr != nil && arr != ia.X {
			oneArray = false
		}
		arr = ia.X
		idx[rd] = k
	})
	gi, gok := idx[gptRead]
	mi, mok := idx[mbrRead]
	if !gok || !mok {
		reach := w.reachableFrom([]*ssa.Function{pr}, func(f *ssa.Function) bool { return true })
		_, rg := reach[gptRead]
		_, rm := reach[mbrRead]
		if !rg || !rm {
			// closures are not in the static call graph: look into the anonymous functions
			for _, cl := range pr.AnonFuncs {
				switch readerOf(cl) {
				case gptRead:
					rg = true
				case mbrRead:
					rm = true
				}
			}
		}
		if rg && rm {
			r.Undecided("C12-a", name, "both table readers consulted", w.relFile(pr.Pos()), "partition.Read reaches gpt.Read and mbr.Read, but not by direct calls nor through an ordered table of probe closures: the probe order is not decided by this analysis")
		} else {
			r.Fail("C12-a", name, "both table readers consulted", w.relFile(pr.Pos()), "partition.Read does not call both gpt.Read and mbr.Read")
		}
		return
	}
	r.Check(oneArray && gi < mi, "C12-a", name, "GPT probe precedes the MBR probe in the probe table", w.relFile(pr.Pos()), fmt.Sprintf("indices %d < %d", gi, mi),
		"the MBR reader is tried before the GPT reader: a GPT disk is reported through its protective MBR")
	// the loop: a dynamic call whose nil-error edge returns its table; every other success return is absent
	var dyn *ssa.Call
	for _, c := range calls(pr, false, func(c ssa.CallInstruction) bool { return c.Common().StaticCallee() == nil && !c.Common().IsInvoke() }) {
		if cc, ok := c.(*ssa.Call); ok && len(cycleThrough(cc.Block())) > 0 {
			dyn = cc
		}
	}
	if dyn == nil {
		r.Undecided("C12-a", name, "probe loop", w.relFile(pr.Pos()), "the probe table is not consumed by a loop that calls its elements")
		return
	}
	iff, nilIdx := errNilEdge(pr, dyn)
	okRet := iff != nil
	for _, ret := range returnsOf(pr) {
		if classifyReturn(ret) == RetError {
			continue
		}
		fromCall := false
		for _, rt := range w.prov(ret.Results[0], provOpts{}).Roots {
			if rt.Kind == RCall && rt.Call == ssa.CallInstruction(dyn) {
				fromCall = true
			}
		}
		if iff == nil || !edgeDominates(iff.Block(), nilIdx, ret.Block()) || !fromCall {
			okRet = false
		}
	}
	r.Check(okRet, "C12-a", name, "a probe's table is returned on its nil-error edge, and nothing else succeeds", w.relFile(dyn.Pos()), "",
		"partition.Read can succeed other than by returning the table of the probe that just succeeded")
	// the failing probe's edge stays in the loop (the next probe is tried), it does not return
	if iff != nil {
		r.Check(!blockLeadsToErrorReturn(iff.Block().Succs[1-nilIdx], 0), "C12-a", name, "a failing probe falls through to the next one", w.relFile(iff.Pos()), "",
			"the first probe's error ends partition.Read: an MBR disk is never recognised")
	}
}

func c12Probes(w *World, r *Report) {
	gf := w.Method("disk", "Disk", "GetFilesystem")
	name := fnName(gf)
	fsI := w.Iface("filesystem", "FileSystem")
	probed := map[string]bool{}
	if c12ProbeClosures(w, r, gf, fsI) {
		return
	}
	for _, n := range w.Implementers(fsI) {
		pkg := strings.TrimPrefix(n.Obj().Pkg().Path(), modPath+"/")
		rd := w.FuncOpt(pkg, "Read")
		if rd == nil {
			continue
		}
		var pc *ssa.Call
		for _, c := range calls(gf, false, func(c ssa.CallInstruction) bool { return c.Common().StaticCallee() == rd }) {
			pc, _ = c.(*ssa.Call)
		}
		if pc == nil {
			r.Fail("C12-b", name, "probes "+pkg, w.relFile(gf.Pos()), "GetFilesystem never probes "+pkg+".Read: such a filesystem is reported as unknown")
			continue
		}
		probed[pkg] = true
		iff, nilIdx := errNilEdge(gf, pc)
		if iff == nil {
			r.Fail("C12-b", name, "probe "+pkg+" tested", w.relFile(pc.Pos()), "the error of the probe is not tested")
			continue
		}
		// on the nil edge: the next return returns this probe's value
		good, bad := false, ""
		for _, ret := range returnsOf(gf) {
			if classifyReturn(ret) == RetError {
				continue
			}
			fromThis := false
			for _, rt := range w.prov(ret.Results[0], provOpts{}).Roots {
				if rt.Kind == RCall && rt.Call == ssa.CallInstruction(pc) {
					fromThis = true
				}
			}
			if !fromThis {
				continue
			}
			if edgeDominates(iff.Block(), nilIdx, ret.Block()) {
				good = true
			} else {
				bad = "the probe's filesystem is returned on a path that has not passed its nil-error edge"
			}
		}
		nilTarget := iff.Block().Succs[nilIdx]
		if rr, ok := lastInstr(nilTarget).(*ssa.Return); !ok || classifyReturn(rr) == RetError {
			if good {
				// fine: return is further down but dominated
			}
		}
		r.Check(good && bad == "", "C12-b", name, "probe "+pkg+" returned iff it succeeded", w.relFile(pc.Pos()), "",
			"the result of "+pkg+".Read is not returned exactly on its nil-error edge "+bad)
		// the nil edge must return immediately this probe (not fall to the next one)
		imm := false
		if rr, ok := lastInstr(nilTarget).(*ssa.Return); ok && classifyReturn(rr) != RetError {
			for _, rt := range w.prov(rr.Results[0], provOpts{}).Roots {
				if rt.Kind == RCall && rt.Call == ssa.CallInstruction(pc) {
					imm = true
				}
			}
		}
		r.Check(imm, "C12-b", name, "probe "+pkg+" success returns at once", w.relFile(iff.Pos()), "", "a successful "+pkg+" probe does not return its filesystem immediately (a later probe may override it)")
	}
	// fall-through
	nErr := 0
	for _, ret := range returnsOf(gf) {
		if classifyReturn(ret) == RetError {
			nErr++
		}
	}
	r.Check(nErr > 0, "C12-b", name, "fall-through is an error", w.relFile(gf.Pos()), "", "GetFilesystem has no error return for an unrecognised range")
	// every success return comes from some probe
	for _, ret := range returnsOf(gf) {
		if classifyReturn(ret) == RetError {
			continue
		}
		from := false
		for _, rt := range w.prov(ret.Results[0], provOpts{}).Roots {
			if rt.Kind == RCall && rt.Fn != nil && rt.Fn.Name() == "Read" {
				from = true
			}
		}
		r.Check(from, "C12-b", name, "success returns a probe's filesystem #"+w.relFile(instrPos(ret)), w.relFile(instrPos(ret)), "", "GetFilesystem returns success with a value that no reader produced")
	}
}

// Format signatures (specification facts). fat16 is deliberately absent: today's fat16.Read parses only the
// BPB (offset 11..) and relies on BPB validation, rootDirectoryEntries != 0 and the cluster-count interval
// (C12-d) to reject foreign bytes; demanding a 0x55AA test there would ask more than the property states.
var fsMagic = map[string]uint64{
	"filesystem/fat12":    0x55aa,
	"filesystem/fat32":    0x55aa,
	"filesystem/iso9660":  0x4344303031,
	"filesystem/squashfs": 0x73717368,
	"filesystem/ext4":     0xef53,
}

func c12Magic(w *World, r *Report) {
	var pkgs []string
	for p := range fsMagic {
		pkgs = append(pkgs, p)
	}
	sort.Strings(pkgs)
	for _, pkg := range pkgs {
		magic := fsMagic[pkg]
		rd := w.Func(pkg, "Read")
		name := fnName(rd)
		reach := w.reachableFrom([]*ssa.Function{rd}, func(f *ssa.Function) bool {
			p := w.pkgOf(f)
			return p == pkg || (strings.HasPrefix(pkg, "filesystem/fat") && strings.HasPrefix(p, "filesystem/fat"))
		})
		type site struct {
			fn  *ssa.Function
			iff *ssa.If
			mis int
		}
		var sites []site
		for _, f := range sortedFns(reach) {
			for _, b := range f.Blocks {
				iff, ok := lastInstr(b).(*ssa.If)
				if !ok {
					continue
				}
				x, y, eqIdx, ok := eqEdge(iff)
				if !ok {
					continue
				}
				for _, side := range []ssa.Value{x, y} {
					c, isC := side.(*ssa.Const)
					if !isC || c.Value == nil || c.Value.Kind() != constant.Int {
						continue
					}
					if u, exact := constant.Uint64Val(c.Value); exact && u == magic {
						sites = append(sites, site{f, iff, 1 - eqIdx})
					}
				}
			}
		}
		if len(sites) == 0 {
			r.Fail("C12-c", name, "magic comparison", w.relFile(rd.Pos()), fmt.Sprintf("no comparison with the format signature %#x is reachable from %s: any bytes are accepted as this filesystem", magic, name))
			continue
		}
		for _, s := range sites {
			rej := blockLeadsToErrorReturn(s.iff.Block().Succs[s.mis], 0)
			r.Check(rej, "C12-c", fnName(s.fn), fmt.Sprintf("signature %#x mismatch is rejected", magic), w.relFile(s.iff.Pos()), "", "a signature mismatch does not lead to an error return")
			// the compared value is decoded from bytes
			x, y, _, _ := eqEdge(s.iff)
			other := x
			if _, isC := x.(*ssa.Const); isC {
				other = y
			}
			// the decode may sit in a small reader helper or local closure (u32(off)): follow in-module calls
			po := w.prov(other, provOpts{followCalls: true})
			dev := po.hasCall(func(rt Root) bool {
				n := ""
				if rt.Fn != nil {
					n = rt.Fn.Name()
				} else if rt.Meth != nil {
					n = rt.Meth.Name()
				}
				return strings.HasPrefix(n, "Uint")
			})
			r.Check(dev, "C12-c", fnName(s.fn), fmt.Sprintf("signature %#x compared with decoded bytes", magic), w.relFile(s.iff.Pos()), "", "the value compared with the signature is not decoded from the image bytes: "+strings.Join(po.rootStrings(), ","))
			// propagation up to Read
			cur := s.fn
			for depth := 0; cur != rd && cur != nil && depth < 8; depth++ {
				caller := reach[cur]
				if caller == nil {
					break
				}
				for _, cc := range calls(caller, false, func(c ssa.CallInstruction) bool { return c.Common().StaticCallee() == cur }) {
					c, ok := cc.(*ssa.Call)
					if !ok {
						continue
					}
					ok2, why := errorIsChecked(c)
					r.Check(ok2, "C12-c", fnName(caller), "error of "+cur.Name()+" propagated #"+ordinal(caller, c), w.relFile(c.Pos()), why, "the rejection is swallowed on the way to "+name+": "+why)
				}
				cur = caller
			}
		}
	}
}

type rejectIv struct {
	lo, hi int64 // rejects [lo, hi)
}

const ivInf = int64(1) << 40

func c12Thresholds(w *World, r *Report) {
	rounding := map[string]bool{}
	var noFAT []string
	intervals := func(fn *ssa.Function) []rejectIv {
		var out []rejectIv
		rounding = map[string]bool{}
		noFAT = nil
		for _, b := range fn.Blocks {
			iff, ok := lastInstr(b).(*ssa.If)
			if !ok {
				continue
			}
			bin, ok := iff.Cond.(*ssa.BinOp)
			if !ok {
				continue
			}
			k, isC := constInt(bin.Y)
			if !isC || k < 4000 || k > 70000 {
				continue
			}
			// a cluster count is a quotient (data sectors / sectors per cluster), computed here or in a helper; size checks are not
			qs := clusterQuotients(w, bin.X, 0)
			if len(qs) == 0 {
				continue
			}
			for _, q := range qs {
				rounding[quotRounding(q)] = true
			}
			var trueIv, falseIv rejectIv
			switch bin.Op {
			case token.GEQ:
				trueIv, falseIv = rejectIv{k, ivInf}, rejectIv{0, k}
			case token.GTR:
				trueIv, falseIv = rejectIv{k + 1, ivInf}, rejectIv{0, k + 1}
			case token.LSS:
				trueIv, falseIv = rejectIv{0, k}, rejectIv{k, ivInf}
			case token.LEQ:
				trueIv, falseIv = rejectIv{0, k + 1}, rejectIv{k + 1, ivInf}
			default:
				continue
			}
			rejects := true
			if blockLeadsToErrorReturn(b.Succs[0], 0) {
				out = append(out, trueIv)
			} else if blockLeadsToErrorReturn(b.Succs[1], 0) {
				out = append(out, falseIv)
			} else {
				rejects = false
			}
			if rejects {
				for _, q := range qs {
					if !accountsForFATArea(w, fn, q) {
						noFAT = append(noFAT, w.relFile(instrPos(iff)))
					}
				}
			}
		}
		sort.Slice(out, func(i, j int) bool { return out[i].lo < out[j].lo })
		return out
	}
	accept := func(rej []rejectIv) (int64, int64) {
		lo, hi := int64(0), ivInf
		for _, iv := range rej {
			if iv.lo == 0 && iv.hi > lo {
				lo = iv.hi
			}
			if iv.hi == ivInf && iv.lo < hi {
				hi = iv.lo
			}
		}
		return lo, hi
	}
	type acc struct{ lo, hi int64 }
	pkgAcc := map[string]acc{}
	for _, pkg := range []string{"filesystem/fat12", "filesystem/fat16"} {
		cr, rd := w.Func(pkg, "Create"), w.Func(pkg, "Read")
		cl, ch := accept(intervals(cr))
		cRound := joinSorted(rounding)
		cNoFAT := noFAT
		rl, rh := accept(intervals(rd))
		rRound := joinSorted(rounding)
		bad := append(append([]string{}, cNoFAT...), noFAT...)
		r.Check(len(bad) == 0, "C12-d", pkg, "thresholds are applied to the cluster count of the data area behind the FATs", w.relFile(rd.Pos()), "",
			fmt.Sprintf("a FAT-type threshold is compared with a cluster count whose sector total does not subtract the FAT area (sectors per FAT) at %s: the FAT specification (and the sibling Create/Read) count the clusters that remain after the FATs, so sizes near the threshold are created as one type and recognised as the other", strings.Join(bad, ", ")))
		r.Check(cRound == rRound && cRound == "floor", "C12-d", pkg, "Create and Read count clusters with the same rounding", w.relFile(rd.Pos()), cRound,
			fmt.Sprintf("Create compares a cluster count rounded %q, Read one rounded %q: a volume with a partial trailing cluster at the threshold is created as one FAT type and read as the other (the FAT specification counts whole clusters)", cRound, rRound))
		r.Check(cl == rl && ch == rh && (cl > 0 || ch < ivInf), "C12-d", pkg, "Create and Read accept the same cluster-count interval", w.relFile(rd.Pos()),
			fmt.Sprintf("[%d,%s)", cl, ivStr(ch)), fmt.Sprintf("Create accepts cluster counts [%d,%s) but Read accepts [%d,%s): a volume Create makes can be refused or misfiled by Read", cl, ivStr(ch), rl, ivStr(rh)))
		pkgAcc[pkg] = acc{rl, rh}
	}
	a12, a16 := pkgAcc["filesystem/fat12"], pkgAcc["filesystem/fat16"]
	r.Check(a12.hi == a16.lo && a12.lo == 0, "C12-d", "filesystem/fat12+fat16", "FAT12 and FAT16 acceptance intervals are adjacent and disjoint", "filesystem/fat16",
		fmt.Sprintf("fat12 [%d,%s) fat16 [%d,%s)", a12.lo, ivStr(a12.hi), a16.lo, ivStr(a16.hi)),
		fmt.Sprintf("fat12 reads accept [%d,%s) and fat16 reads accept [%d,%s): an image can be claimed by both or by neither", a12.lo, ivStr(a12.hi), a16.lo, ivStr(a16.hi)))
	r.Check(a16.hi == 65525, "C12-d", "filesystem/fat16", "FAT16 upper bound is 65525", "filesystem/fat16", "", fmt.Sprintf("fat16 accepts cluster counts up to %s, the FAT specification's limit is 65525", ivStr(a16.hi)))
}

// clusterQuotients: the division(s) whose result v is, looking through conversions, phis and the results of
// in-module helpers.
func clusterQuotients(w *World, v ssa.Value, depth int) []*ssa.BinOp {
	v = stripConv(v)
	if depth > 4 {
		return nil
	}
	switch x := v.(type) {
	case *ssa.BinOp:
		if x.Op == token.QUO {
			return []*ssa.BinOp{x}
		}
	case *ssa.Phi:
		var out []*ssa.BinOp
		for _, e := range x.Edges {
			out = append(out, clusterQuotients(w, e, depth+1)...)
		}
		return out
	case *ssa.Call:
		h := x.Call.StaticCallee()
		if h == nil || !w.fnSet[h] || h.Blocks == nil || h.Signature.Results().Len() != 1 {
			return nil
		}
		var out []*ssa.BinOp
		for _, ret := range returnsOf(h) {
			out = append(out, clusterQuotients(w, retResult(ret, 0), depth+1)...)
		}
		return out
	}
	return nil
}

// quotRounding: "ceil" when the dividend has the shape x + d - 1 for divisor d, "floor" otherwise.
func quotRounding(q *ssa.BinOp) string {
	d := stripConv(q.Y)
	hasD, hasOne := false, false
	ts := addends(q.X)
	for _, t := range ts {
		tv := stripConv(t.v)
		if !t.neg && (tv == d || sameLoad(tv, d)) {
			hasD = true
		}
		if dk, ok := constInt(d); ok && !t.neg {
			if k, isC := constInt(tv); isC && k == dk {
				hasD = true
			}
		}
		if k, ok := constInt(tv); ok && ((t.neg && k == 1) || (!t.neg && k == -1)) {
			hasOne = true
		}
	}
	if len(ts) > 1 && hasD && hasOne {
		return "ceil"
	}
	// constant divisor: x + (D-1), folded by the compiler
	if dk, ok := constInt(d); ok && len(ts) > 1 {
		for _, t := range ts {
			if k, isC := constInt(stripConv(t.v)); isC && !t.neg && k == dk-1 && dk > 1 {
				return "ceil"
			}
		}
	}
	return "floor"
}

// sameLoad: two loads/conversions of the same field or variable (go/ssa has no CSE).
func sameLoad(a, b ssa.Value) bool {
	ua, ok1 := a.(*ssa.UnOp)
	ub, ok2 := b.(*ssa.UnOp)
	if ok1 && ok2 && ua.Op == token.MUL && ub.Op == token.MUL {
		if ua.X == ub.X {
			return true
		}
		fa, ok1 := ua.X.(*ssa.FieldAddr)
		fb, ok2 := ub.X.(*ssa.FieldAddr)
		return ok1 && ok2 && fa.Field == fb.Field && fa.X == fb.X
	}
	fa, ok1 := a.(*ssa.Field)
	fb, ok2 := b.(*ssa.Field)
	return ok1 && ok2 && fa.Field == fb.Field && fa.X == fb.X
}

// c12PositionIndependent: the start offset never decides whether a reader accepts the bytes.
func c12PositionIndependent(w *World, r *Report) {
	for _, pkg := range []string{"filesystem/fat12", "filesystem/fat16", "filesystem/fat32", "filesystem/iso9660", "filesystem/squashfs", "filesystem/ext4"} {
		rd := w.Func(pkg, "Read")
		var start *ssa.Parameter
		for _, p := range rd.Params {
			if p.Name() == "start" {
				start = p
			}
		}
		if start == nil {
			fatalf("C12-f: %s.Read has no start parameter", pkg)
		}
		bad := ""
		var pos ssa.Instruction
		n := 0
		for _, b := range rd.Blocks {
			iff, ok := lastInstr(b).(*ssa.If)
			if !ok {
				continue
			}
			bin, ok := iff.Cond.(*ssa.BinOp)
			if !ok {
				continue
			}
			dep := false
			for _, op := range []ssa.Value{bin.X, bin.Y} {
				for _, rt := range w.prov(op, provOpts{}).Roots {
					if rt.Kind == RParam && rt.Param == start {
						dep = true
					}
				}
			}
			if !dep {
				continue
			}
			n++
			// a test of start itself against the constant 0 (sign test, or the "wrap only when non-zero" test)
			if x, y := stripConv(bin.X), stripConv(bin.Y); (x == ssa.Value(start) && isZeroConst(y)) || (y == ssa.Value(start) && isZeroConst(x)) {
				continue
			}
			if blockLeadsToErrorReturn(b.Succs[0], 0) || blockLeadsToErrorReturn(b.Succs[1], 0) {
				bad = "a condition depending on start decides an error return"
				pos = iff
			}
		}
		where := w.relFile(rd.Pos())
		if pos != nil {
			where = w.relFile(instrPos(pos))
		}
		r.Check(bad == "", "C12-f", fnName(rd), "rejection does not depend on the start offset", where, fmt.Sprintf("%d start-dependent branches, none rejects", n),
			bad+": the same bytes are accepted on the whole disk or in a first partition and refused (reported as unknown) further into the disk")
	}
}

func isZeroConst(v ssa.Value) bool {
	k, ok := constInt(v)
	return ok && k == 0
}

func ivStr(v int64) string {
	if v >= ivInf {
		return "inf"
	}
	return fmt.Sprint(v)
}

// accountsForFATArea: the dividend of the cluster-count quotient q subtracts a term that depends on the sectors-per-FAT
// quantity: the BPB field SectorsPerFat (readers), or the value the function stores into that field (creators).
func accountsForFATArea(w *World, fn *ssa.Function, q *ssa.BinOp) bool {
	targets := map[ssa.Value]bool{}
	targetCells := map[ssa.Value]bool{}
	for _, f := range withClosures(fn) {
		allInstrs(f, func(ins ssa.Instruction) {
			st, ok := ins.(*ssa.Store)
			if !ok {
				return
			}
			if fa, ok := st.Addr.(*ssa.FieldAddr); ok {
				if _, fld, _, ok := fieldOfAddr(fa); ok && fld.Name() == "SectorsPerFat" {
					targets[st.Val] = true
					targets[stripConv(st.Val)] = true
					if ld, ok := stripConv(st.Val).(*ssa.UnOp); ok && ld.Op == token.MUL {
						targetCells[ld.X] = true // the value lives in a local cell (captured variable)
					}
				}
			}
		})
	}
	seen := map[ssa.Value]bool{}
	var reaches func(v ssa.Value, depth int) bool
	reaches = func(v ssa.Value, depth int) bool {
		if v == nil || depth > 14 || seen[v] {
			return false
		}
		seen[v] = true
		if targets[v] || targets[stripConv(v)] {
			return true
		}
		switch x := v.(type) {
		case *ssa.UnOp:
			if x.Op == token.MUL {
				if targetCells[x.X] {
					return true
				}
				if fa, ok := x.X.(*ssa.FieldAddr); ok {
					if _, fld, _, ok := fieldOfAddr(fa); ok && fld.Name() == "SectorsPerFat" {
						return true
					}
				}
				// a local cell: the values stored to it
				for _, st := range cellStores(x.X) {
					if reaches(st.Val, depth+1) {
						return true
					}
				}
				return false
			}
		case *ssa.Field:
			if _, fld, _, ok := fieldOfAddr(x); ok && fld.Name() == "SectorsPerFat" {
				return true
			}
		case *ssa.Parameter:
			// a helper's parameter: the actuals at its call sites in fn
			h := x.Parent()
			idx := -1
			for i, p := range h.Params {
				if p == x {
					idx = i
				}
			}
			for _, f := range withClosures(fn) {
				for _, c := range calls(f, false, func(c ssa.CallInstruction) bool { return c.Common().StaticCallee() == h }) {
					if idx >= 0 && idx < len(c.Common().Args) && reaches(c.Common().Args[idx], depth+1) {
						return true
					}
				}
			}
			return false
		case *ssa.Call:
			if h := x.Call.StaticCallee(); h != nil && w.fnSet[h] && h.Blocks != nil {
				for _, ret := range returnsOf(h) {
					for _, rv := range ret.Results {
						if reaches(rv, depth+1) {
							return true
						}
					}
				}
			}
			for _, a := range x.Call.Args {
				if reaches(a, depth+1) {
					return true
				}
			}
			return false
		}
		if ins, ok := v.(ssa.Instruction); ok {
			for _, op := range ins.Operands(nil) {
				if op != nil && *op != nil && reaches(*op, depth+1) {
					return true
				}
			}
		}
		return false
	}
	for _, t := range addends(q.X) {
		if !t.neg {
			continue
		}
		seen = map[ssa.Value]bool{}
		if reaches(t.v, 0) {
			return true
		}
	}
	return false
}

// signatureWindow: spec facts, not a copy of the source: FAT boot sector [0,512), squashfs superblock [0,96),
// ext4 superblock [1024,2048), first ISO9660 volume descriptor [32768,34816).
const signatureWindow = 34816

// zeroWriteAt: fn (or a module callee, two levels) contains a WriteAt whose data is a freshly made, never written
// byte slice of at least signatureWindow bytes (or min(size, >= signatureWindow)); returns the index of the parameter
// of fn that the write's offset is, -1 if none.
func zeroWriteAt(w *World, fn *ssa.Function, depth int) (bool, int) {
	if fn == nil || fn.Blocks == nil || depth > 2 {
		return false, -1
	}
	lenOK := func(v ssa.Value) bool {
		v = stripConv(v)
		if c, ok := constInt(v); ok {
			return c >= signatureWindow
		}
		if ph, ok := v.(*ssa.Phi); ok {
			nConst := 0
			for _, e := range ph.Edges {
				if c, ok := constInt(stripConv(e)); ok {
					if c < signatureWindow {
						return false
					}
					nConst++
				}
			}
			return nConst > 0
		}
		if c, ok := v.(*ssa.Call); ok {
			if bi, ok := c.Call.Value.(*ssa.Builtin); ok && bi.Name() == "min" {
				good := false
				for _, a := range c.Call.Args {
					if k, ok := constInt(stripConv(a)); ok {
						if k < signatureWindow {
							return false
						}
						good = true
					}
				}
				return good
			}
		}
		return false
	}
	paramIdx := func(v ssa.Value) int {
		v = unspillParam(stripConv(v))
		for i, p := range fn.Params {
			if ssa.Value(p) == v {
				return i
			}
		}
		return -1
	}
	for _, cc := range calls(fn, false, isWriteAt) {
		args := argsOf(cc)
		if len(args) != 2 {
			continue
		}
		mk, ok := stripConv(args[0]).(*ssa.MakeSlice)
		if !ok || !lenOK(mk.Len) {
			continue
		}
		clean := true
		for _, ref := range *mk.Referrers() {
			if ref != cc.(ssa.Instruction) {
				if _, isDbg := ref.(*ssa.DebugRef); !isDbg {
					clean = false
				}
			}
		}
		if !clean {
			continue
		}
		return true, paramIdx(args[1])
	}
	for _, cc := range calls(fn, false, func(c ssa.CallInstruction) bool {
		g := c.Common().StaticCallee()
		return g != nil && w.fnSet[g] && g.Blocks != nil
	}) {
		g := cc.Common().StaticCallee()
		if ok, pi := zeroWriteAt(w, g, depth+1); ok && pi >= 0 && pi < len(cc.Common().Args) {
			return true, paramIdx(cc.Common().Args[pi])
		}
	}
	return false, -1
}

func c12EraseBeforeCreate(w *World, r *Report) {
	cf := w.Method("disk", "Disk", "CreateFilesystem")
	name := fnName(cf)
	isFSCreate := func(c ssa.CallInstruction) bool {
		g := c.Common().StaticCallee()
		if g == nil || g.Name() != "Create" || g.Signature.Recv() != nil {
			return false
		}
		for _, p := range fsPkgs {
			if w.pkgOf(g) == p {
				return true
			}
		}
		return false
	}
	creates := calls(cf, false, isFSCreate)
	// a dispatch table: CreateFilesystem calls a function value whose possible targets (CHA) call the Create functions
	// with their own parameters; such a call site stands for the Create calls behind it
	dynStart := map[ssa.CallInstruction]ssa.Value{}
	if len(creates) == 0 {
		for _, cc := range calls(cf, false, func(c ssa.CallInstruction) bool {
			return !c.Common().IsInvoke() && c.Common().StaticCallee() == nil
		}) {
			var startArg ssa.Value
			n := 0
			for _, t := range w.calleesCHA(cc) {
				if !w.fnSet[t] || t.Blocks == nil {
					continue
				}
				for _, inner := range calls(t, false, isFSCreate) {
					n++
					if a := inner.Common().Args; len(a) >= 3 {
						v := unspillParam(stripConv(a[2]))
						for j, p := range t.Params {
							if ssa.Value(p) == v && j < len(cc.Common().Args) {
								startArg = cc.Common().Args[j]
							}
						}
					}
				}
			}
			if n >= len(fsPkgs) {
				creates = append(creates, cc)
				dynStart[cc] = startArg
			}
		}
	}
	if len(creates) == 0 {
		r.Undecided("C12-g", name, "filesystem Create calls", w.relFile(cf.Pos()), "CreateFilesystem does not call the filesystem packages' Create functions directly")
		return
	}
	// wipe events: a zero WriteAt in CreateFilesystem itself, or a call of a helper that performs one at the offset it is given
	wipeBlocks := map[*ssa.BasicBlock]ssa.Value{} // block -> the offset the wipe starts at
	for _, cc := range calls(cf, false, func(c ssa.CallInstruction) bool { return true }) {
		if isWriteAt(cc) {
			continue
		}
		g := cc.Common().StaticCallee()
		if g == nil || !w.fnSet[g] || g.Blocks == nil || isFSCreate(cc) {
			continue
		}
		if ok, pi := zeroWriteAt(w, g, 0); ok && pi >= 0 && pi < len(cc.Common().Args) {
			if c, isCall := cc.(*ssa.Call); isCall {
				if chk, _ := errorIsChecked(c); !chk {
					continue
				}
			}
			wipeBlocks[cc.Block()] = cc.Common().Args[pi]
		}
	}
	if ok, _ := zeroWriteAt(w, cf, 3); ok { // direct WriteAt in CreateFilesystem (depth 3: do not descend)
		for _, cc := range calls(cf, false, isWriteAt) {
			if mk, isMk := stripConv(argsOf(cc)[0]).(*ssa.MakeSlice); isMk && mk != nil {
				wipeBlocks[cc.Block()] = argsOf(cc)[1]
			}
		}
	}
	sameStart := func(a, b ssa.Value) bool {
		a, b = stripConv(a), stripConv(b)
		if a == b {
			return true
		}
		return strings.Join(w.prov(a, provOpts{}).rootStrings(), ",") == strings.Join(w.prov(b, provOpts{}).rootStrings(), ",")
	}
	for _, cc := range creates {
		g := cc.Common().StaticCallee()
		_, isDyn := dynStart[cc]
		// the value the dispatch compares, and the constant that leads to this call
		type constraint struct {
			v ssa.Value
			k int64
		}
		var cons []constraint
		for _, b := range cf.Blocks {
			iff, ok := lastInstr(b).(*ssa.If)
			if !ok {
				continue
			}
			x, y, eqIdx, ok := eqEdge(iff)
			if !ok {
				continue
			}
			if k, isC := constInt(y); isC && edgeDominates(b, eqIdx, cc.Block()) {
				cons = append(cons, constraint{x, k})
			}
		}
		sameVal := func(a, b ssa.Value) bool {
			a, b = stripConv(a), stripConv(b)
			return a == b || sameBase(a, b) || sameLoad(a, b)
		}
		startArg := ssa.Value(nil)
		if args := cc.Common().Args; len(args) >= 3 {
			startArg = args[2]
		}
		if isDyn {
			startArg = dynStart[cc]
		}
		refuse := func(b *ssa.BasicBlock, idx int) bool {
			if off, isWipe := wipeBlocks[b]; isWipe && (startArg == nil || sameStart(off, startArg)) {
				return true
			}
			iff, ok := lastInstr(b).(*ssa.If)
			if !ok {
				return false
			}
			x, y, eqIdx, ok := eqEdge(iff)
			if !ok {
				return false
			}
			k2, isC := constInt(y)
			if !isC {
				return false
			}
			for _, c := range cons {
				if sameVal(c.v, x) {
					if k2 == c.k && idx != eqIdx {
						return true // the value equals k on this path: the "different" edge is infeasible
					}
					if k2 != c.k && idx == eqIdx {
						return true
					}
				}
			}
			return false
		}
		reach := reachableAvoiding(cf, refuse)
		ok := !reach[cc.Block()]
		if _, wipeHere := wipeBlocks[cc.Block()]; wipeHere {
			ok = true
		}
		if isDyn {
			// one obligation per filesystem package, all decided at the dispatching call
			for _, pk := range fsPkgs {
				r.Check(ok, "C12-g", name, "old signatures erased before "+pk+".Create", w.relFile(cc.Pos()), "through the table of creators",
					fmt.Sprintf("the call that dispatches to %s.Create can be reached without zeroing the first %d bytes of the target range", pk, signatureWindow))
			}
			continue
		}
		r.Check(ok, "C12-g", name, "old signatures erased before "+w.pkgOf(g)+".Create", w.relFile(cc.Pos()), "",
			fmt.Sprintf("%s.Create can be reached without zeroing the first %d bytes of the target range: Create writes only its own structures, so the boot sector / superblock / volume descriptor of an earlier filesystem of another type survives and GetFilesystem reports the old type", w.pkgOf(g), signatureWindow))
	}
}

// c12StaleGPT (C12-h): Disk.Partition invalidates the headers of a GPT that a table of another kind replaces.
func c12StaleGPT(w *World, r *Report) {
	pf := w.Method("disk", "Disk", "Partition")
	name := fnName(pf)
	// eraser: an in-module function that (itself or one level down) reads, compares with the GPT signature and writes
	isEraser := func(g *ssa.Function) bool {
		if g == nil || !w.fnSet[g] || g.Blocks == nil {
			return false
		}
		reads, writes, sig, sizeOff := false, false, false, false
		for _, f := range withClosures(g) {
			allInstrs(f, func(ins ssa.Instruction) {
				if c, ok := ins.(ssa.CallInstruction); ok {
					if isReadAt(c) {
						reads = true
						for _, rt := range w.prov(argsOf(c)[1], provOpts{}).Roots {
							if rt.Kind == RField && rt.Field.Name() == "Size" {
								sizeOff = true
							}
						}
					}
					if isWriteAt(c) {
						writes = true
					}
				}
				for _, op := range ins.Operands(nil) {
					if op == nil || *op == nil {
						continue
					}
					if k, ok := (*op).(*ssa.Const); ok && k.Value != nil && k.Value.Kind() == constant.String && constant.StringVal(k.Value) == "EFI PART" {
						sig = true
					}
				}
			})
		}
		return reads && writes && sig && sizeOff
	}
	bad := mustPass(w, pf, func(ins ssa.Instruction) bool {
		c, ok := ins.(ssa.CallInstruction)
		return ok && isEraser(c.Common().StaticCallee())
	}, nil)
	if len(bad) == 0 {
		r.Ok("C12-h", name, "a replaced GPT's headers are invalidated before success", w.relFile(pf.Pos()), "")
		return
	}
	for _, ret := range bad {
		r.Fail("C12-h", name, "a replaced GPT's headers are invalidated before success", w.relFile(instrPos(ret)),
			"Disk.Partition can succeed without testing LBA 1 and the last sector for the signature of an earlier GPT and erasing it: the MBR writer touches only bytes 446..511, the GPT header survives, and because a disk is probed for GPT first it reads back as the old GPT with the old partitions")
	}
}

// c12ProbeClosures: GetFilesystem written as an ordered list of probe closures and one loop that calls them. Each
// closure only forwards to one package's Read; the loop's call site returns the closure's filesystem exactly (and at
// once) on its nil-error edge and goes on with the next probe otherwise. Returns false if GetFilesystem has no such shape.
func c12ProbeClosures(w *World, r *Report, gf *ssa.Function, fsI *types.Interface) bool {
	name := fnName(gf)
	// is any Read called directly? then the direct form is judged by the caller
	for _, c := range calls(gf, false, func(c ssa.CallInstruction) bool {
		g := c.Common().StaticCallee()
		return g != nil && g.Name() == "Read" && g.Signature.Recv() == nil
	}) {
		_ = c
		return false
	}
	byPkg := map[string]*ssa.Function{}
	for _, cl := range gf.AnonFuncs {
		for _, c := range calls(cl, false, func(c ssa.CallInstruction) bool {
			g := c.Common().StaticCallee()
			return g != nil && g.Name() == "Read" && g.Signature.Recv() == nil
		}) {
			// the closure returns the Read's results as they are
			pure := false
			for _, ret := range returnsOf(cl) {
				if len(ret.Results) == 2 {
					r0 := ret.Results[0]
					if mi, ok := r0.(*ssa.MakeInterface); ok {
						r0 = mi.X
					}
					if ci, ok := r0.(*ssa.ChangeInterface); ok {
						r0 = ci.X
					}
					if e0, ok := r0.(*ssa.Extract); ok && e0.Tuple == ssa.Value(c.(*ssa.Call)) && e0.Index == 0 {
						if e1, ok := ret.Results[1].(*ssa.Extract); ok && e1.Tuple == ssa.Value(c.(*ssa.Call)) && e1.Index == 1 {
							pure = true
						}
					}
				}
			}
			if pure {
				byPkg[w.pkgOf(c.Common().StaticCallee())] = cl
			}
		}
	}
	if len(byPkg) == 0 {
		return false
	}
	// the dispatching call: a dynamic call whose possible targets are these closures
	var site *ssa.Call
	for _, cc := range calls(gf, false, func(c ssa.CallInstruction) bool { return !c.Common().IsInvoke() && c.Common().StaticCallee() == nil }) {
		c, ok := cc.(*ssa.Call)
		if !ok {
			continue
		}
		n := 0
		for _, t := range w.calleesCHA(cc) {
			for _, cl := range byPkg {
				if t == cl {
					n++
				}
			}
		}
		if n == len(byPkg) {
			site = c
		}
	}
	if site == nil {
		r.Undecided("C12-b", name, "probe table", w.relFile(gf.Pos()), "GetFilesystem builds probe closures but no call site dispatches to all of them")
		return true
	}
	iff, nilIdx := errNilEdge(gf, site)
	imm := false
	if iff != nil {
		if rr, ok := lastInstr(iff.Block().Succs[nilIdx]).(*ssa.Return); ok && classifyReturn(rr) != RetError {
			for _, rt := range w.prov(rr.Results[0], provOpts{}).Roots {
				if rt.Kind == RCall && rt.Call == ssa.CallInstruction(site) {
					imm = true
				}
			}
		}
	}
	// the failing edge stays in the loop (reaches the call site again) or falls to an error return
	loops := iff != nil && blockReaches(iff.Block().Succs[1-nilIdx], site.Block())
	for _, n := range w.Implementers(fsI) {
		pkg := strings.TrimPrefix(n.Obj().Pkg().Path(), modPath+"/")
		if w.FuncOpt(pkg, "Read") == nil {
			continue
		}
		cl := byPkg[pkg]
		if cl == nil {
			r.Fail("C12-b", name, "probes "+pkg, w.relFile(gf.Pos()), "GetFilesystem never probes "+pkg+".Read: such a filesystem is reported as unknown")
			continue
		}
		r.Check(iff != nil && imm, "C12-b", name, "probe "+pkg+" returned iff it succeeded", w.relFile(site.Pos()), "through the table of probes",
			"the result of the probe closures is not returned exactly on the nil-error edge of the dispatching call")
		r.Check(imm, "C12-b", name, "probe "+pkg+" success returns at once", w.relFile(site.Pos()), "through the table of probes", "a successful probe does not return its filesystem immediately")
		r.Check(loops, "C12-b", name, "a failed "+pkg+" probe leads to the next one", w.relFile(site.Pos()), "", "after a failed probe the loop does not go on to the next probe")
	}
	nErr := 0
	for _, ret := range returnsOf(gf) {
		if classifyReturn(ret) == RetError {
			nErr++
		}
	}
	r.Check(nErr > 0, "C12-b", name, "fall-through is an error", w.relFile(gf.Pos()), "", "GetFilesystem has no error return for an unrecognised range")
	return true
}

package main

// ORDER: typestate propagation over the SSA control-flow graph.
//
// States are small integers (< 64); a fact is a bitmask of possible states. A rule
// supplies a per-instruction transformer and, optionally, a per-edge transformer
// (for events that live on the outcome of a comparison) and decides which in-module
// callees are summarised by running the same rule on them.

import (
	"go/token"
	"go/types"
	"strconv"

	"golang.org/x/tools/go/ssa"
)

type RetKind int

const (
	RetSuccess RetKind = iota
	RetError
	RetUnknown // may be either; treated as a possible success by must-rules
)

var errorType = types.Universe.Lookup("error").Type()

// errResultIndex returns the index of the last result of type error, or -1.
func errResultIndex(sig *types.Signature) int {
	rs := sig.Results()
	for i := rs.Len() - 1; i >= 0; i-- {
		if types.Identical(rs.At(i).Type(), errorType) {
			return i
		}
	}
	return -1
}

func isNilConst(v ssa.Value) bool {
	c, ok := v.(*ssa.Const)
	return ok && c.Value == nil && !isBasic(c.Type())
}

func isBasic(t types.Type) bool {
	_, ok := t.Underlying().(*types.Basic)
	return ok
}

// nilTest decodes `x != nil` / `x == nil`; returns x and whether the TRUE edge means non-nil.
func nilTest(cond ssa.Value) (x ssa.Value, trueIsNonNil bool, ok bool) {
	b, isBin := cond.(*ssa.BinOp)
	if !isBin || (b.Op != token.NEQ && b.Op != token.EQL) {
		return nil, false, false
	}
	switch {
	case isNilConst(b.Y):
		x = b.X
	case isNilConst(b.X):
		x = b.Y
	default:
		return nil, false, false
	}
	return x, b.Op == token.NEQ, true
}

// edgeDominates reports whether the CFG edge (from -> from.Succs[idx]) dominates block b:
// the successor has `from` as its only predecessor and dominates b.
func edgeDominates(from *ssa.BasicBlock, idx int, b *ssa.BasicBlock) bool {
	s := from.Succs[idx]
	if len(s.Preds) != 1 {
		return false
	}
	return s.Dominates(b)
}

// errValueKind decides whether error-typed value v, used in block at, is certainly nil,
// certainly non-nil, or unknown.
func errValueKind(v ssa.Value, at *ssa.BasicBlock, depth int) RetKind {
	if depth > 6 {
		return RetUnknown
	}
	if isNilConst(v) {
		return RetSuccess
	}
	switch x := v.(type) {
	case *ssa.MakeInterface:
		return RetError
	case *ssa.Call:
		if f := x.Call.StaticCallee(); f != nil {
			switch fullFuncName(f) {
			case "fmt.Errorf", "errors.New":
				return RetError
			}
			// an error constructor: every return of the callee is a non-nil error
			if f.Blocks != nil && f.Signature.Results().Len() == 1 && depth < 3 {
				all := true
				n := 0
				for _, b := range f.Blocks {
					if r, ok := lastInstr(b).(*ssa.Return); ok && b != f.Recover {
						n++
						if errValueKind(retResult(r, 0), b, depth+1) != RetError {
							all = false
						}
					}
				}
				if all && n > 0 {
					return RetError
				}
			}
		}
	case *ssa.Phi:
		k := RetKind(-1)
		for i, e := range x.Edges {
			ek := errValueKind(e, x.Block().Preds[i], depth+1)
			if k == -1 {
				k = ek
			} else if k != ek {
				k = RetUnknown
			}
		}
		if k >= 0 && k != RetUnknown {
			return k
		}
		// undetermined from the incoming values: a dominating nil test on the phi itself may still decide
	case *ssa.UnOp:
		// load of a package-level error variable (sentinel errors are non-nil)
		if x.Op == token.MUL {
			if g, ok := x.X.(*ssa.Global); ok && types.Identical(deref(g.Type()), errorType) {
				return RetError
			}
		}
	}
	// dominating nil test on v
	fn := at.Parent()
	for _, b := range fn.Blocks {
		iff, ok := lastInstr(b).(*ssa.If)
		if !ok {
			continue
		}
		x, trueNonNil, ok := nilTest(iff.Cond)
		if !ok || x != v {
			continue
		}
		if edgeDominates(b, 0, at) {
			if trueNonNil {
				return RetError
			}
			return RetSuccess
		}
		if edgeDominates(b, 1, at) {
			if trueNonNil {
				return RetSuccess
			}
			return RetError
		}
	}
	return RetUnknown
}

func lastInstr(b *ssa.BasicBlock) ssa.Instruction {
	if len(b.Instrs) == 0 {
		return nil
	}
	return b.Instrs[len(b.Instrs)-1]
}

func fullFuncName(f *ssa.Function) string {
	if o, ok := f.Object().(*types.Func); ok && o != nil {
		return o.FullName()
	}
	return f.String()
}

// classifyReturn says whether a return instruction is a success, an error, or unknown.
func classifyReturn(ret *ssa.Return) RetKind {
	fn := ret.Parent()
	idx := errResultIndex(fn.Signature)
	if idx < 0 {
		return RetSuccess
	}
	if idx >= len(ret.Results) {
		return RetUnknown
	}
	return errValueKind(retResult(ret, idx), ret.Block(), 0)
}

// retResult returns the idx-th returned value, looking through the spill go/ssa inserts in functions
// with defers (`*t1 = v; rundefers; t2 = *t1; return t2`).
func retResult(ret *ssa.Return, idx int) ssa.Value {
	return unspill(ret.Results[idx], ret)
}

func unspill(v ssa.Value, before ssa.Instruction) ssa.Value {
	ld, ok := v.(*ssa.UnOp)
	if !ok || ld.Op != token.MUL {
		return v
	}
	al, ok := ld.X.(*ssa.Alloc)
	if !ok {
		return v
	}
	b := ld.Block()
	pos := -1
	for i, ins := range b.Instrs {
		if ins == ssa.Instruction(ld) {
			pos = i
		}
	}
	for i := pos - 1; i >= 0; i-- {
		if st, ok := b.Instrs[i].(*ssa.Store); ok && st.Addr == ssa.Value(al) {
			return st.Val
		}
	}
	return v
}

// errSourceCall: if v (an error value) is the error result of a call, return that call.
func errSourceCall(v ssa.Value) *ssa.Call {
	switch x := v.(type) {
	case *ssa.Call:
		return x
	case *ssa.Extract:
		if c, ok := x.Tuple.(*ssa.Call); ok {
			return c
		}
	}
	return nil
}

// ---- the engine -------------------------------------------------------------------

type flowRule struct {
	w *World
	// step: transformer of one state at one instruction; ok=false means identity.
	step func(ins ssa.Instruction, s int) (next uint64, ok bool)
	// edge: transformer of one state along the CFG edge b -> b.Succs[idx]; ok=false means identity.
	edge func(b *ssa.BasicBlock, idx int, s int) (next uint64, ok bool)
	// inline decides which statically-resolved in-module callees are summarised.
	inline func(callee *ssa.Function, site ssa.CallInstruction) bool
	// dyn resolves dynamic calls (function-valued fields, interfaces) to callees to summarise (optional).
	dyn      func(site ssa.CallInstruction) []*ssa.Function
	maxDepth int
	// summariseHook, when set, supplies the summary of callee g called at site in state s (context-sensitive
	// analyses keep their own call stack and memo).
	summariseHook func(g *ssa.Function, site ssa.CallInstruction, s int) *summary

	memo      map[sumKey]*summary
	active    map[sumKey]bool
	Recursive bool // a recursive summary was cut
	TooDeep   []string
	Visited   map[*ssa.Function]bool
}

type sumKey struct {
	fn *ssa.Function
	s  int
}

type summary struct {
	succ, err uint64 // exit states at success / error returns (unknown returns count in both)
}

type flowResult struct {
	In      map[*ssa.BasicBlock]uint64
	Before  map[ssa.Instruction]uint64 // state mask before each instruction the caller asked to observe
	Returns map[*ssa.Return]uint64     // state mask at each return
	RetKind map[*ssa.Return]RetKind
	tails   map[*ssa.Return]tailInfo // returns whose error result is the error of a summarised call
}

func bits(m uint64, f func(s int)) {
	for s := 0; m != 0; s++ {
		if m&1 != 0 {
			f(s)
		}
		m >>= 1
	}
}

func (r *flowRule) applyStep(ins ssa.Instruction, m uint64) uint64 {
	var out uint64
	bits(m, func(s int) {
		if n, ok := r.step(ins, s); ok {
			out |= n
		} else {
			out |= 1 << uint(s)
		}
	})
	return out
}

func (r *flowRule) applyEdge(b *ssa.BasicBlock, idx int, m uint64) uint64 {
	if r.edge == nil {
		return m
	}
	var out uint64
	bits(m, func(s int) {
		if n, ok := r.edge(b, idx, s); ok {
			out |= n
		} else {
			out |= 1 << uint(s)
		}
	})
	return out
}

// calleesToInline returns the callees of a call instruction that the rule summarises.
func (r *flowRule) calleesToInline(c ssa.CallInstruction) []*ssa.Function {
	if _, isGo := c.(*ssa.Go); isGo {
		return nil
	}
	if _, isDefer := c.(*ssa.Defer); isDefer {
		return nil
	}
	cc := c.Common()
	if f := cc.StaticCallee(); f != nil {
		if f.Blocks != nil && r.w.fnSet[f] && r.inline != nil && r.inline(f, c) {
			return []*ssa.Function{f}
		}
		return nil
	}
	if r.dyn != nil {
		var out []*ssa.Function
		for _, f := range r.dyn(c) {
			if f != nil && f.Blocks != nil {
				out = append(out, f)
			}
		}
		return out
	}
	return nil
}

type pendingCall struct {
	call      *ssa.Call
	succ, err uint64
}

// run propagates from the entry mask and returns per-block and per-return facts.
func (r *flowRule) run(fn *ssa.Function, init uint64, depth int) *flowResult {
	if r.memo == nil {
		r.memo = map[sumKey]*summary{}
		r.active = map[sumKey]bool{}
		r.Visited = map[*ssa.Function]bool{}
	}
	if r.maxDepth == 0 {
		r.maxDepth = 4
	}
	r.Visited[fn] = true
	res := &flowResult{In: map[*ssa.BasicBlock]uint64{}, Before: map[ssa.Instruction]uint64{},
		Returns: map[*ssa.Return]uint64{}, RetKind: map[*ssa.Return]RetKind{}}
	if len(fn.Blocks) == 0 {
		return res
	}
	in := res.In
	in[fn.Blocks[0]] = init
	work := []*ssa.BasicBlock{fn.Blocks[0]}
	inWork := map[*ssa.BasicBlock]bool{fn.Blocks[0]: true}
	for len(work) > 0 {
		b := work[0]
		work = work[1:]
		inWork[b] = false
		m := in[b]
		var pend *pendingCall
		for _, ins := range b.Instrs {
			res.Before[ins] = m
			if c, ok := ins.(ssa.CallInstruction); ok {
				if callees := r.calleesToInline(c); len(callees) > 0 {
					var succ, errm uint64
					for _, g := range callees {
						bits(m, func(s int) {
							var sm *summary
							if r.summariseHook != nil {
								sm = r.summariseHook(g, c, s)
							} else {
								sm = r.summarise(g, s, depth+1)
							}
							succ |= sm.succ
							errm |= sm.err
						})
					}
					m = succ | errm
					if call, isCall := c.(*ssa.Call); isCall {
						pend = &pendingCall{call, succ, errm}
					}
					// the rule may still attach an event to the call instruction itself
					m2 := r.applyStep(ins, m)
					if m2 != m {
						pend = nil
					}
					m = m2
					continue
				}
			}
			switch t := ins.(type) {
			case *ssa.Return:
				rm := m
				k := classifyReturn(t)
				if pend != nil {
					if idx := errResultIndex(fn.Signature); idx >= 0 && idx < len(t.Results) && errSourceCall(retResult(t, idx)) == pend.call {
						// tail call: success returns carry the callee's success states only
						res.RetKind[t] = RetUnknown
						res.Returns[t] |= rm
						res.tail(t, pend)
						continue
					}
				}
				res.Returns[t] |= rm
				res.RetKind[t] = k
				continue
			case *ssa.If:
				for idx, s := range b.Succs {
					em := m
					if pend != nil {
						if x, trueNonNil, ok := nilTest(t.Cond); ok && errSourceCall(x) == pend.call {
							nonNilEdge := (idx == 0) == trueNonNil
							if nonNilEdge {
								em = pend.err
							} else {
								em = pend.succ
							}
						}
					}
					em = r.applyEdge(b, idx, em)
					if in[s]|em != in[s] {
						in[s] |= em
						if !inWork[s] {
							work = append(work, s)
							inWork[s] = true
						}
					}
				}
				continue
			}
			m2 := r.applyStep(ins, m)
			if m2 != m {
				pend = nil
			}
			m = m2
		}
		if _, isIf := lastInstr(b).(*ssa.If); isIf {
			continue
		}
		for idx, s := range b.Succs {
			em := r.applyEdge(b, idx, m)
			if in[s]|em != in[s] {
				in[s] |= em
				if !inWork[s] {
					work = append(work, s)
					inWork[s] = true
				}
			}
		}
	}
	return res
}

// tailRefinement: returns whose error result is the error of an inlined call.
type tailInfo struct{ succ, err uint64 }

func (res *flowResult) tail(t *ssa.Return, p *pendingCall) {
	if res.tails == nil {
		res.tails = map[*ssa.Return]tailInfo{}
	}
	ti := res.tails[t]
	ti.succ |= p.succ
	ti.err |= p.err
	res.tails[t] = ti
}

// successMask returns the union of states at returns that may be successes;
// errMask likewise for returns that may be errors.
func (res *flowResult) exitMasks() (succ, errm uint64) {
	for t, m := range res.Returns {
		if ti, ok := res.tails[t]; ok {
			succ |= ti.succ
			errm |= ti.err
			continue
		}
		switch res.RetKind[t] {
		case RetSuccess:
			succ |= m
		case RetError:
			errm |= m
		default:
			succ |= m
			errm |= m
		}
	}
	return
}

// successReturns lists (return, mask) for every return that may be a success.
func (res *flowResult) successReturns() map[*ssa.Return]uint64 {
	out := map[*ssa.Return]uint64{}
	for t, m := range res.Returns {
		if ti, ok := res.tails[t]; ok {
			if ti.succ != 0 {
				out[t] = ti.succ
			}
			continue
		}
		if res.RetKind[t] != RetError {
			out[t] = m
		}
	}
	return out
}

func (r *flowRule) summarise(fn *ssa.Function, s int, depth int) *summary {
	k := sumKey{fn, s}
	if sm, ok := r.memo[k]; ok {
		return sm
	}
	if r.active[k] {
		r.Recursive = true
		return &summary{}
	}
	if depth > r.maxDepth {
		r.TooDeep = append(r.TooDeep, fnName(fn))
		// identity summary; the rule reports undecided via TooDeep
		return &summary{succ: 1 << uint(s), err: 1 << uint(s)}
	}
	r.active[k] = true
	res := r.run(fn, 1<<uint(s), depth)
	succ, errm := res.exitMasks()
	delete(r.active, k)
	sm := &summary{succ, errm}
	r.memo[k] = sm
	return sm
}

// ---- convenience: must-pass-through ----------------------------------------------

// trailTo returns a shortest block trail from entry to b (for reports).
func trailTo(w *World, b *ssa.BasicBlock) []string {
	fn := b.Parent()
	prev := map[*ssa.BasicBlock]*ssa.BasicBlock{}
	seen := map[*ssa.BasicBlock]bool{fn.Blocks[0]: true}
	q := []*ssa.BasicBlock{fn.Blocks[0]}
	for len(q) > 0 {
		x := q[0]
		q = q[1:]
		if x == b {
			break
		}
		for _, s := range x.Succs {
			if !seen[s] {
				seen[s] = true
				prev[s] = x
				q = append(q, s)
			}
		}
	}
	var rev []string
	for x := b; x != nil; x = prev[x] {
		pos := token.NoPos
		for _, i := range x.Instrs {
			if i.Pos().IsValid() {
				pos = i.Pos()
				break
			}
		}
		rev = append(rev, "block "+itoa(x.Index)+" ("+x.Comment+") "+w.relFile(pos))
	}
	for i, j := 0, len(rev)-1; i < j; i, j = i+1, j-1 {
		rev[i], rev[j] = rev[j], rev[i]
	}
	if len(rev) > 12 {
		rev = append(rev[:6], rev[len(rev)-6:]...)
	}
	return rev
}

func itoa(i int) string { return strconv.Itoa(i) }

package main

// C03 — nothing is written outside the byte range a component was given.
// C13 — partition contents are streamed to and from exactly the partition.
// (C06 reuses the start-translation rule for package iso9660.)

import (
	"fmt"
	"go/token"
	"go/types"
	"sort"
	"strings"

	"golang.org/x/tools/go/ssa"
)

func init() {
	register("C03", runC03, `Structural clauses of "nothing is written outside the given range", decided statically.
C03-a translation: every device ReadAt/WriteAt of the six filesystem packages is start-relative: either the offset's additive decomposition (through conversions, phis, helper calls and parameters bound to their callers) contains the volume start (field start, Start(), parameter start of Create/Read) exactly once, or the receiver is the backend wrapped by backend.Sub(b, start, size) (raw backend only on the start == 0 edge); a package is uniformly one or the other.
C03-b table extents: the MBR entry-area writes (mbr.Table.Write, GPT protective MBR) use a constant offset >= 446 and a buffer that ends at byte 512; the GPT region offsets depend only on table geometry fields, never on a partition's Start.
C03-c partition stream bound: in both WriteContents the size test (running total + chunk > size => error) dominates the WriteAt inside the loop and the offset is Start*lss + total.
C03-d range end consulted: for the build-then-Finalize filesystems the range size given to Create reaches either a comparison in Finalize or a write wrapper that enforces it.
C03-e SubStorage/subWritable add their offset exactly once in ReadAt/WriteAt and Sub stores its arguments unswapped.
Not covered (arithmetic, not structure): the FAT32 cluster-count rounding overrun and ext4 allocator bounds. Decides these clauses, not the bytes written at run time.`)
	register("C13", runC13, `Structural clauses of partition streaming, decided statically for both part.Partition implementations (gpt, mbr).
C13-a 64-bit conversion: no multiplication/addition/shift on the way from Start/Size/End to an I/O offset, a size comparison or GetStart/GetSize is performed in an integer type narrower than 64 bits, and no narrowing conversion occurs.
C13-b bound before write and incomplete => error: as C03-c (the byte total is compared as it is: no division, shift or mask on that side), plus the total != size test dominating the success return of WriteContents, and the running total advances only by bytes that went through the device write (the count a WriteAt returned, or an addition dominated by that chunk's WriteAt).
C13-c read clamp: the high bound of the slice handed to the output writer in ReadContents depends on the remaining partition bytes.
C13-d GetStart/GetSize use the same fields as the streaming functions.
C13-e verifyBlockCopy compares digests and returns an error on inequality; CopyPartitionRaw propagates read, count and verify errors.
Decides these clauses, not the bytes moved at run time.`)
}

// ---- device I/O sites -----------------------------------------------------------------------

var fsPkgs = []string{"filesystem/fat12", "filesystem/fat16", "filesystem/fat32", "filesystem/ext4", "filesystem/iso9660", "filesystem/squashfs"}

func isBackendType(t types.Type) bool {
	n := namedOf(t)
	if n == nil || n.Obj().Pkg() == nil {
		return false
	}
	return n.Obj().Pkg().Path() == modPath+"/backend" && (n.Obj().Name() == "Storage" || n.Obj().Name() == "File" || n.Obj().Name() == "WritableFile")
}

// deviceIO: is call c (ReadAt/WriteAt) performed on the device (as opposed to a workspace/host file)?
// Decided by provenance of the receiver, parameters bound to their in-module callers up to the package
// constructors: a device root is a field or unbound parameter of a backend interface type, or the result
// of Writable()/backend.Sub; a value that only ever comes from os.Open/OpenFile/Create is a host file.
func (w *World) deviceIO(c ssa.CallInstruction) bool {
	recv := recvOf(c)
	if recv == nil {
		return false
	}
	p := w.prov(recv, provOpts{bindParams: true, bindStop: constructorParam})
	for _, rt := range p.Roots {
		switch rt.Kind {
		case RField:
			if isBackendType(rt.Field.Type()) {
				return true
			}
		case RParam:
			if isBackendType(rt.Param.Type()) {
				return true
			}
		case RCall:
			if rt.Meth != nil && rt.Meth.Name() == "Writable" {
				return true
			}
			if rt.Fn != nil && (rt.Fn.Name() == "Writable" || fullFuncName(rt.Fn) == modPath+"/backend.Sub") {
				return true
			}
		}
	}
	return false
}

// constructorParam: parameters of the package-level Create/Read are the API boundary.
func constructorParam(p *ssa.Parameter) bool {
	fn := p.Parent()
	return fn.Parent() == nil && fn.Signature.Recv() == nil && (fn.Name() == "Create" || fn.Name() == "Read")
}

type ioSite struct {
	fn    *ssa.Function
	call  ssa.CallInstruction
	write bool
}

func (w *World) deviceIOSites(pkg string) []ioSite {
	var out []ioSite
	for _, fn := range w.ModFns {
		if w.pkgOf(fn) != pkg {
			continue
		}
		for _, c := range calls(fn, false, func(c ssa.CallInstruction) bool { return isReadAt(c) || isWriteAt(c) }) {
			if w.deviceIO(c) {
				out = append(out, ioSite{fn, c, isWriteAt(c)})
			}
		}
	}
	return out
}

// ---- start counting -----------------------------------------------------------------------------

type startCount struct {
	w     *World
	memo  map[ssa.Value][2]int
	stack map[ssa.Value]bool
	depth int
}

const manyStarts = 99

// isStartLeaf: v is the volume start itself.
func isStartLeaf(v ssa.Value) bool {
	switch x := v.(type) {
	case *ssa.UnOp:
		// the start field of a filesystem object (a fragment entry or a journal also has a field called start)
		if x.Op == token.MUL {
			if n, f, _, ok := fieldOfAddr(x.X); ok && f.Name() == "start" && n != nil && n.Obj().Name() == "FileSystem" {
				return true
			}
		}
	case *ssa.Field:
		if n, f, _, ok := fieldOfAddr(x); ok && f.Name() == "start" && n != nil && n.Obj().Name() == "FileSystem" {
			return true
		}
	case *ssa.Parameter:
		fn := x.Parent()
		if x.Name() == "start" && fn.Parent() == nil && (fn.Name() == "Create" || fn.Name() == "Read") && fn.Signature.Recv() == nil {
			return true
		}
	case *ssa.Call:
		if callMethodName(x) == "Start" && len(argsOf(x)) == 0 && typeBits(x.Type()) == 64 {
			return true
		}
	}
	return false
}

// count returns the minimum and maximum number of times the volume start is added into v, over all
// alternatives (phi edges, callers, returns).
func (s *startCount) count(v ssa.Value, env map[*ssa.Parameter]ssa.Value, depth int) (int, int) {
	if depth > 12 {
		return 0, 0
	}
	v = stripConv(v)
	if isStartLeaf(v) {
		return 1, 1
	}
	switch x := v.(type) {
	case *ssa.Const:
		return 0, 0
	case *ssa.BinOp:
		switch x.Op {
		case token.ADD:
			a0, a1 := s.count(x.X, env, depth+1)
			b0, b1 := s.count(x.Y, env, depth+1)
			return a0 + b0, a1 + b1
		case token.SUB:
			a0, a1 := s.count(x.X, env, depth+1)
			_, b1 := s.count(x.Y, env, depth+1)
			if b1 > 0 {
				return 0, manyStarts // start subtracted: not a plain translation
			}
			return a0, a1
		default:
			// multiplicative / bitwise use of start is not a translation
			_, a1 := s.count(x.X, env, depth+1)
			_, b1 := s.count(x.Y, env, depth+1)
			if a1 > 0 || b1 > 0 {
				return 0, manyStarts
			}
			return 0, 0
		}
	case *ssa.Phi:
		if s.stack[x] {
			return -1, -1 // loop-carried: ignore this edge
		}
		s.stack[x] = true
		defer delete(s.stack, x)
		lo, hi := manyStarts, 0
		n := 0
		for _, e := range x.Edges {
			a, b := s.count(e, env, depth+1)
			if a < 0 {
				continue
			}
			n++
			if a < lo {
				lo = a
			}
			if b > hi {
				hi = b
			}
		}
		if n == 0 {
			return 0, 0
		}
		return lo, hi
	case *ssa.Parameter:
		if a, ok := env[x]; ok {
			return s.count(a, nil, depth+1)
		}
		// bind to the actuals at every in-module call site
		fn := x.Parent()
		idx := -1
		for i, p := range fn.Params {
			if p == x {
				idx = i
			}
		}
		node := s.w.CHA().Nodes[fn]
		lo, hi := manyStarts, 0
		n := 0
		if node != nil && idx >= 0 {
			for _, e := range node.In {
				if e.Site == nil || !s.w.fnSet[e.Caller.Func] || !s.w.libraryFn(e.Caller.Func) {
					continue
				}
				cc := e.Site.Common()
				var actual ssa.Value
				if cc.IsInvoke() {
					if idx >= 1 && idx-1 < len(cc.Args) {
						actual = cc.Args[idx-1]
					}
				} else if idx < len(cc.Args) {
					actual = cc.Args[idx]
				}
				if actual == nil {
					continue
				}
				if s.stack[actual] {
					continue
				}
				s.stack[actual] = true
				a, b := s.count(actual, nil, depth+1)
				delete(s.stack, actual)
				if a < 0 {
					continue
				}
				n++
				if a < lo {
					lo = a
				}
				if b > hi {
					hi = b
				}
			}
		}
		if n == 0 {
			return 0, 0
		}
		return lo, hi
	case *ssa.Call:
		g := x.Call.StaticCallee()
		if g != nil && s.w.fnSet[g] && g.Blocks != nil && typeBits(x.Type()) > 0 {
			e2 := map[*ssa.Parameter]ssa.Value{}
			for i, a := range x.Call.Args {
				if i < len(g.Params) {
					e2[g.Params[i]] = a
				}
			}
			lo, hi := manyStarts, 0
			n := 0
			for _, ret := range returnsOf(g) {
				if len(ret.Results) == 0 {
					continue
				}
				a, b := s.count(ret.Results[0], e2, depth+1)
				if a < 0 {
					continue
				}
				n++
				if a < lo {
					lo = a
				}
				if b > hi {
					hi = b
				}
			}
			if n > 0 {
				return lo, hi
			}
		}
		return 0, 0
	case *ssa.Extract:
		if c, ok := x.Tuple.(*ssa.Call); ok {
			g := c.Call.StaticCallee()
			if g != nil && s.w.fnSet[g] && g.Blocks != nil {
				e2 := map[*ssa.Parameter]ssa.Value{}
				for i, a := range c.Call.Args {
					if i < len(g.Params) {
						e2[g.Params[i]] = a
					}
				}
				lo, hi := manyStarts, 0
				n := 0
				for _, ret := range returnsOf(g) {
					if x.Index >= len(ret.Results) {
						continue
					}
					a, b := s.count(ret.Results[x.Index], e2, depth+1)
					if a < 0 {
						continue
					}
					n++
					if a < lo {
						lo = a
					}
					if b > hi {
						hi = b
					}
				}
				if n > 0 {
					return lo, hi
				}
			}
		}
		return 0, 0
	case *ssa.UnOp:
		if x.Op == token.MUL {
			// load of a local: union over stores
			if al, ok := x.X.(*ssa.Alloc); ok {
				lo, hi := manyStarts, 0
				n := 0
				for _, ref := range *al.Referrers() {
					if st, ok := ref.(*ssa.Store); ok && st.Addr == ssa.Value(al) {
						if s.stack[st.Val] {
							continue
						}
						s.stack[st.Val] = true
						a, b := s.count(st.Val, env, depth+1)
						delete(s.stack, st.Val)
						if a < 0 {
							continue
						}
						n++
						if a < lo {
							lo = a
						}
						if b > hi {
							hi = b
						}
					}
				}
				if n > 0 {
					return lo, hi
				}
			}
		}
		return 0, 0
	}
	return 0, 0
}

// subWrapped: is the receiver of the I/O (through the fs.backend field) the result of backend.Sub, with the
// raw backend only flowing in on the start == 0 edge?
func (w *World) subWrapped(recv ssa.Value) (bool, string) {
	isSub := func(rt Root) bool {
		return rt.Kind == RCall && rt.Fn != nil && fullFuncName(rt.Fn) == modPath+"/backend.Sub"
	}
	p := w.prov(recv, provOpts{deepFields: true, bindParams: true, followCalls: true,
		opaque:   func(f *ssa.Function) bool { return fullFuncName(f) == modPath+"/backend.Sub" },
		bindStop: constructorParam, // what the constructors' callers pass is the raw device
		callThrough: func(c *ssa.Call) ([]ssa.Value, bool) {
			// x.Writable() writes to whatever x is
			if isWritableCall(c) {
				return []ssa.Value{recvOf(c)}, true
			}
			return nil, false
		}})
	hasSub := false
	for _, rt := range p.Roots {
		if isSub(rt) {
			hasSub = true
		}
	}
	if !hasSub {
		return false, "no backend.Sub in the receiver's provenance"
	}
	for _, rt := range p.Roots {
		switch {
		case isSub(rt), rt.Kind == RConst, rt.Kind == RField, rt.Kind == RAlloc:
		case rt.Kind == RCall && rt.Fn != nil && strings.HasPrefix(fullFuncName(rt.Fn), "os."):
			// a host (workspace) file sharing the helper: not the device
		case rt.Kind == RParam:
			// raw backend: only acceptable where it is merged with the Sub result on the start == 0 edge
			if !isBackendType(rt.Param.Type()) {
				continue
			}
			if !w.rawOnlyWhenStartZero(rt.Param) {
				return false, "raw backend parameter " + rt.Param.Name() + " of " + fnName(rt.Param.Parent()) + " reaches device I/O without backend.Sub"
			}
		default:
			return false, "unexpected root " + rt.String()
		}
	}
	return true, "receiver is backend.Sub(b, start, size)"
}

// rawOnlyWhenStartZero: every use of backend parameter p (other than as the argument of backend.Sub, or a
// writability probe) is a phi edge coming from the false edge of `start != 0`.
func (w *World) rawOnlyWhenStartZero(p *ssa.Parameter) bool {
	fn := p.Parent()
	for _, ref := range *p.Referrers() {
		switch x := ref.(type) {
		case *ssa.Call:
			if g := x.Call.StaticCallee(); g != nil && fullFuncName(g) == modPath+"/backend.Sub" {
				continue
			}
			if x.Call.IsInvoke() && x.Call.Value == ssa.Value(p) && (x.Call.Method.Name() == "Writable" || x.Call.Method.Name() == "Stat" || x.Call.Method.Name() == "Path") {
				continue
			}
			return false
		case *ssa.Phi:
			for i, e := range x.Edges {
				if e != ssa.Value(p) {
					continue
				}
				pred := x.Block().Preds[i]
				iff, ok := lastInstr(pred).(*ssa.If)
				if !ok {
					return false
				}
				bin, ok := iff.Cond.(*ssa.BinOp)
				if !ok {
					return false
				}
				z, isC := constInt(bin.Y)
				sp, isP := stripConv(bin.X).(*ssa.Parameter)
				if !isC || z != 0 || !isP || sp.Name() != "start" || sp.Parent() != fn {
					return false
				}
				// edge taken must be the "start == 0" one
				var zeroIdx int
				switch bin.Op {
				case token.NEQ:
					zeroIdx = 1
				case token.EQL:
					zeroIdx = 0
				default:
					return false
				}
				if pred.Succs[zeroIdx] != x.Block() {
					return false
				}
			}
		case *ssa.DebugRef:
		default:
			return false
		}
	}
	return true
}

// c03Translation runs rule C03-a for one package and returns (sites, violations).
func c03Translation(w *World, r *Report, rule, pkg string) int {
	sites := w.deviceIOSites(pkg)
	sc := &startCount{w: w, memo: map[ssa.Value][2]int{}, stack: map[ssa.Value]bool{}}
	// package mode: does the constructor wrap with backend.Sub?
	usesSub := false
	for _, name := range []string{"Create", "Read"} {
		if f := w.FuncOpt(pkg, name); f != nil {
			if len(calls(f, false, func(c ssa.CallInstruction) bool {
				g := c.Common().StaticCallee()
				return g != nil && fullFuncName(g) == modPath+"/backend.Sub"
			})) > 0 {
				usesSub = true
			}
		}
	}
	for _, s := range sites {
		kind := "ReadAt"
		if s.write {
			kind = "WriteAt"
		}
		cons := kind + " #" + ordinal(s.fn, s.call)
		off := argsOf(s.call)[1]
		lo, hi := sc.count(off, nil, 0)
		at := w.relFile(s.call.Pos())
		name := fnName(s.fn)
		if usesSub {
			okSub, why := w.subWrapped(recvOf(s.call))
			switch {
			case !okSub:
				r.Fail(rule, name, cons, at, "package wraps its backend with backend.Sub, but this device I/O is not on the wrapped backend: "+why)
			case hi > 0:
				r.Fail(rule, name, cons, at, "device I/O on the Sub-wrapped backend adds the volume start again (translated twice)")
			default:
				r.Ok(rule, name, cons, at, "Sub-wrapped receiver; offset is volume-relative")
			}
			continue
		}
		switch {
		case lo == 1 && hi == 1:
			r.Ok(rule, name, cons, at, "offset contains the volume start exactly once")
		case hi == 0:
			r.Fail(rule, name, cons, at, "device I/O at an offset that does not include the volume start: a filesystem placed at start > 0 reads/writes outside its range (offset = "+shortVal(off)+")")
		default:
			r.Fail(rule, name, cons, at, fmt.Sprintf("the volume start is added %d..%d times into the offset on different paths/callers (must be exactly once)", lo, hi))
		}
	}
	return len(sites)
}

func runC03(w *World, r *Report) {
	total := 0
	for _, pkg := range fsPkgs {
		total += c03Translation(w, r, "C03-a", pkg)
	}
	r.Floor("C03-a", total, 90)
	c03TableExtents(w, r)
	// the GPT region writes, classified and checked for exact array bytes by the C09 write-side analysis
	{
		gw := w.Method("partition/gpt", "Table", "Write")
		sub := newReport("C03", r.Tier)
		c09Write(w, sub, gw, c09FindRoles(w, gw))
		for _, o := range sub.Obls {
			if o.Rule != "C09-a" {
				continue
			}
			o.Rule = "C03-b"
			if _, dup := r.seen[o.Key()]; !dup {
				r.Obls = append(r.Obls, o)
				r.seen[o.Key()] = o
			}
		}
	}
	c03StreamBound(w, r, "C03-c")
	c03RangeEnd(w, r)
	c03SubStorage(w, r)
	sysUses(w, r, "C03-a", "the raw *os.File from Sys() is not translated by backend.Sub, so I/O through it ignores the range the component was given: ")
	r.Floor("C03-b", r.countRule("C03-b"), 6)
	r.Floor("C03-c", r.countRule("C03-c"), 4)
	r.Floor("C03-e", r.countRule("C03-e"), 5)
	r.Assume("callers of exported helpers outside the module pass volume-relative values as documented")
}

// ---- C03-b ----------------------------------------------------------------------------------------

func c03TableExtents(w *World, r *Report) {
	// mbr.Table.Write
	mw := w.Method("partition/mbr", "Table", "Write")
	for _, c := range calls(mw, true, isWriteAt) {
		c03CheckMBRArea(w, r, mw, c, argsOf(c)[0], argsOf(c)[1])
	}
	if len(calls(mw, true, isWriteAt)) == 0 {
		r.Fail("C03-b", fnName(mw), "MBR entry-area write", w.relFile(mw.Pos()), "no device write found in mbr.Table.Write")
	}
	// gpt.Table.Write: reuse the C09 classification
	gw := w.Method("partition/gpt", "Table", "Write")
	roles := c09FindRoles(w, gw)
	for _, c := range calls(gw, false, func(c ssa.CallInstruction) bool { return true }) {
		var data, off ssa.Value
		if isWriteAt(c) {
			data, off = argsOf(c)[0], argsOf(c)[1]
		} else if g := c.Common().StaticCallee(); g != nil && w.fnSet[g] {
			wc := calls(g, true, isWriteAt)
			if len(wc) != 1 {
				continue
			}
			a := argsOf(wc[0])
			di, oi := paramIndex(g, a[0]), paramIndex(g, a[1])
			if di < 0 || oi < 0 {
				continue
			}
			data, off = c.Common().Args[di], c.Common().Args[oi]
		} else {
			continue
		}
		cls, _ := c09Classify(w, gw, roles, data, off, nil)
		if cls == clsM {
			c03CheckMBRArea(w, r, gw, c, data, off)
			continue
		}
		// region offsets depend on table geometry only
		p := w.prov(off, provOpts{followCalls: true})
		var bad []string
		for _, rt := range p.Roots {
			switch rt.Kind {
			case RConst:
			case RField:
				if rt.Owner == nil || rt.Owner.Obj().Name() != "Table" {
					bad = append(bad, rt.String())
				}
			default:
				bad = append(bad, rt.String())
			}
		}
		r.Check(len(bad) == 0, "C03-b", fnName(gw), "region write "+cls.String()+" offset from table geometry", w.relFile(c.Pos()),
			strings.Join(p.rootStrings(), ","), "GPT region offset depends on something other than table geometry: "+strings.Join(bad, ","))
	}
}

func c03CheckMBRArea(w *World, r *Report, fn *ssa.Function, c ssa.CallInstruction, data, off ssa.Value) {
	o, isC := constInt(stripConv(off))
	if !isC {
		r.Fail("C03-b", fnName(fn), "MBR entry-area write", w.relFile(c.Pos()), "the MBR entry-area write does not use a constant offset")
		return
	}
	// upper bound of the buffer length: constant slice window or constant capacity
	maxLen := int64(-1)
	p := w.prov(data, provOpts{followCalls: true})
	for _, rt := range p.Roots {
		if ms, ok := rt.Val.(*ssa.MakeSlice); ok {
			if cp, ok := constInt(ms.Cap); ok {
				if cp > maxLen {
					maxLen = cp
				}
			}
		}
		if al, ok := rt.Val.(*ssa.Alloc); ok {
			// make([]byte, const) is lowered to new [N]byte + slice
			if arr, ok := deref(al.Type()).Underlying().(*types.Array); ok && arr.Len() > maxLen {
				maxLen = arr.Len()
			}
		}
	}
	// a slice expression data = full[lo:] narrows the window
	lowSum := int64(0)
	var walk func(v ssa.Value, d int)
	walk = func(v ssa.Value, d int) {
		if d > 6 {
			return
		}
		if sl, ok := v.(*ssa.Slice); ok {
			if sl.Low != nil {
				if l, ok := constInt(sl.Low); ok {
					lowSum += l
				}
			}
			walk(sl.X, d+1)
		}
	}
	walk(data, 0)
	end := o + maxLen - lowSum
	good := o >= 446 && o < 512 && maxLen > 0 && end <= 512
	r.Check(good, "C03-b", fnName(fn), "MBR entry-area write", w.relFile(c.Pos()),
		fmt.Sprintf("offset %d, buffer of at most %d bytes => ends at %d", o, maxLen-lowSum, end),
		fmt.Sprintf("partition-table write at offset %d with a buffer of up to %d bytes touches bytes outside [446,512) (boot code or the next sector)", o, maxLen-lowSum))
}

// ---- C03-c / C13-b -------------------------------------------------------------------------------

func partitionImpls(w *World) []*types.Named {
	return w.Implementers(w.Iface("partition/part", "Partition"))
}

func c03StreamBound(w *World, r *Report, rule string) {
	for _, n := range partitionImpls(w) {
		wc := w.MethodOf(n, "WriteContents")
		if wc == nil {
			continue
		}
		name := fnName(wc)
		writes := calls(wc, false, isWriteAt)
		if len(writes) == 0 {
			r.Fail(rule, name, "bounded write", w.relFile(wc.Pos()), "no device write found")
			continue
		}
		for _, c := range writes {
			// an If `a > b` (true edge => error return) whose false edge dominates the write, with a depending on the
			// chunk just read and b on the partition size
			found := false
			lossyAt := ""
			for _, b := range wc.Blocks {
				iff, ok := lastInstr(b).(*ssa.If)
				if !ok {
					continue
				}
				bin, ok := iff.Cond.(*ssa.BinOp)
				if !ok {
					continue
				}
				var big, small ssa.Value
				errIdx := 0
				switch bin.Op {
				case token.GTR:
					big, small = bin.X, bin.Y
				case token.LSS:
					big, small = bin.Y, bin.X
				case token.LEQ:
					big, small, errIdx = bin.Y, bin.X, 1
				case token.GEQ:
					// a >= b false edge means a < b; written as `size >= total` ok edge
					big, small, errIdx = bin.X, bin.Y, 1
					big, small = small, big
				default:
					continue
				}
				pb := w.prov(big, provOpts{})
				ps := w.prov(small, c13Opts)
				dependsRead := pb.hasCallNamed("Read")
				dependsSize := ps.hasField("", "Size") || ps.hasField("", "End")
				if !dependsRead || !dependsSize {
					continue
				}
				// the byte total must be compared as it is: a division or shift on that side (comparing in sectors)
				// rounds down and lets up to a sector of excess through
				lossy := false
				for _, bo := range pb.BinOps {
					if bo.Op == token.QUO || bo.Op == token.SHR || bo.Op == token.REM || bo.Op == token.AND || bo.Op == token.AND_NOT {
						lossy = true
					}
				}
				if lossy {
					lossyAt = w.relFile(instrPos(iff))
					continue
				}
				if edgeDominates(b, 1-errIdx, c.Block()) && blockLeadsToErrorReturn(b.Succs[errIdx], 0) {
					found = true
				}
			}
			why := "the device write is reachable without the (total + chunk > partition size) test: data can be written past the end of the partition"
			if !found && lossyAt != "" {
				why = "the only size test before the device write (" + lossyAt + ") compares a rounded-down quantity (the byte total divided, shifted or masked): contents that exceed the partition by less than the rounding unit pass it and their tail is written into whatever follows the partition"
			}
			r.Check(found, rule, name, "size test dominates WriteAt #"+ordinal(wc, c), w.relFile(c.Pos()),
				"running total + chunk > size => error, on every path to the write", why)
			// offset = Start*lss + total
			off := argsOf(c)[1]
			po := w.prov(off, c13Opts)
			hasStart := po.hasField("", "Start") || po.hasCallNamed("GetStart")
			hasTotal := false
			hasStart = false
			for _, t := range addends(off) {
				if t.neg {
					continue
				}
				pt := w.prov(t.v, c13Opts)
				if pt.hasField("", "Start") || pt.hasCallNamed("GetStart") {
					hasStart = true
				} else if pt.hasCallNamed("WriteAt") {
					// the running total: accumulated from the counts WriteAt returned
					hasTotal = true
				}
			}
			r.Check(hasStart && hasTotal, rule, name, "offset = partition start + bytes written so far #"+ordinal(wc, c), w.relFile(c.Pos()),
				"", "the write offset is not (partition Start * sector size) + running total: roots "+strings.Join(po.rootStrings(), ","))
		}
	}
}

// ---- C03-d -----------------------------------------------------------------------------------------

func c03RangeEnd(w *World, r *Report) {
	for _, pkg := range []string{"filesystem/iso9660", "filesystem/squashfs"} {
		fsT := w.Named(pkg, "FileSystem")
		fin := w.MethodOf(fsT, "Finalize")
		if fin == nil {
			fatalf("C03-d: %s Finalize not found", pkg)
		}
		// (1) the size field is compared somewhere reachable from Finalize, or (2) the backend is Sub-wrapped and
		// the wrapper enforces its size on writes.
		reach := w.reachableFrom([]*ssa.Function{fin}, func(f *ssa.Function) bool { return w.pkgOf(f) == pkg })
		compared := ""
		for f := range reach {
			allInstrs(f, func(ins ssa.Instruction) {
				bin, ok := ins.(*ssa.BinOp)
				if !ok {
					return
				}
				switch bin.Op {
				case token.GTR, token.LSS, token.GEQ, token.LEQ:
					for _, side := range []ssa.Value{bin.X, bin.Y} {
						if p := w.prov(side, provOpts{}); p.hasField("FileSystem", "size") {
							compared = w.relFile(instrPos(bin))
						}
					}
				}
			})
		}
		enforced := c03SubWritableEnforcesSize(w)
		create := w.Func(pkg, "Create")
		wrapsAlways := false
		for _, c := range calls(create, false, func(c ssa.CallInstruction) bool {
			g := c.Common().StaticCallee()
			return g != nil && fullFuncName(g) == modPath+"/backend.Sub"
		}) {
			// unconditional wrapping: the call dominates every success return
			all := true
			for _, ret := range returnsOf(create) {
				if classifyReturn(ret) != RetError && !c.Block().Dominates(ret.Block()) {
					all = false
				}
			}
			wrapsAlways = all
		}
		good := compared != "" || (enforced && wrapsAlways)
		why := "FileSystem.size is compared at " + compared
		if compared == "" {
			why = "writes go through a Sub wrapper that enforces the size"
		}
		r.Check(good, "C03-d", fnName(fin), "range end consulted", w.relFile(fin.Pos()), why,
			"the size of the range given to Create is never compared and no write wrapper enforces it: a tree larger than the range is written past its end")
	}
}

// c03SubWritableEnforcesSize: does subWritable.WriteAt compare against its size field before writing?
func c03SubWritableEnforcesSize(w *World) bool {
	m := w.MethodOpt("backend", "subWritable", "WriteAt")
	if m == nil {
		return false
	}
	ok := false
	allInstrs(m, func(ins ssa.Instruction) {
		bin, isB := ins.(*ssa.BinOp)
		if !isB {
			return
		}
		switch bin.Op {
		case token.GTR, token.LSS, token.GEQ, token.LEQ:
			for _, side := range []ssa.Value{bin.X, bin.Y} {
				if p := w.prov(side, provOpts{}); p.hasField("subWritable", "size") {
					ok = true
				}
			}
		}
	})
	return ok
}

// ---- C03-e -----------------------------------------------------------------------------------------

func c03SubStorage(w *World, r *Report) {
	for _, tn := range []string{"SubStorage", "subWritable"} {
		for _, mn := range []string{"ReadAt", "WriteAt"} {
			m := w.MethodOpt("backend", tn, mn)
			if m == nil {
				continue
			}
			for _, c := range calls(m, false, func(c ssa.CallInstruction) bool { return isReadAt(c) || isWriteAt(c) }) {
				off := argsOf(c)[1]
				nOff, nParam := 0, 0
				bad := false
				for _, t := range addends(off) {
					v := stripConv(t.v)
					if t.neg {
						bad = true
					}
					if ld, ok := v.(*ssa.UnOp); ok && ld.Op == token.MUL {
						if _, f, _, ok := fieldOfAddr(ld.X); ok && f.Name() == "offset" {
							nOff++
							continue
						}
					}
					if fv, ok := v.(*ssa.Field); ok {
						if _, f, _, ok := fieldOfAddr(fv); ok && f.Name() == "offset" {
							nOff++
							continue
						}
					}
					if p, ok := v.(*ssa.Parameter); ok && typeBits(p.Type()) == 64 {
						nParam++
						continue
					}
					bad = true
				}
				r.Check(!bad && nOff == 1 && nParam == 1, "C03-e", fnName(m), "offset = own offset + caller offset", w.relFile(c.Pos()),
					"", fmt.Sprintf("the forwarded offset is not (sub-range offset + requested offset): offset terms=%d, parameter terms=%d", nOff, nParam))
				// forwards the same method kind
				r.Check(isWriteAt(c) == (mn == "WriteAt"), "C03-e", fnName(m), "forwards to the same operation", w.relFile(c.Pos()), "", mn+" forwards to a different operation")
			}
		}
	}
	sub := w.Func("backend", "Sub")
	// Sub(u, offset, size) stores offset->offset, size->size
	want := map[string]string{"offset": "offset", "size": "size", "underlying": "u"}
	got := map[string]string{}
	allInstrs(sub, func(ins ssa.Instruction) {
		st, ok := ins.(*ssa.Store)
		if !ok {
			return
		}
		if _, f, _, ok := fieldOfAddr(st.Addr); ok {
			if p, isP := stripConv(st.Val).(*ssa.Parameter); isP {
				got[f.Name()] = p.Name()
			} else if mi, isMI := st.Val.(*ssa.MakeInterface); isMI {
				if p, isP := mi.X.(*ssa.Parameter); isP {
					got[f.Name()] = p.Name()
				}
			}
		}
	})
	okAll := true
	var diffs []string
	for f, p := range want {
		if got[f] != p {
			okAll = false
			diffs = append(diffs, fmt.Sprintf("%s<-%s", f, got[f]))
		}
	}
	sort.Strings(diffs)
	r.Check(okAll, "C03-e", fnName(sub), "Sub stores offset and size unswapped", w.relFile(sub.Pos()), "", "backend.Sub assigns its arguments to the wrong fields: "+strings.Join(diffs, ","))
	// Writable() of SubStorage propagates offset and size into the writable wrapper
	wm := w.MethodOpt("backend", "SubStorage", "Writable")
	if wm != nil {
		got := map[string]string{}
		allInstrs(wm, func(ins ssa.Instruction) {
			st, ok := ins.(*ssa.Store)
			if !ok {
				return
			}
			if _, f, _, ok := fieldOfAddr(st.Addr); ok {
				p := w.prov(st.Val, provOpts{})
				for _, rt := range p.Roots {
					if rt.Kind == RField {
						got[f.Name()] = rt.Field.Name()
					}
				}
			}
		})
		r.Check(got["offset"] == "offset" && got["size"] == "size", "C03-e", fnName(wm), "writable wrapper inherits offset and size", w.relFile(wm.Pos()), "",
			fmt.Sprintf("SubStorage.Writable builds its wrapper with offset<-%s size<-%s", got["offset"], got["size"]))
		// the wrapped writer is exactly what the underlying storage's Writable() returned (no unwrapping that would
		// drop an outer translation)
		allInstrs(wm, func(ins ssa.Instruction) {
			st, ok := ins.(*ssa.Store)
			if !ok {
				return
			}
			if _, f, _, ok := fieldOfAddr(st.Addr); ok && f.Name() == "underlying" {
				p := w.prov(st.Val, provOpts{})
				only := len(p.Roots) > 0
				for _, rt := range p.Roots {
					if !(rt.Kind == RCall && rt.Meth != nil && rt.Meth.Name() == "Writable") {
						only = false
					}
				}
				r.Check(only, "C03-e", fnName(wm), "wrapper writes through the underlying Writable() result", w.relFile(st.Pos()), "",
					"the writable wrapper's target is not simply the underlying storage's Writable(): "+strings.Join(p.rootStrings(), ","))
			}
		})
	}
}

// ---- C13 -------------------------------------------------------------------------------------------

func runC13(w *World, r *Report) {
	c13Width(w, r)
	c03StreamBound(w, r, "C13-b")
	c13TotalCountsWrites(w, r)
	c13Incomplete(w, r)
	c13EveryChunkHandled(w, r)
	c13PassThrough(w, r)
	c13ReadClamp(w, r)
	c13Getters(w, r)
	c13Verify(w, r)
	r.Floor("C13-a", r.countRule("C13-a"), 8)
	r.Floor("C13-b", r.countRule("C13-b"), 6)
	r.Floor("C13-c", r.countRule("C13-c"), 2)
	r.Floor("C13-e", r.countRule("C13-e"), 3)
}

// c13Opts: geometry may reach a use through the package's own getters and small helpers (GetStart(), GetSize(),
// a sectors-to-bytes helper): follow their results and bind their parameters to the actuals.
var c13Opts = provOpts{followCalls: true, bindParams: true}

func c13Width(w *World, r *Report) {
	for _, n := range partitionImpls(w) {
		for _, mn := range []string{"WriteContents", "ReadContents", "GetStart", "GetSize"} {
			m := w.MethodOf(n, mn)
			if m == nil {
				continue
			}
			name := fnName(m)
			var bad []string
			// the method and the in-package helpers it calls (a sectors-to-bytes helper shared by the getters)
			scope := []*ssa.Function{m}
			for _, c := range calls(m, false, func(c ssa.CallInstruction) bool { return true }) {
				if g := c.Common().StaticCallee(); g != nil && w.fnSet[g] && w.pkgOf(g) == w.pkgOf(m) && g.Blocks != nil && g != m {
					dup := false
					for _, x := range scope {
						if x == g {
							dup = true
						}
					}
					if !dup {
						scope = append(scope, g)
					}
				}
			}
			for _, fnx := range scope {
				allInstrs(fnx, func(ins ssa.Instruction) {
					switch x := ins.(type) {
					case *ssa.BinOp:
						if x.Op != token.MUL && x.Op != token.ADD && x.Op != token.SHL {
							return
						}
						bits := typeBits(x.Type())
						if bits == 0 || bits >= 64 {
							return
						}
						p := w.prov(x, c13Opts)
						if p.hasField("", "Start") || p.hasField("", "Size") || p.hasField("", "End") {
							bad = append(bad, fmt.Sprintf("%s in %d bits at %s", x.Op, bits, w.relFile(instrPos(x))))
						}
					case *ssa.Convert:
						to, from := typeBits(x.Type()), typeBits(x.X.Type())
						if to == 0 || from == 0 || to >= from {
							return
						}
						p := w.prov(x.X, c13Opts)
						if p.hasField("", "Start") || p.hasField("", "Size") || p.hasField("", "End") {
							bad = append(bad, fmt.Sprintf("narrowing %d->%d bits at %s", from, to, w.relFile(instrPos(x))))
						}
					}
				})
			}
			bad = uniq(bad)
			r.Check(len(bad) == 0, "C13-a", name, "LBA arithmetic in 64 bits", w.relFile(m.Pos()), "no sub-64-bit *,+,<< or narrowing on values derived from Start/Size/End",
				"sector-to-byte arithmetic is performed in a type narrower than 64 bits and wraps for partitions beyond 4 GiB: "+strings.Join(bad, "; "))
		}
	}
}

func c13Incomplete(w *World, r *Report) {
	for _, n := range partitionImpls(w) {
		wc := w.MethodOf(n, "WriteContents")
		if wc == nil {
			continue
		}
		name := fnName(wc)
		// every success return is dominated by the equal edge of a total != size comparison
		bad := mustPass(w, wc, nil, func(b *ssa.BasicBlock, idx int) bool {
			iff, ok := lastInstr(b).(*ssa.If)
			if !ok {
				return false
			}
			x, y, eqIdx, ok := eqEdge(iff)
			if !ok || idx != eqIdx {
				return false
			}
			px, py := w.prov(x, c13Opts), w.prov(y, c13Opts)
			sizeSide := func(p *Prov) bool { return p.hasField("", "Size") }
			totalSide := func(p *Prov) bool { return p.hasCallNamed("WriteAt") }
			return (sizeSide(px) && totalSide(py)) || (sizeSide(py) && totalSide(px))
		})
		if len(bad) == 0 {
			r.Ok("C13-b", name, "success requires total == size", w.relFile(wc.Pos()), "")
		}
		for _, ret := range bad {
			r.Fail("C13-b", name, "success requires total == size", w.relFile(instrPos(ret)), "WriteContents can return success although fewer bytes than the partition size were supplied")
		}
	}
}

func c13ReadClamp(w *World, r *Report) {
	for _, n := range partitionImpls(w) {
		rc := w.MethodOf(n, "ReadContents")
		if rc == nil {
			continue
		}
		name := fnName(rc)
		outs := calls(rc, false, func(c ssa.CallInstruction) bool { return methodCallSig(c, "Write", 1, 2) })
		if len(outs) == 0 {
			r.Fail("C13-c", name, "output write", w.relFile(rc.Pos()), "ReadContents does not write to its output")
			continue
		}
		for _, c := range outs {
			data := argsOf(c)[0]
			// the number of bytes handed over depends on size (remaining): either the slice's high bound or the
			// length of the buffer read into depends on the partition size
			p := w.prov(data, c13Opts)
			dep := false
			var visit func(v ssa.Value, d int)
			visit = func(v ssa.Value, d int) {
				if d > 8 || dep {
					return
				}
				if sl, ok := v.(*ssa.Slice); ok {
					if sl.High != nil {
						ph := w.prov(sl.High, c13Opts)
						if ph.hasField("", "Size") || ph.hasCallNamed("GetSize") || ph.hasField("", "End") || c13DependsOnSizeByControl(w, rc, sl.High) {
							dep = true
						}
					}
					visit(sl.X, d+1)
				}
			}
			visit(data, 0)
			// or the ReadAt itself reads only the remaining bytes
			for _, rd := range calls(rc, false, isReadAt) {
				buf := argsOf(rd)[0]
				if sl, ok := buf.(*ssa.Slice); ok && sl.High != nil {
					ph := w.prov(sl.High, c13Opts)
					if ph.hasField("", "Size") || ph.hasCallNamed("GetSize") || c13DependsOnSizeByControl(w, rc, sl.High) {
						dep = true
					}
				}
			}
			_ = p
			why := "slice bound depends on partition size"
			if !dep {
				if v, ok := c13ChunkEqualsSector(w, rc); ok {
					dep = true
					why = fmt.Sprintf("chunk length and sector multiplier are both the constant %d on every path (deep provenance), so the chunk divides the size", v)
				}
			}
			r.Check(dep, "C13-c", name, "bytes handed to the writer are clamped by the remaining size #"+ordinal(rc, c), w.relFile(c.Pos()),
				why, "the chunk read with the physical sector size is forwarded whole: a partition whose size is not a multiple of the chunk yields bytes beyond its end")
		}
	}
}

// c13ChunkEqualsSector: the ReadAt buffer length and the multiplier applied to the Size field have
// constant-only deep provenance with one and the same non-zero value.
func c13ChunkEqualsSector(w *World, fn *ssa.Function) (int64, bool) {
	deep := provOpts{deepFields: true, bindParams: true, followCalls: true}
	constSet := func(v ssa.Value) (map[int64]bool, bool) {
		p := w.prov(v, deep)
		out := map[int64]bool{}
		if p.Truncated || len(p.Roots) == 0 {
			return nil, false
		}
		for _, rt := range p.Roots {
			switch rt.Kind {
			case RConst:
				if c, ok := constInt(rt.Val); ok {
					if c != 0 {
						out[c] = true
					}
				} else {
					return nil, false
				}
			case RField:
				// expanded by deepFields; the field itself carries no value
			default:
				return nil, false
			}
		}
		return out, true
	}
	var chunk, mult map[int64]bool
	for _, rd := range calls(fn, false, isReadAt) {
		p := w.prov(argsOf(rd)[0], c13Opts)
		for _, rt := range p.Roots {
			if ms, ok := rt.Val.(*ssa.MakeSlice); ok {
				if s, ok := constSet(ms.Len); ok {
					chunk = s
				}
			}
		}
	}
	// the sector multiplication may live in a getter or helper the function calls
	mulScope := []*ssa.Function{fn}
	for d := 0; d < 2; d++ {
		for _, f := range append([]*ssa.Function{}, mulScope...) {
			for _, c := range calls(f, false, func(c ssa.CallInstruction) bool { return true }) {
				if g := c.Common().StaticCallee(); g != nil && w.fnSet[g] && w.pkgOf(g) == w.pkgOf(fn) && g.Blocks != nil {
					dup := false
					for _, x := range mulScope {
						if x == g {
							dup = true
						}
					}
					if !dup {
						mulScope = append(mulScope, g)
					}
				}
			}
		}
	}
	for _, mf := range mulScope {
		allInstrs(mf, func(ins ssa.Instruction) {
			b, ok := ins.(*ssa.BinOp)
			if !ok || b.Op != token.MUL {
				return
			}
			px, py := w.prov(b.X, c13Opts), w.prov(b.Y, c13Opts)
			var other ssa.Value
			if px.hasField("", "Size") {
				other = b.Y
			} else if py.hasField("", "Size") {
				other = b.X
			}
			if other != nil {
				if s, ok := constSet(other); ok {
					mult = s
				}
			}
		})
	}
	if len(chunk) == 1 && len(mult) == 1 {
		for c := range chunk {
			if mult[c] {
				return c, true
			}
		}
	}
	return 0, false
}

// c13DependsOnSizeByControl: v is a phi one of whose incoming values is selected under a comparison on size.
func c13DependsOnSizeByControl(w *World, fn *ssa.Function, v ssa.Value) bool {
	ph, ok := stripConv(v).(*ssa.Phi)
	if !ok {
		return false
	}
	for _, pred := range ph.Block().Preds {
		for b := pred; b != nil; b = b.Idom() {
			if iff, ok := lastInstr(b).(*ssa.If); ok {
				p := w.prov(iff.Cond, c13Opts)
				if p.hasField("", "Size") || p.hasCallNamed("GetSize") {
					return true
				}
			}
			if b == ph.Block().Idom() {
				break
			}
		}
	}
	return false
}

func c13Getters(w *World, r *Report) {
	for _, n := range partitionImpls(w) {
		for _, pair := range [][2]string{{"GetStart", "Start"}, {"GetSize", "Size"}} {
			m := w.MethodOf(n, pair[0])
			if m == nil {
				continue
			}
			for _, ret := range returnsOf(m) {
				p := w.prov(ret.Results[0], provOpts{followCalls: true})
				r.Check(p.hasField("", pair[1]), "C13-d", fnName(m), pair[0]+" derives from "+pair[1], w.relFile(instrPos(ret)), strings.Join(p.rootStrings(), ","),
					pair[0]+" does not derive from the partition's "+pair[1]+" field")
			}
		}
	}
}

func c13Verify(w *World, r *Report) {
	vb := w.FuncOpt("sync", "verifyBlockCopy")
	if vb == nil {
		fatalf("C13-e: sync.verifyBlockCopy not found")
	}
	// some comparison of two digests controls an error return
	found := false
	for _, b := range vb.Blocks {
		iff, ok := lastInstr(b).(*ssa.If)
		if !ok {
			continue
		}
		p := w.prov(iff.Cond, provOpts{throughExternal: true})
		digest := p.hasCall(func(rt Root) bool {
			n := ""
			if rt.Fn != nil {
				n = fullFuncName(rt.Fn)
			} else if rt.Meth != nil {
				n = rt.Meth.FullName()
			}
			return strings.Contains(n, "Sum") || strings.Contains(n, "bytes.Equal") || strings.Contains(n, "bytes.Compare")
		})
		if !digest {
			continue
		}
		for idx := range b.Succs {
			if blockLeadsToErrorReturn(b.Succs[idx], 0) {
				found = true
			}
		}
	}
	r.Check(found, "C13-e", fnName(vb), "digest inequality => error", w.relFile(vb.Pos()), "", "verifyBlockCopy does not turn a digest mismatch into an error")
	// the comparison covers all of expectedSize: a chunk count obtained by dividing it must account for the remainder
	// (rounded up, or the remainder taken with %), otherwise a difference in the last partial chunk is never seen
	var exp *ssa.Parameter
	for _, p := range vb.Params {
		if p.Name() == "expectedSize" {
			exp = p
		}
	}
	nq, badq := 0, ""
	if exp != nil {
		allInstrs(vb, func(ins ssa.Instruction) {
			q, ok := ins.(*ssa.BinOp)
			if !ok || q.Op != token.QUO {
				return
			}
			dep := false
			for _, rt := range w.prov(q.X, provOpts{}).Roots {
				if rt.Kind == RParam && rt.Param == exp {
					dep = true
				}
			}
			if !dep {
				return
			}
			nq++
			if quotRounding(q) == "ceil" {
				return
			}
			rem := false
			allInstrs(vb, func(j ssa.Instruction) {
				if m, ok := j.(*ssa.BinOp); ok && m.Op == token.REM {
					for _, rt := range w.prov(m.X, provOpts{}).Roots {
						if rt.Kind == RParam && rt.Param == exp {
							rem = true
						}
					}
				}
			})
			if !rem {
				badq = w.relFile(q.Pos())
			}
		})
	}
	r.Check(badq == "", "C13-e", fnName(vb), "comparison covers the whole expected size", w.relFile(vb.Pos()), fmt.Sprintf("%d divisions of expectedSize", nq),
		"expectedSize is divided into whole chunks at "+badq+" and the remainder is neither rounded up nor handled with %: the last partial chunk of the copy is never compared")
	cp := w.FuncOpt("sync", "CopyPartitionRaw")
	if cp == nil {
		fatalf("C13-e: sync.CopyPartitionRaw not found")
	}
	for _, cc := range calls(cp, false, func(c ssa.CallInstruction) bool {
		if errResultIndex(c.Common().Signature()) < 0 {
			return false
		}
		n := callMethodName(c)
		if n == "ReadContents" || n == "WriteContents" || n == "ReadPartitionContents" || n == "WritePartitionContents" || n == "GetPartition" {
			return true
		}
		g := c.Common().StaticCallee()
		return g != nil && w.fnSet[g] && w.pkgOf(g) == "sync"
	}) {
		c, ok := cc.(*ssa.Call)
		if !ok {
			continue
		}
		ok2, why := errorReachesErrorReturn(c)
		n := callMethodName(c)
		if n == "" {
			n = c.Call.StaticCallee().Name()
		}
		r.Check(ok2, "C13-e", fnName(cp), "error of "+n+" #"+ordinal(cp, c)+" propagated", w.relFile(c.Pos()), why, "CopyPartitionRaw ignores the error of "+n+": "+why)
	}
}

// c13EveryChunkHandled: in WriteContents every chunk obtained from the reader is handled (its count tested
// against zero / written) before the loop can be left towards a success return: a reader may return data
// together with io.EOF.
// c13TotalCountsWrites (C13-b): the running total that WriteContents compares with the partition size and returns is
// advanced only by bytes that went through the device write: every addition that feeds it either adds the count a
// WriteAt returned or lies behind (is dominated by) the WriteAt of that chunk.
func c13TotalCountsWrites(w *World, r *Report) {
	for _, n := range partitionImpls(w) {
		wc := w.MethodOf(n, "WriteContents")
		if wc == nil {
			continue
		}
		name := fnName(wc)
		writes := calls(wc, false, isWriteAt)
		// the accumulator: the phi returned as the count on the success path
		var acc *ssa.Phi
		for _, ret := range returnsOf(wc) {
			if classifyReturn(ret) == RetError || len(ret.Results) == 0 {
				continue
			}
			if ph, ok := stripConv(ret.Results[0]).(*ssa.Phi); ok {
				acc = ph
			}
		}
		if acc == nil || len(writes) == 0 {
			r.Undecided("C13-b", name, "running total counts written bytes", w.relFile(wc.Pos()), "no phi-carried running total returned on success")
			continue
		}
		// additions feeding the accumulator (through nested phis)
		seen := map[ssa.Value]bool{}
		var adds []*ssa.BinOp
		var walk func(v ssa.Value, d int)
		walk = func(v ssa.Value, d int) {
			v = stripConv(v)
			if seen[v] || d > 10 {
				return
			}
			seen[v] = true
			switch x := v.(type) {
			case *ssa.Phi:
				for _, e := range x.Edges {
					walk(e, d+1)
				}
			case *ssa.BinOp:
				if x.Op == token.ADD {
					adds = append(adds, x)
					walk(x.X, d+1)
					walk(x.Y, d+1)
				}
			}
		}
		walk(acc, 0)
		k := 0
		for _, a := range adds {
			// only additions that advance the accumulator itself (acc + x)
			var inc ssa.Value
			if _, ok := stripConv(a.X).(*ssa.Phi); ok && seen[stripConv(a.X)] {
				inc = a.Y
			} else if _, ok := stripConv(a.Y).(*ssa.Phi); ok && seen[stripConv(a.Y)] {
				inc = a.X
			} else {
				continue
			}
			k++
			good := w.prov(inc, provOpts{}).hasCallNamed("WriteAt")
			for _, wr := range writes {
				if wr.Block() == a.Block() || wr.Block().Dominates(a.Block()) {
					good = true
				}
			}
			r.Check(good, "C13-b", name, fmt.Sprintf("running total advances only by written bytes #%d", k), w.relFile(a.Pos()), "",
				"the count WriteContents compares with the partition size and returns is advanced on a path that performs no device write (a chunk is counted but skipped): the partition keeps its previous bytes there while the call reports them written")
		}
		if k == 0 {
			r.Undecided("C13-b", name, "running total counts written bytes", w.relFile(wc.Pos()), "no addition advances the running total")
		}
	}
}

func c13EveryChunkHandled(w *World, r *Report) {
	for _, n := range partitionImpls(w) {
		wc := w.MethodOf(n, "WriteContents")
		if wc == nil {
			continue
		}
		name := fnName(wc)
		var reads []*ssa.Call
		for _, cc := range calls(wc, false, func(c ssa.CallInstruction) bool { return methodCallSig(c, "Read", 1, 2) }) {
			if c, ok := cc.(*ssa.Call); ok {
				reads = append(reads, c)
			}
		}
		if len(reads) == 0 {
			r.Fail("C13-b", name, "reader consumed", w.relFile(wc.Pos()), "WriteContents never reads from its reader")
			continue
		}
		isRead := map[ssa.Instruction]bool{}
		counts := map[ssa.Value]bool{}
		for _, c := range reads {
			isRead[c] = true
			for _, ref := range *c.Referrers() {
				if ex, ok := ref.(*ssa.Extract); ok && ex.Index == 0 {
					counts[ex] = true
				}
			}
		}
		rule := &flowRule{w: w}
		rule.step = func(ins ssa.Instruction, s int) (uint64, bool) {
			if isRead[ins] {
				return 1 << 1, true
			}
			return 0, false
		}
		rule.edge = func(b *ssa.BasicBlock, idx int, s int) (uint64, bool) {
			iff, ok := lastInstr(b).(*ssa.If)
			if !ok {
				return 0, false
			}
			bin, ok := iff.Cond.(*ssa.BinOp)
			if !ok {
				return 0, false
			}
			// count compared with zero: the chunk is being handled
			z, isZ := constInt(bin.Y)
			if isZ && z == 0 && counts[stripConv(bin.X)] {
				return 1 << 0, true
			}
			return 0, false
		}
		res := rule.run(wc, 1, 0)
		bad := 0
		for ret, m := range res.successReturns() {
			if m&(1<<1) != 0 {
				bad++
				r.Fail("C13-b", name, "every chunk read is handled before success", w.relFile(instrPos(ret)),
					"a success return is reachable after a Read whose byte count was never examined: bytes delivered together with io.EOF are dropped (or never counted against the size)", trailTo(w, ret.Block())...)
			}
		}
		if bad == 0 {
			r.Ok("C13-b", name, "every chunk read is handled before success", w.relFile(wc.Pos()), "")
		}
	}
}

// c13PassThrough: Disk.WritePartitionContents / ReadPartitionContents hand the caller's reader/writer to the
// partition unchanged (no wrapper that would hide an oversize or short stream from the size checks).
func c13PassThrough(w *World, r *Report) {
	disk := w.Named("disk", "Disk")
	for _, spec := range []struct{ method, callee, param string }{
		{"WritePartitionContents", "WriteContents", "reader"},
		{"ReadPartitionContents", "ReadContents", "writer"},
	} {
		m := w.MethodOf(disk, spec.method)
		if m == nil {
			fatalf("C13: disk.Disk.%s not found", spec.method)
		}
		var p *ssa.Parameter
		for _, q := range m.Params {
			if q.Name() == spec.param {
				p = q
			}
		}
		n := 0
		for _, cc := range calls(m, false, func(c ssa.CallInstruction) bool { return callMethodName(c) == spec.callee }) {
			n++
			a := argsOf(cc)
			ok := p != nil && len(a) == 2 && a[1] == ssa.Value(p)
			r.Check(ok, "C13-b", fnName(m), "caller's "+spec.param+" is passed to the partition unchanged", w.relFile(cc.Pos()), "",
				"the stream handed to "+spec.callee+" is not the caller's own "+spec.param+": a wrapper can truncate or pad it so that the partition's size checks never see a mismatch")
			if c, isCall := cc.(*ssa.Call); isCall {
				ok2, why := errorIsChecked(c)
				r.Check(ok2, "C13-b", fnName(m), "error of "+spec.callee+" returned", w.relFile(cc.Pos()), why, "the partition's error is dropped: "+why)
			}
		}
		if n == 0 {
			r.Fail("C13-b", fnName(m), "delegates to "+spec.callee, w.relFile(m.Pos()), spec.method+" does not call the partition's "+spec.callee)
		}
	}
}

package main

import (
	"encoding/json"
	"fmt"
	"os"
	"path/filepath"
	"sort"
	"strings"
	"time"
)

type Status string

const (
	Discharged Status = "discharged"
	Violated   Status = "violated"
	Undecided  Status = "undecided"
	Known      Status = "known-finding"
)

// Obl is one obligation: a rule instance on a construct of the source.
type Obl struct {
	Rule      string   `json:"rule"`
	Function  string   `json:"function"`
	Construct string   `json:"construct"`
	Status    Status   `json:"status"`
	At        string   `json:"at"`
	Detail    string   `json:"detail,omitempty"`
	Trail     []string `json:"trail,omitempty"`
}

func (o *Obl) Key() string { return o.Rule + "|" + o.Function + "|" + o.Construct }

type Report struct {
	Prop        string
	Tier        string
	Obls        []*Obl
	seen        map[string]*Obl
	Notes       []string // observations (not violations)
	Assumptions []string
	Explanation string
	Analysed    map[string]bool // functions looked at
	Extra       map[string]any
	floors      []string
}

func newReport(prop, tier string) *Report {
	return &Report{Prop: prop, Tier: tier, seen: map[string]*Obl{}, Analysed: map[string]bool{}, Extra: map[string]any{}}
}

func (r *Report) add(st Status, rule, fn, construct, at, detail string, trail ...string) *Obl {
	o := &Obl{Rule: rule, Function: fn, Construct: construct, Status: st, At: at, Detail: detail, Trail: trail}
	if prev, ok := r.seen[o.Key()]; ok {
		// same construct reported twice: the worse status wins
		if rank(st) > rank(prev.Status) {
			prev.Status, prev.Detail, prev.At, prev.Trail = st, detail, at, trail
		}
		return prev
	}
	r.seen[o.Key()] = o
	r.Obls = append(r.Obls, o)
	if fn != "" {
		r.Analysed[fn] = true
	}
	return o
}

func rank(s Status) int {
	switch s {
	case Discharged:
		return 0
	case Known:
		return 1
	case Undecided:
		return 2
	default:
		return 3
	}
}

func (r *Report) Ok(rule, fn, construct, at, detail string) {
	r.add(Discharged, rule, fn, construct, at, detail)
}
func (r *Report) Fail(rule, fn, construct, at, detail string, trail ...string) {
	r.add(Violated, rule, fn, construct, at, detail, trail...)
}
func (r *Report) Undecided(rule, fn, construct, at, detail string) {
	r.add(Undecided, rule, fn, construct, at, detail)
}

// Check is a convenience: ok ? Ok : Fail.
func (r *Report) Check(ok bool, rule, fn, construct, at, okDetail, failDetail string) {
	if ok {
		r.Ok(rule, fn, construct, at, okDetail)
	} else {
		r.Fail(rule, fn, construct, at, failDetail)
	}
}

func (r *Report) Note(format string, a ...any) { r.Notes = append(r.Notes, fmt.Sprintf(format, a...)) }
func (r *Report) Assume(s string)              { r.Assumptions = append(r.Assumptions, s) }

// Floor fails the run (exit 2) when a rule matched fewer instances than confirmed by hand.
func (r *Report) Floor(rule string, got, min int) {
	r.floors = append(r.floors, fmt.Sprintf("%s: %d instances (floor %d)", rule, got, min))
	if got < min {
		// a run that already reports a violation explains low counts (the mechanism is gone); the floor
		// guards only against rules that pass vacuously
		for _, o := range r.Obls {
			if o.Status == Violated || o.Status == Undecided {
				return
			}
		}
		fatalf("instance floor not met for %s: matched %d, confirmed-by-hand floor is %d", rule, got, min)
	}
}

func (r *Report) countRule(rule string) int {
	n := 0
	for _, o := range r.Obls {
		if o.Rule == rule {
			n++
		}
	}
	return n
}

// ---- known findings -----------------------------------------------------------

type knownFinding struct {
	Property string `json:"property"`
	Key      string `json:"key"`
	What     string `json:"what"`
	Input    string `json:"failing_input"`
}

type knownFile struct {
	Findings []knownFinding `json:"findings"`
	Fixed    []string       `json:"fixed"`
}

func loadKnown(path string) knownFile {
	var k knownFile
	b, err := os.ReadFile(path)
	if err != nil {
		return k
	}
	if err := json.Unmarshal(b, &k); err != nil {
		fatalf("known findings file %s: %v", path, err)
	}
	return k
}

// ---- finishing ------------------------------------------------------------------

func (r *Report) finish(verifDir string, seed int, start time.Time, w *World, cmdline string) int {
	known := loadKnown(filepath.Join(verifDir, "known_findings.json"))
	kmap := map[string]knownFinding{}
	for _, k := range known.Findings {
		if k.Property == r.Prop {
			kmap[k.Key] = k
		}
	}
	sort.SliceStable(r.Obls, func(i, j int) bool { return r.Obls[i].Key() < r.Obls[j].Key() })
	outDir := filepath.Join(verifDir, "out", r.Prop)
	os.RemoveAll(outDir)
	os.MkdirAll(outDir, 0o755)
	nviol, nknown, nundec, ndis := 0, 0, 0, 0
	var knownHit []string
	// a listed finding whose code was moved into another function of the same package (an extracted helper) keeps its
	// rule and its construct (the tainted operand's roots) but changes the function in its key: when the listed key
	// matches nothing in this run, a violation of the same rule with the same construct in the same package is that
	// finding, not a new one. A genuinely new site appears next to the old key and is reported.
	present := map[string]bool{}
	for _, o := range r.Obls {
		present[o.Key()] = true
	}
	pkgOfFn := func(fn string) string {
		fn = strings.TrimLeft(fn, "(*")
		if i := strings.Index(fn, "."); i > 0 {
			return fn[:i]
		}
		return fn
	}
	moved := map[string]knownFinding{}
	for key, k := range kmap {
		if present[key] {
			continue
		}
		parts := strings.SplitN(key, "|", 3)
		if len(parts) == 3 {
			moved[parts[0]+"|"+pkgOfFn(parts[1])+"|"+parts[2]] = k
		}
	}
	for _, o := range r.Obls {
		if o.Status == Violated {
			if _, ok := kmap[o.Key()]; !ok {
				mk := o.Rule + "|" + pkgOfFn(o.Function) + "|" + o.Construct
				if k, ok := moved[mk]; ok {
					delete(moved, mk) // one moved site per listed finding
					kmap[o.Key()] = knownFinding{Property: k.Property, Key: o.Key(), What: k.What + " (listed under " + k.Key + "; the code now lives in " + o.Function + ")", Input: k.Input}
				}
			}
		}
	}
	for _, o := range r.Obls {
		if o.Status == Violated || o.Status == Undecided {
			if k, ok := kmap[o.Key()]; ok && o.Status == Violated {
				o.Status = Known
				fmt.Printf("KNOWN-FINDING: property=%s %s — %s (fails for: %s)\n", r.Prop, o.Key(), k.What, k.Input)
				knownHit = append(knownHit, o.Key())
				nknown++
				continue
			}
		}
		switch o.Status {
		case Discharged:
			ndis++
		case Undecided:
			// the analysis met a shape it cannot decide: not a violation claim, but not a pass either (exit 2)
			nundec++
			fmt.Printf("%s: [%s] %s in %s: %s\n    %s\n", o.At, o.Rule, o.Status, o.Function, o.Construct, o.Detail)
			fmt.Printf("UNDECIDED property=%s %s\n", r.Prop, o.Key())
		case Violated:
			nviol++
			p := filepath.Join(outDir, fmt.Sprintf("%d.json", nviol))
			b, _ := json.MarshalIndent(map[string]any{"property": r.Prop, "obligation": o}, "", " ")
			os.WriteFile(p, b, 0o644)
			fmt.Printf("%s: [%s] %s in %s: %s\n    %s\n", o.At, o.Rule, o.Status, o.Function, o.Construct, o.Detail)
			for _, t := range o.Trail {
				fmt.Printf("      via %s\n", t)
			}
			fmt.Printf("VIOLATION property=%s replay=%s\n", r.Prop, p)
		}
	}
	// evidence
	samples := []any{}
	perRule := map[string]int{}
	for _, o := range r.Obls {
		perRule[o.Rule]++
	}
	// sample: up to 3 per rule, violations/known first
	taken := map[string]int{}
	for _, o := range r.Obls {
		if o.Status != Discharged || taken[o.Rule] < 3 {
			samples = append(samples, o)
			taken[o.Rule]++
		}
	}
	fns := make([]string, 0, len(r.Analysed))
	for f := range r.Analysed {
		fns = append(fns, f)
	}
	sort.Strings(fns)
	distinct := len(r.Obls)
	cov := map[string]any{
		"explanation":          r.Explanation,
		"obligations":          len(r.Obls),
		"discharged":           ndis,
		"undecided":            nundec,
		"known_findings":       nknown,
		"known_findings_hit":   knownHit,
		"violations":           nviol,
		"evaluations":          len(r.Obls),
		"distinct_nontrivial":  distinct,
		"rule":                 "one evaluation per rule instance (rule × function × construct) found in /repo's current source; every instance is distinct by its key; trivial instances do not exist (a rule only yields an obligation where its anchor construct is present)",
		"obligations_per_rule": perRule,
		"instance_floors":      r.floors,
		"functions_analysed":   fns,
		"samples":              samples,
		"observations":         r.Notes,
		"checker_cmd":          cmdline,
		"trusted_base": []string{"go/types and go/ssa (x/tools v0.50.0)", "CHA call graph is a sound over-approximation (module uses reflect/unsafe only in leaf helpers)",
			"the rule tables in /verif/checker (confirmed by reading, see DESIGN.md)"},
	}
	if w != nil {
		cov["packages"] = len(w.Pkgs)
		cov["functions_in_module"] = len(w.ModFns)
		cov["goos_goarch"] = envOr("GOOS", "linux") + "/" + envOr("GOARCH", "amd64")
	}
	for k, v := range r.Extra {
		cov[k] = v
	}
	if r.Assumptions == nil {
		r.Assumptions = []string{}
	}
	if r.Notes == nil {
		r.Notes = []string{}
	}
	ev := map[string]any{
		"property_id": r.Prop,
		"tier":        r.Tier,
		"seed":        seed,
		"level":       "other",
		"coverage":    cov,
		"assumptions": r.Assumptions,
		"wall_s":      time.Since(start).Seconds(),
		"violations":  nviol,
	}
	if os.Getenv("DFS_NO_EVIDENCE") == "" {
		os.MkdirAll(filepath.Join(verifDir, "evidence"), 0o755)
		b, _ := json.MarshalIndent(ev, "", " ")
		if err := os.WriteFile(filepath.Join(verifDir, "evidence", r.Prop+".json"), b, 0o644); err != nil {
			fatalf("write evidence: %v", err)
		}
	}
	fmt.Printf("%s %s: %d obligations, %d discharged, %d known findings, %d violations (%d undecided); rules: %s\n",
		r.Prop, r.Tier, len(r.Obls), ndis, nknown, nviol, nundec, strings.Join(r.floors, "; "))
	if nviol > 0 {
		return 1
	}
	if nundec > 0 {
		fmt.Fprintf(os.Stderr, "dfscheck: %d obligation(s) of %s could not be decided on this tree (no violation is claimed)\n", nundec, r.Prop)
		return 2
	}
	return 0
}

func envOr(k, d string) string {
	if v := os.Getenv(k); v != "" {
		return v
	}
	return d
}

package main

// PROV: value provenance — a backward slice of an SSA value to its roots.

import (
	"fmt"
	"go/constant"
	"go/token"
	"go/types"
	"sort"
	"strings"

	"golang.org/x/tools/go/ssa"
)

type RootKind int

const (
	RParam RootKind = iota
	RConst
	RField  // load of T.f
	RCall   // result of an opaque / external call
	RGlobal // package-level variable
	RAlloc  // fresh allocation (make/new/composite literal)
	RFree   // unbound free variable
	ROther
)

type Root struct {
	Kind  RootKind
	Val   ssa.Value     // the SSA value that is the root
	Field *types.Var    // RField
	Owner *types.Named  // RField: struct that owns the field (may be nil for anonymous structs)
	Fn    *ssa.Function // RCall static callee (nil for interface methods)
	Meth  *types.Func   // RCall via interface
	Call  ssa.CallInstruction
	Param *ssa.Parameter
}

func (r Root) String() string {
	switch r.Kind {
	case RParam:
		return "param:" + fnName(r.Param.Parent()) + "#" + r.Param.Name()
	case RConst:
		return "const:" + r.Val.(*ssa.Const).String()
	case RField:
		o := "?"
		if r.Owner != nil {
			o = r.Owner.Obj().Name()
		}
		return "field:" + o + "." + r.Field.Name()
	case RCall:
		if r.Fn != nil {
			return "call:" + fnName(r.Fn)
		}
		if r.Meth != nil {
			return "call:" + r.Meth.FullName()
		}
		return "call:?"
	case RGlobal:
		return "global:" + r.Val.Name()
	case RAlloc:
		return "alloc"
	case RFree:
		return "freevar:" + r.Val.Name()
	}
	return "other:" + r.Val.String()
}

type Prov struct {
	Roots     []Root
	BinOps    []*ssa.BinOp
	Converts  []*ssa.Convert
	Truncated bool
}

func (p *Prov) rootStrings() []string {
	set := map[string]bool{}
	for _, r := range p.Roots {
		set[r.String()] = true
	}
	out := make([]string, 0, len(set))
	for s := range set {
		out = append(out, s)
	}
	sort.Strings(out)
	return out
}

func (p *Prov) hasField(owner, name string) bool {
	for _, r := range p.Roots {
		if r.Kind == RField && r.Field.Name() == name && (owner == "" || (r.Owner != nil && r.Owner.Obj().Name() == owner)) {
			return true
		}
	}
	return false
}

func (p *Prov) hasCall(pred func(Root) bool) bool {
	for _, r := range p.Roots {
		if r.Kind == RCall && pred(r) {
			return true
		}
	}
	return false
}

func (p *Prov) hasCallNamed(names ...string) bool {
	return p.hasCall(func(r Root) bool {
		n := ""
		if r.Fn != nil {
			n = r.Fn.Name()
		} else if r.Meth != nil {
			n = r.Meth.Name()
		}
		for _, x := range names {
			if x == n {
				return true
			}
		}
		return false
	})
}

func (p *Prov) hasParamNamed(name string) bool {
	for _, r := range p.Roots {
		if r.Kind == RParam && r.Param.Name() == name {
			return true
		}
	}
	return false
}

type provOpts struct {
	// followCalls: descend into in-module static callees' return values.
	followCalls bool
	// bindParams: replace a parameter by the actuals at every in-module call site (context-insensitive).
	bindParams bool
	// deepFields: a load of T.f also yields the roots of every value stored to T.f in the module.
	deepFields bool
	// opaque: treat this callee as a root even when followCalls is set.
	opaque func(*ssa.Function) bool
	// stopAt: treat this value as a root (kind ROther) and do not look through it.
	stopAt func(ssa.Value) bool
	// throughExternal: besides recording an external call as a root, also look through its arguments
	// (its result is assumed to be a function of them).
	throughExternal bool
	// callThrough: for a call (static or invoke), return the values to continue with instead of making the
	// call a root (e.g. look through x.Writable() to x).
	callThrough func(c *ssa.Call) ([]ssa.Value, bool)
	// phiControl: a phi also depends on the conditions that select among its incoming edges.
	phiControl bool
	// sliceLen: a slice expression also depends on its bounds (used when the question is "how long").
	sliceLen bool
	// lenOfMake: a freshly made slice depends on its length operand.
	lenOfMake bool
	// cells: a load of a local cell captured by closures unions the stores made in the closures too.
	// env: initial bindings of parameters / free variables to values (context of an inlined call stack).
	env map[ssa.Value][]ssa.Value
	// bindStop: do not bind this parameter to its callers' actuals (API boundary).
	bindStop func(p *ssa.Parameter) bool
	max      int
}

type provCtx struct {
	w    *World
	o    provOpts
	seen map[ssa.Value]bool
	p    *Prov
	n    int
	env  map[*ssa.Parameter][]ssa.Value // actuals of the calls followed in this query
	fenv map[*ssa.FreeVar][]ssa.Value
	genv map[ssa.Value][]ssa.Value // any other value the caller knows the meaning of (e.g. a field of a by-value parameter)
}

func (w *World) prov(v ssa.Value, o provOpts) *Prov {
	if o.max == 0 {
		o.max = 4000
	}
	c := &provCtx{w: w, o: o, seen: map[ssa.Value]bool{}, p: &Prov{}}
	if len(o.env) > 0 {
		c.env = map[*ssa.Parameter][]ssa.Value{}
		c.fenv = map[*ssa.FreeVar][]ssa.Value{}
		for k, vs := range o.env {
			switch x := k.(type) {
			case *ssa.Parameter:
				c.env[x] = vs
			case *ssa.FreeVar:
				c.fenv[x] = vs
			default:
				if c.genv == nil {
					c.genv = map[ssa.Value][]ssa.Value{}
				}
				c.genv[k] = vs
			}
		}
	}
	c.visit(v)
	return c.p
}

// fieldOf decodes a FieldAddr / Field into (owner named type, field var).
func fieldOfAddr(v ssa.Value) (*types.Named, *types.Var, ssa.Value, bool) {
	switch x := v.(type) {
	case *ssa.FieldAddr:
		st, ok := deref(x.X.Type()).Underlying().(*types.Struct)
		if !ok {
			return nil, nil, nil, false
		}
		return namedOf(x.X.Type()), st.Field(x.Field), x.X, true
	case *ssa.Field:
		st, ok := x.X.Type().Underlying().(*types.Struct)
		if !ok {
			return nil, nil, nil, false
		}
		return namedOf(x.X.Type()), st.Field(x.Field), x.X, true
	}
	return nil, nil, nil, false
}

func (c *provCtx) root(r Root) { c.p.Roots = append(c.p.Roots, r) }

func (c *provCtx) visit(v ssa.Value) {
	if v == nil || c.seen[v] {
		return
	}
	c.seen[v] = true
	c.n++
	if c.n > c.o.max {
		c.p.Truncated = true
		return
	}
	if c.o.stopAt != nil && c.o.stopAt(v) {
		c.root(Root{Kind: ROther, Val: v})
		return
	}
	if vs, ok := c.genv[v]; ok {
		for _, a := range vs {
			c.visit(a)
		}
		return
	}
	switch x := v.(type) {
	case *ssa.Const:
		c.root(Root{Kind: RConst, Val: x})
	case *ssa.Parameter:
		if acts, ok := c.env[x]; ok {
			for _, a := range acts {
				c.visit(a)
			}
			return
		}
		if c.o.bindParams && (c.o.bindStop == nil || !c.o.bindStop(x)) && c.bindParam(x) {
			return
		}
		c.root(Root{Kind: RParam, Val: x, Param: x})
	case *ssa.FreeVar:
		if vs, ok := c.fenv[x]; ok {
			for _, a := range vs {
				c.visit(a)
			}
			return
		}
		// bind to the value captured at MakeClosure
		fn := x.Parent()
		idx := -1
		for i, fv := range fn.FreeVars {
			if fv == x {
				idx = i
			}
		}
		bound := false
		if p := fn.Parent(); p != nil && idx >= 0 {
			for _, pf := range withClosures(p) {
				allInstrs(pf, func(ins ssa.Instruction) {
					if mc, ok := ins.(*ssa.MakeClosure); ok && mc.Fn == fn && idx < len(mc.Bindings) {
						bound = true
						c.visit(mc.Bindings[idx])
					}
				})
			}
		}
		if !bound {
			c.root(Root{Kind: RFree, Val: x})
		}
	case *ssa.Global:
		c.root(Root{Kind: RGlobal, Val: x})
	case *ssa.Function, *ssa.Builtin:
		c.root(Root{Kind: ROther, Val: x})
	case *ssa.Phi:
		for _, e := range x.Edges {
			c.visit(e)
		}
		if c.o.phiControl {
			for _, cond := range phiControls(x) {
				c.visit(cond)
			}
		}
	case *ssa.BinOp:
		c.p.BinOps = append(c.p.BinOps, x)
		c.visit(x.X)
		c.visit(x.Y)
	case *ssa.UnOp:
		if x.Op == token.MUL {
			c.load(x.X)
		} else {
			c.visit(x.X)
		}
	case *ssa.Convert:
		c.p.Converts = append(c.p.Converts, x)
		c.visit(x.X)
	case *ssa.ChangeType:
		c.visit(x.X)
	case *ssa.ChangeInterface:
		c.visit(x.X)
	case *ssa.MakeInterface:
		c.visit(x.X)
	case *ssa.TypeAssert:
		c.visit(x.X)
	case *ssa.Extract:
		switch t := x.Tuple.(type) {
		case *ssa.Lookup:
			if x.Index == 0 {
				c.visit(t.X)
			} else {
				c.root(Root{Kind: ROther, Val: x})
			}
		case *ssa.TypeAssert:
			if x.Index == 0 {
				c.visit(t.X)
			} else {
				c.root(Root{Kind: ROther, Val: x})
			}
		case *ssa.UnOp: // channel receive with comma-ok
			c.visit(t.X)
		default:
			c.visitCall(x.Tuple, x.Index)
		}
	case *ssa.Slice:
		c.visit(x.X)
		if c.o.sliceLen {
			if x.Low != nil {
				c.visit(x.Low)
			}
			if x.High != nil {
				c.visit(x.High)
			}
		}
	case *ssa.SliceToArrayPointer:
		c.visit(x.X)
	case *ssa.Index:
		c.visit(x.X)
	case *ssa.IndexAddr:
		c.visit(x.X)
	case *ssa.Lookup:
		c.visit(x.X)
	case *ssa.Field:
		if n, f, _, ok := fieldOfAddr(x); ok {
			c.fieldRoot(n, f, x)
		}
	case *ssa.FieldAddr:
		if n, f, _, ok := fieldOfAddr(x); ok {
			c.fieldRoot(n, f, x)
		}
	case *ssa.Alloc:
		// the address itself: union of stored values (for `&local`)
		c.load(x)
	case *ssa.MakeSlice:
		c.root(Root{Kind: RAlloc, Val: v})
		if c.o.lenOfMake {
			c.visit(x.Len)
		}
	case *ssa.MakeMap, *ssa.MakeChan:
		c.root(Root{Kind: RAlloc, Val: v})
	case *ssa.MakeClosure:
		c.root(Root{Kind: ROther, Val: v})
	case *ssa.Call:
		c.visitCall(x, -1)
	case *ssa.Next, *ssa.Range, *ssa.Select:
		c.root(Root{Kind: ROther, Val: v})
		if r, ok := v.(*ssa.Next); ok {
			if rg, ok := r.Iter.(*ssa.Range); ok {
				c.visit(rg.X)
			}
		}
	default:
		c.root(Root{Kind: ROther, Val: v})
	}
}

// load handles *addr.
func (c *provCtx) load(addr ssa.Value) {
	switch a := addr.(type) {
	case *ssa.Alloc:
		// union of values stored into the alloc (and into its fields/elements, coarse)
		found := false
		if a.Heap {
			for _, st := range cellStores(a) {
				if st.Parent() != a.Parent() {
					found = true
					c.visit(st.Val)
				}
			}
		}
		for _, ref := range *a.Referrers() {
			switch s := ref.(type) {
			case *ssa.Store:
				if s.Addr == a {
					found = true
					c.visit(s.Val)
				}
			case *ssa.FieldAddr, *ssa.IndexAddr:
				for _, r2 := range *s.(ssa.Value).Referrers() {
					if st, ok := r2.(*ssa.Store); ok && st.Addr == s.(ssa.Value) {
						found = true
						c.visit(st.Val)
					}
				}
			}
		}
		if !found {
			c.root(Root{Kind: RAlloc, Val: a})
		}
	case *ssa.FieldAddr:
		if n, f, _, ok := fieldOfAddr(a); ok {
			// field of a local struct alloc: look at stores into that same alloc field
			if al, isAlloc := a.X.(*ssa.Alloc); isAlloc {
				found := false
				for _, ref := range *al.Referrers() {
					if fa, ok := ref.(*ssa.FieldAddr); ok && fa.Field == a.Field {
						for _, r2 := range *fa.Referrers() {
							if st, ok := r2.(*ssa.Store); ok && st.Addr == fa {
								found = true
								c.visit(st.Val)
							}
						}
					}
				}
				if found {
					return
				}
			}
			c.fieldRoot(n, f, a)
		}
	case *ssa.IndexAddr:
		c.visit(a.X)
	case *ssa.Global:
		c.root(Root{Kind: RGlobal, Val: a})
	case *ssa.FreeVar:
		// captured variable (pointer to a local of the parent): union of stores in parent and closures
		for _, st := range cellStores(a) {
			c.visit(st.Val)
		}
		c.visit(a)
	default:
		c.visit(addr)
	}
}

func (c *provCtx) fieldRoot(n *types.Named, f *types.Var, at ssa.Value) {
	c.root(Root{Kind: RField, Val: at, Field: f, Owner: n})
	if c.o.deepFields {
		for _, st := range c.w.fieldStores(f) {
			c.visit(st)
		}
	}
}

func (c *provCtx) visitCall(tuple ssa.Value, idx int) {
	call, ok := tuple.(*ssa.Call)
	if !ok {
		c.root(Root{Kind: ROther, Val: tuple})
		return
	}
	cc := call.Common()
	if c.o.callThrough != nil {
		if vals, ok := c.o.callThrough(call); ok {
			for _, v := range vals {
				c.visit(v)
			}
			return
		}
	}
	if cc.IsInvoke() {
		c.root(Root{Kind: RCall, Val: call, Meth: cc.Method, Call: call})
		if c.o.throughExternal {
			c.visit(cc.Value)
			for _, a := range cc.Args {
				c.visit(a)
			}
		}
		return
	}
	if b, ok := cc.Value.(*ssa.Builtin); ok {
		switch b.Name() {
		case "len", "cap", "min", "max", "append", "copy":
			for _, a := range cc.Args {
				c.visit(a)
			}
			return
		}
		c.root(Root{Kind: ROther, Val: call})
		return
	}
	f := cc.StaticCallee()
	if f == nil {
		c.root(Root{Kind: RCall, Val: call, Call: call})
		return
	}
	if c.o.followCalls && f.Blocks != nil && c.w.fnSet[f] && (c.o.opaque == nil || !c.o.opaque(f)) {
		// parameters of the followed callee stand for this call's actuals
		if c.env == nil {
			c.env = map[*ssa.Parameter][]ssa.Value{}
		}
		for i, a := range cc.Args {
			if i < len(f.Params) {
				c.env[f.Params[i]] = append(c.env[f.Params[i]], a)
			}
		}
		for _, b := range f.Blocks {
			if ret, ok := lastInstr(b).(*ssa.Return); ok {
				if idx < 0 {
					for _, r := range ret.Results {
						c.visit(r)
					}
				} else if idx < len(ret.Results) {
					c.visit(ret.Results[idx])
				}
			}
		}
		return
	}
	c.root(Root{Kind: RCall, Val: call, Fn: f, Call: call})
	if c.o.throughExternal {
		for _, a := range cc.Args {
			c.visit(a)
		}
	}
}

func (c *provCtx) bindParam(p *ssa.Parameter) bool {
	fn := p.Parent()
	idx := -1
	for i, q := range fn.Params {
		if q == p {
			idx = i
		}
	}
	if idx < 0 {
		return false
	}
	node := c.w.CHA().Nodes[fn]
	if node == nil || len(node.In) == 0 {
		return false
	}
	bound := false
	for _, e := range node.In {
		if e.Site == nil || !c.w.fnSet[e.Caller.Func] {
			continue
		}
		cc := e.Site.Common()
		var actual ssa.Value
		if cc.IsInvoke() {
			if idx == 0 {
				actual = cc.Value
			} else if idx-1 < len(cc.Args) {
				actual = cc.Args[idx-1]
			}
		} else if idx < len(cc.Args) {
			actual = cc.Args[idx]
		}
		if actual != nil {
			bound = true
			c.visit(actual)
		}
	}
	return bound
}

// fieldStores returns every value stored to field f anywhere in the module
// (direct stores through FieldAddr and composite-literal initialisations).
func (w *World) fieldStores(f *types.Var) []ssa.Value {
	w.buildFieldIndex()
	return w.fieldStoreIdx[f]
}

var _ = fmt.Sprint

func (w *World) buildFieldIndex() {
	if w.fieldStoreIdx != nil {
		return
	}
	w.fieldStoreIdx = map[*types.Var][]ssa.Value{}
	w.fieldStoreIns = map[*types.Var][]*ssa.Store{}
	for _, fn := range w.ModFns {
		allInstrs(fn, func(ins ssa.Instruction) {
			st, ok := ins.(*ssa.Store)
			if !ok {
				return
			}
			if _, f, _, ok := fieldOfAddr(st.Addr); ok {
				w.fieldStoreIdx[f] = append(w.fieldStoreIdx[f], st.Val)
				w.fieldStoreIns[f] = append(w.fieldStoreIns[f], st)
			}
		})
	}
}

// ---- small helpers over values -------------------------------------------------------

func constInt(v ssa.Value) (int64, bool) {
	c, ok := v.(*ssa.Const)
	if !ok || c.Value == nil {
		return 0, false
	}
	if c.Value.Kind() != constant.Int {
		return 0, false
	}
	i, exact := constant.Int64Val(c.Value)
	if !exact {
		u, ok2 := constant.Uint64Val(c.Value)
		if ok2 {
			return int64(u), true
		}
	}
	return i, exact
}

// stripConv looks through Convert/ChangeType.
func stripConv(v ssa.Value) ssa.Value {
	for {
		switch x := v.(type) {
		case *ssa.Convert:
			v = x.X
		case *ssa.ChangeType:
			v = x.X
		default:
			return v
		}
	}
}

type term struct {
	neg bool
	v   ssa.Value
}

// addends decomposes v through ADD/SUB and conversions into signed terms.
func addends(v ssa.Value) []term {
	var out []term
	var rec func(v ssa.Value, neg bool, depth int)
	rec = func(v ssa.Value, neg bool, depth int) {
		v = stripConv(v)
		if b, ok := v.(*ssa.BinOp); ok && depth < 20 {
			switch b.Op {
			case token.ADD:
				rec(b.X, neg, depth+1)
				rec(b.Y, neg, depth+1)
				return
			case token.SUB:
				rec(b.X, neg, depth+1)
				rec(b.Y, !neg, depth+1)
				return
			}
		}
		out = append(out, term{neg, v})
	}
	rec(v, false, 0)
	return out
}

// typeBits returns the bit width of an integer type (0 if not an integer).
func typeBits(t types.Type) int {
	b, ok := t.Underlying().(*types.Basic)
	if !ok {
		return 0
	}
	switch b.Kind() {
	case types.Int8, types.Uint8:
		return 8
	case types.Int16, types.Uint16:
		return 16
	case types.Int32, types.Uint32:
		return 32
	case types.Int64, types.Uint64, types.Int, types.Uint, types.Uintptr:
		return 64
	}
	return 0
}

func shortVal(v ssa.Value) string {
	if v == nil {
		return "<nil>"
	}
	s := v.String()
	s = strings.ReplaceAll(s, modPath+"/", "")
	if len(s) > 80 {
		s = s[:80] + "…"
	}
	return s
}

// phiControls returns the conditions of the branches that select among the incoming edges of a phi:
// the Ifs met on the dominator chain from each predecessor up to the phi block's immediate dominator.
func phiControls(ph *ssa.Phi) []ssa.Value {
	var out []ssa.Value
	seen := map[*ssa.BasicBlock]bool{}
	stop := ph.Block().Idom()
	for _, pred := range ph.Block().Preds {
		for b := pred; b != nil; b = b.Idom() {
			if seen[b] {
				break
			}
			seen[b] = true
			if iff, ok := lastInstr(b).(*ssa.If); ok {
				out = append(out, iff.Cond)
			}
			if b == stop {
				break
			}
		}
	}
	return out
}

// cellStores returns every store to the local cell addr (an Alloc, or a FreeVar bound to one),
// in the declaring function and in all closures that capture it.
func cellStores(addr ssa.Value) []*ssa.Store {
	// resolve to the root alloc
	root := addr
	for i := 0; i < 8; i++ {
		fv, ok := root.(*ssa.FreeVar)
		if !ok {
			break
		}
		fn := fv.Parent()
		idx := -1
		for k, x := range fn.FreeVars {
			if x == fv {
				idx = k
			}
		}
		parent := fn.Parent()
		if parent == nil || idx < 0 {
			break
		}
		var bound ssa.Value
		for _, pf := range withClosures(parent) {
			allInstrs(pf, func(ins ssa.Instruction) {
				if mc, ok := ins.(*ssa.MakeClosure); ok && mc.Fn == ssa.Value(fn) && idx < len(mc.Bindings) {
					bound = mc.Bindings[idx]
				}
			})
		}
		if bound == nil {
			break
		}
		root = bound
	}
	al, ok := root.(*ssa.Alloc)
	if !ok {
		return nil
	}
	var out []*ssa.Store
	var scan func(fn *ssa.Function, cell ssa.Value)
	scan = func(fn *ssa.Function, cell ssa.Value) {
		allInstrs(fn, func(ins ssa.Instruction) {
			switch x := ins.(type) {
			case *ssa.Store:
				if x.Addr == cell {
					out = append(out, x)
				}
			case *ssa.MakeClosure:
				if f, ok := x.Fn.(*ssa.Function); ok {
					for i, b := range x.Bindings {
						if b == cell && i < len(f.FreeVars) {
							scan(f, f.FreeVars[i])
						}
					}
				}
			}
		})
	}
	scan(al.Parent(), al)
	return out
}

// unspill maps a load from a local cell that is initialised once from a parameter (go/ssa spills captured
// parameters into cells) back to that parameter.
func unspillParam(v ssa.Value) ssa.Value {
	ld, ok := v.(*ssa.UnOp)
	if !ok || ld.Op != token.MUL {
		return v
	}
	al, ok := ld.X.(*ssa.Alloc)
	if !ok {
		return v
	}
	var src ssa.Value
	n := 0
	for _, st := range cellStores(al) {
		n++
		src = st.Val
	}
	if n == 0 {
		for _, ref := range *al.Referrers() {
			if st, ok := ref.(*ssa.Store); ok && st.Addr == ssa.Value(al) {
				n++
				src = st.Val
			}
		}
	}
	if p, ok := src.(*ssa.Parameter); ok && n == 1 {
		return p
	}
	return v
}

package main

// C18 — opening and walking a damaged filesystem image cannot crash (structural clauses).

import (
	"fmt"
	"go/token"
	"go/types"
	"strings"

	"golang.org/x/tools/go/ssa"
)

func init() {
	register("C18", runC18, `Structural clauses of robustness against corrupted images, decided statically over the functions reachable from the six filesystem readers and their reading API (package-internal callees).
C18-a allocation: a device-derived make length whose type and constant operands allow more than 2^24 (16 MiB) must be bounded by a dominating comparison (directly, through its operands, or through validation at the store of the field it is loaded from).
C18-b division: a device-derived divisor must be proven non-zero by a dominating comparison.
C18-c chain walks / steps: a loop that advances through a slice by a device-derived step must have that step proven positive.
C18-e index: a device-derived value used as the index of a slice, array or string element (s[i], not s[a:b]) must be bounded: a dominating comparison with a value that is not itself unbounded device data (len(table), len(table)-1, a validated field), a mask/shift/narrow type that keeps it below the length of a fixed-size array, or the counter of a loop that appends to the indexed slice once per iteration before indexing it.
C18-f a pointer that an in-package decoder returns together with an error (nil on its error paths) is dereferenced only where that error is known to be nil.
C18-h recursion: every function of the reader scope that can call itself again (directly or through other in-package functions: symbolic links followed while opening a path, directory trees and hash trees walked downwards) carries a bound among its parameters: a counter that is compared with a limit on an edge that returns an error and is passed on changed by a constant, or a list of the ancestors on the way down that is extended at the recursive call and searched before it, or the remaining components of the caller's path. A link that points back at itself, or a directory that contains one of its ancestors, otherwise recurses until the stack overflows (which cannot be recovered).
C18-g slice bounds: a device-derived low or high bound of a slice expression s[a:b] must be bounded (a dominating comparison with len(s) or with a value that is not unbounded device data, a min/clamp with len(s), a type whose range is below the proven minimum length of s), and a constant bound on a buffer whose length is device data needs a proven minimum length (a dominating len test, a make of proven minimum, a window s[i:i+n], a length passed alongside, a positive multiple). Seven sites whose bound is relational (listed with the reason in the evidence, keyed by function and operand roots) are trusted after reading; 33 panics of this kind found while building the rule were repaired in /repo.
Decompression bombs and time bounds are not covered (see DESIGN.md).`)
}

// fsReaderScope: the package-internal functions reachable from the reading API of pkg, explored with the
// constant-actual folding of the reachability engine (OpenFile with O_RDONLY, doMake=false, ...), so that
// code only reachable when writing is not judged by a reader property.
func fsReaderScope(w *World, pkg string) []*ssa.Function {
	inPkg := func(f *ssa.Function) bool {
		p := w.pkgOf(f)
		return p == pkg || strings.HasPrefix(p, pkg+"/") || (strings.HasPrefix(pkg, "filesystem/fat") && p == "filesystem/fat12") || p == "util/bitmap"
	}
	rc := &Reach{w: w, enter: inPkg}
	for _, ep := range readingEntryPoints(w) {
		if w.pkgOf(ep.fn) == pkg {
			rc.Run(ep.fn, ep.bind)
		}
	}
	out := map[*ssa.Function]*ssa.Function{}
	for f := range rc.Funcs {
		if inPkg(f) {
			out[f] = nil
		}
	}
	return sortedFns(out)
}

func runC18(w *World, r *Report) {
	total := 0
	trusted := map[string]string{}
	defer func() { r.Extra["trusted_slice_sites"] = trusted }()
	for _, pkg := range fsPkgs {
		fns := fsReaderScope(w, pkg)
		total += len(fns)
		b := newBounds(w, fns, true)
		for _, p := range b.Protected {
			r.Note("checksum-protected decoder (not a taint source under single-field corruption): %s", p)
		}
		sub := newReport("C18", r.Tier)
		kinds := map[string]bool{"make": true, "divide": true, "step": true, "index": true, "slice": true, "lenconst": true}
		boundsReport(w, sub, b, "C18", kinds)
		for _, o := range sub.Obls {
			switch {
			case strings.HasPrefix(o.Construct, "make"):
				o.Rule = "C18-a"
			case strings.HasPrefix(o.Construct, "divide"):
				o.Rule = "C18-b"
			case strings.HasPrefix(o.Construct, "index"):
				o.Rule = "C18-e"
			case strings.HasPrefix(o.Construct, "slice"), strings.HasPrefix(o.Construct, "lenconst"):
				o.Rule = "C18-g"
				base := o.Construct
				if i := strings.Index(base, " #"); i >= 0 {
					base = base[:i]
				}
				base = strings.TrimSpace(base)
				if why, ok := c18TrustedSlices[o.Function+"|"+base]; ok && o.Status == Violated {
					o.Status = Discharged
					o.Detail = "trusted (relational bound the engine does not derive, confirmed by reading): " + why
					trusted[o.Function+"|"+base] = why
				}
			default:
				o.Rule = "C18-c"
			}
			if _, dup := r.seen[o.Key()]; dup {
				continue
			}
			r.Obls = append(r.Obls, o)
			r.seen[o.Key()] = o
			r.Analysed[o.Function] = true
		}
	}
	c18ChainWalks(w, r)
	var all []*ssa.Function
	for _, pkg := range fsPkgs {
		all = append(all, fsReaderScope(w, pkg)...)
	}
	c18BoundedRecursion(w, r, all)
	r.Floor("C18-h", r.countRule("C18-h"), 4)
	nloops := readLoopsProgress(w, r, "C18-d", all)
	r.Extra["read_loops_examined"] = nloops
	if nloops == 0 {
		r.Ok("C18-d", "filesystem readers", "no loop whose only exits depend on a device read", "filesystem", fmt.Sprintf("%d functions", len(all)))
	}
	nd := nilAfterError(w, r, "C18-f", all)
	r.Extra["decoder_results_examined"] = nd
	r.Floor("C18-f", nd, 20)
	r.Extra["functions_in_scope"] = total
	r.Floor("C18 scope", total, 150)
	r.Floor("C18-a", r.countRule("C18-a"), 10)
	r.Floor("C18-b", r.countRule("C18-b"), 5)
	r.Floor("C18-e", r.countRule("C18-e"), 30)
	r.Floor("C18-g", r.countRule("C18-g"), 200)
}

// c18ChainWalks (C18-c): a loop that follows next-cluster links read from the FAT (the argument of
// ClusterValue is fed by ClusterValue's own result) must contain an exit that compares the number of links
// followed (len of the accumulated list, or a counter) with a bound and leaves with an error.
func c18ChainWalks(w *World, r *Report) {
	n := 0
	for _, fn := range w.ModFns {
		if !inFatPkg(w, fn) {
			continue
		}
		for _, cc := range calls(fn, false, func(c ssa.CallInstruction) bool { return methodCallSig(c, "ClusterValue", 1, 1) }) {
			call, ok := cc.(*ssa.Call)
			if !ok {
				continue
			}
			ph, ok := stripConv(argsOf(call)[0]).(*ssa.Phi)
			if !ok {
				continue
			}
			fed := false
			for _, e := range ph.Edges {
				for _, rt := range w.prov(e, provOpts{}).Roots {
					if rt.Kind == RCall && rt.Call == ssa.CallInstruction(call) {
						fed = true
					}
				}
			}
			if !fed {
				continue
			}
			n++
			bounded := false
			for _, b := range fn.Blocks {
				if !ph.Block().Dominates(b) {
					continue
				}
				iff, ok := lastInstr(b).(*ssa.If)
				if !ok {
					continue
				}
				bin, ok := iff.Cond.(*ssa.BinOp)
				if !ok {
					continue
				}
				switch bin.Op {
				case token.GTR, token.GEQ, token.LSS, token.LEQ:
				default:
					continue
				}
				counts := func(v ssa.Value) bool {
					v = stripConv(v)
					if isLenCall(v) {
						return true
					}
					p2, ok := v.(*ssa.Phi)
					return ok && isInductionPhi(p2)
				}
				if !counts(bin.X) && !counts(bin.Y) {
					continue
				}
				for idx := range b.Succs {
					if blockLeadsToErrorReturn(b.Succs[idx], 0) {
						bounded = true
					}
				}
			}
			r.Check(bounded, "C18-c", fnName(fn), "chain walk is bounded #"+ordinal(fn, call), w.relFile(call.Pos()), "the loop leaves with an error when the number of links followed exceeds a bound",
				"a loop follows next-cluster links from the FAT with no bound on the number of links: a chain that points back into itself never terminates and grows without limit")
		}
	}
	if n == 0 {
		r.Undecided("C18-c", "filesystem/fat12", "chain walks", "filesystem/fat12", "no cluster-chain walk found (the rule's anchor ClusterValue is gone)")
	}
}

// c18TrustedSlices: slice sites whose bound holds by a relation between values that the engine does not derive. Each
// was confirmed by reading (and by the byte-by-byte corruption sweeps run while the readers were repaired). Keyed by
// function and operand roots, so a change of the operand's provenance brings the site back as a violation.
var c18TrustedSlices = map[string]string{
	"(*ext4.FileSystem).readIbodyXattrs|slice by Uint16()":              "the inode buffer has exactly sb.inodeSize bytes (readInodeRaw makes it that long and fails on a short read); the function returns unless xattrStart+4 <= xattrEnd = sb.inodeSize",
	"(*ext4.FileSystem).readIbodyXattrs|slice by .inodeSize":            "same buffer: the upper bound is sb.inodeSize, its exact length",
	"ext4.groupDescriptorsFromBytes|slice by $gdSize":                   "i < len(b)/gdSize, so (i+1)*gdSize <= len(b); gdSize 0 is rejected above",
	"(*fat12.File).Read|slice by $b,.bytesPerCluster,.fileSize,.offset": "toRead = min(bytesPerCluster, maxRead-totalRead) and maxRead <= len(b), so totalRead+toRead <= len(b)",
	"(*iso9660.rockRidgeExtension).parseSymlink|slice by $b":            "2+int(b2[1]) <= len(b2) is tested on the same byte two lines above, and len(b) <= 255 (it equals the entry's length byte), so 2+size does not wrap in uint8",
	"(*iso9660.directoryEntry).getLocationBelow|slice by":               "dirb is one whole block (Read accepts only block sizes 2048, 4096 and 8192 and replaces 0 by 2048) and the bound is a single byte (at most 255)",
	"squashfs.parseDirectory|slice by parseDirectoryEntry()":            "pos advances by the size parseDirectoryEntry returns, which it has compared with len(b[pos:]) before returning success",
}

// c18RecursiveFns lists the functions of the reader scope that can reach themselves through static calls.
func c18RecursiveFns(w *World, fns []*ssa.Function) []*ssa.Function {
	inScope := map[*ssa.Function]bool{}
	for _, f := range fns {
		inScope[f] = true
	}
	succ := func(f *ssa.Function) []*ssa.Function {
		var out []*ssa.Function
		for _, g := range withClosures(f) {
			for _, c := range calls(g, false, func(c ssa.CallInstruction) bool { return c.Common().StaticCallee() != nil }) {
				if t := c.Common().StaticCallee(); inScope[t] {
					out = append(out, t)
				}
			}
			// calls through an interface of the module (the extent tree's nodes): the implementations in scope
			for _, c := range calls(g, false, func(c ssa.CallInstruction) bool { return c.Common().IsInvoke() }) {
				for _, t := range w.calleesCHA(c) {
					if inScope[t] {
						out = append(out, t)
					}
				}
			}
		}
		return out
	}
	var rec []*ssa.Function
	for _, f := range fns {
		seen := map[*ssa.Function]bool{}
		st := succ(f)
		found := false
		for len(st) > 0 && !found {
			g := st[len(st)-1]
			st = st[:len(st)-1]
			if g == f {
				found = true
				break
			}
			if seen[g] {
				continue
			}
			seen[g] = true
			st = append(st, succ(g)...)
		}
		if found {
			rec = append(rec, f)
		}
	}
	return rec
}

// c18BoundedRecursion (C18-h): each recursive function of the reader scope has a parameter that bounds the recursion.
func c18BoundedRecursion(w *World, r *Report, fns []*ssa.Function) {
	rec := c18RecursiveFns(w, fns)
	recSet := map[*ssa.Function]bool{}
	for _, f := range rec {
		recSet[f] = true
	}
	staticCallsTo := func(f *ssa.Function, pred func(*ssa.Function) bool) []ssa.CallInstruction {
		var out []ssa.CallInstruction
		for _, g := range withClosures(f) {
			out = append(out, calls(g, false, func(c ssa.CallInstruction) bool { t := c.Common().StaticCallee(); return t != nil && pred(t) })...)
		}
		return out
	}
	// cycles: f and g are in one cycle when each reaches the other through recursive functions
	reach := func(from *ssa.Function) map[*ssa.Function]bool {
		seen := map[*ssa.Function]bool{}
		st := []*ssa.Function{from}
		for len(st) > 0 {
			g := st[len(st)-1]
			st = st[:len(st)-1]
			for _, c := range staticCallsTo(g, func(t *ssa.Function) bool { return recSet[t] }) {
				t := c.Common().StaticCallee()
				if !seen[t] {
					seen[t] = true
					st = append(st, t)
				}
			}
		}
		return seen
	}
	reaches := map[*ssa.Function]map[*ssa.Function]bool{}
	for _, f := range rec {
		reaches[f] = reach(f)
	}
	sameCycle := func(a, b *ssa.Function) bool { return a == b || (reaches[a][b] && reaches[b][a]) }
	// counterParam: an integer parameter of f that is compared with a constant such that one edge of the comparison
	// cannot reach a call back into the cycle (an error return or the base case)
	counterParams := func(f *ssa.Function) []int {
		back := staticCallsTo(f, func(t *ssa.Function) bool { return sameCycle(f, t) })
		backBlocks := map[*ssa.BasicBlock]bool{}
		for _, c := range back {
			if c.Parent() == f {
				backBlocks[c.Block()] = true
			}
		}
		var out []int
		for pi, p := range f.Params {
			if typeBits(p.Type()) == 0 {
				continue
			}
			ok := false
			for _, b := range f.Blocks {
				iff, isIf := lastInstr(b).(*ssa.If)
				if !isIf {
					continue
				}
				bin, isBin := iff.Cond.(*ssa.BinOp)
				if !isBin {
					continue
				}
				px, py := unspillParam(stripConv(bin.X)), unspillParam(stripConv(bin.Y))
				_, cx := constInt(bin.X)
				_, cy := constInt(bin.Y)
				if !((px == ssa.Value(p) && cy) || (py == ssa.Value(p) && cx)) {
					continue
				}
				for idx := range b.Succs {
					// does this edge reach a back call?
					seen := map[*ssa.BasicBlock]bool{b: true} // a path that comes back to the comparison is decided there again
					st := []*ssa.BasicBlock{b.Succs[idx]}
					hits := false
					for len(st) > 0 && !hits {
						x := st[len(st)-1]
						st = st[:len(st)-1]
						if seen[x] {
							continue
						}
						seen[x] = true
						if backBlocks[x] {
							hits = true
						}
						st = append(st, x.Succs...)
					}
					if !hits {
						ok = true
					}
				}
			}
			if ok {
				out = append(out, pi)
			}
		}
		return out
	}
	for _, f := range rec {
		if f.Synthetic != "" {
			continue // pointer-receiver wrapper of a value method: the method itself is judged
		}
		name := fnName(f)
		back := staticCallsTo(f, func(t *ssa.Function) bool { return sameCycle(f, t) })
		bounded := ""
		// (a) a counter threaded through the cycle: every member passes one of its integer parameters (unchanged or
		// changed by a constant) to every member it calls, some member changes it by a non-zero constant, and some
		// member compares it with a constant on an edge that leads away from the cycle (an error or the base case)
		intArgFrom := func(g *ssa.Function, c ssa.CallInstruction) (threaded map[int]bool, stepped bool) {
			threaded = map[int]bool{}
			for _, a := range c.Common().Args {
				v := stripConv(a)
				step := false
				if bo, isB := v.(*ssa.BinOp); isB && (bo.Op == token.ADD || bo.Op == token.SUB) {
					if k, isC := constInt(bo.Y); isC {
						v = stripConv(bo.X)
						step = k != 0
					}
				}
				v = unspillParam(v)
				for qi, q := range g.Params {
					if ssa.Value(q) == v && typeBits(q.Type()) > 0 {
						threaded[qi] = true
						if step {
							stepped = true
						}
					}
				}
			}
			return
		}
		var members []*ssa.Function
		for _, g := range rec {
			if sameCycle(f, g) {
				members = append(members, g)
			}
		}
		allThread, anyStep, anyLimit := true, false, false
		for _, g := range members {
			gb := staticCallsTo(g, func(t *ssa.Function) bool { return sameCycle(g, t) })
			common := map[int]bool{}
			first := true
			for _, c := range gb {
				th, st := intArgFrom(g, c)
				if st {
					anyStep = true
				}
				if first {
					common, first = th, false
				} else {
					for k := range common {
						if !th[k] {
							delete(common, k)
						}
					}
				}
			}
			if len(gb) == 0 || len(common) == 0 {
				allThread = false
			}
			for _, k := range counterParams(g) {
				if common[k] {
					anyLimit = true
				}
			}
		}
		if allThread && anyStep && anyLimit {
			bounded = "counter threaded through " + fmt.Sprint(len(members)) + " function(s)"
		}
		// (b) a list of ancestors: extended with append at the back call and searched in the body
		if bounded == "" {
			for pi, p := range f.Params {
				if _, isSlice := p.Type().Underlying().(*types.Slice); !isSlice || isByteSlice(p.Type()) {
					continue
				}
				extended, searched := false, false
				for _, c := range back {
					if c.Common().StaticCallee() != f || pi >= len(c.Common().Args) {
						continue
					}
					// the argument is append(p, ...), possibly through a phi or a local cell
					seenV := map[ssa.Value]bool{}
					var walk func(v ssa.Value, d int)
					walk = func(v ssa.Value, d int) {
						v = stripConv(v)
						if v == nil || seenV[v] || d > 6 {
							return
						}
						seenV[v] = true
						switch x := v.(type) {
						case *ssa.Call:
							if bi, ok := x.Call.Value.(*ssa.Builtin); ok && bi.Name() == "append" && len(x.Call.Args) > 0 {
								if a0 := unspillParam(stripConv(x.Call.Args[0])); a0 == ssa.Value(p) {
									extended = true
								} else {
									walk(x.Call.Args[0], d+1)
								}
							}
						case *ssa.Phi:
							for _, e := range x.Edges {
								walk(e, d+1)
							}
						case *ssa.UnOp:
							if x.Op == token.MUL {
								for _, st := range cellStores(x.X) {
									walk(st.Val, d+1)
								}
							}
						}
					}
					walk(c.Common().Args[pi], 0)
				}
				allInstrs(f, func(ins ssa.Instruction) {
					var x ssa.Value
					switch y := ins.(type) {
					case *ssa.Range:
						x = y.X
					case *ssa.IndexAddr:
						x = y.X
					case *ssa.Index:
						x = y.X
					default:
						return
					}
					for _, rt := range w.prov(x, provOpts{}).Roots {
						if rt.Kind == RParam && rt.Param == p {
							searched = true
						}
					}
				})
				// or handed to an in-module helper that searches it (an extracted ancestor check)
				if !searched {
					for _, g := range withClosures(f) {
						for _, c := range calls(g, false, func(c ssa.CallInstruction) bool { t := c.Common().StaticCallee(); return t != nil && w.fnSet[t] && t.Blocks != nil && t != f }) {
							t := c.Common().StaticCallee()
							for ai, a := range c.Common().Args {
								isP := false
								for _, rt := range w.prov(a, provOpts{}).Roots {
									if rt.Kind == RParam && rt.Param == p {
										isP = true
									}
								}
								if !isP || ai >= len(t.Params) {
									continue
								}
								q := t.Params[ai]
								allInstrs(t, func(ins ssa.Instruction) {
									var x ssa.Value
									switch y := ins.(type) {
									case *ssa.Range:
										x = y.X
									case *ssa.IndexAddr:
										x = y.X
									case *ssa.Index:
										x = y.X
									default:
										return
									}
									for _, rt := range w.prov(x, provOpts{}).Roots {
										if rt.Kind == RParam && rt.Param == q {
											searched = true
										}
									}
								})
							}
						}
					}
				}
				if extended && searched {
					bounded = "ancestor list " + p.Name()
				}
			}
		}
		// (d) a level kept in the object: the recursion goes through a method of another node object, and each such call
		// is dominated by a test that the callee object's level equals this object's level minus a constant (the other
		// outcome returns an error); the level is an unsigned field, so the chain of calls ends
		if bounded == "" && len(f.Params) > 0 {
			recv := f.Params[0]
			var invokes []ssa.CallInstruction
			for _, g := range withClosures(f) {
				for _, c := range calls(g, false, func(c ssa.CallInstruction) bool { return c.Common().IsInvoke() }) {
					for _, t := range w.calleesCHA(c) {
						if recSet[t] {
							invokes = append(invokes, c)
							break
						}
					}
				}
			}
			allGuarded := len(invokes) > 0 && len(back) == 0
			for _, c := range invokes {
				x := c.Common().Value
				guarded := false
				for _, b := range c.Parent().Blocks {
					iff, ok := lastInstr(b).(*ssa.If)
					if !ok {
						continue
					}
					bin, ok := iff.Cond.(*ssa.BinOp)
					if !ok || (bin.Op != token.NEQ && bin.Op != token.EQL) {
						continue
					}
					okIdx := 1
					if bin.Op == token.EQL {
						okIdx = 0
					}
					for _, sides := range [][2]ssa.Value{{bin.X, bin.Y}, {bin.Y, bin.X}} {
						lv, rv := stripConv(sides[0]), stripConv(sides[1])
						// lv: a method result on x (or a field of x); rv: recv.field - const
						fromX := false
						if lc, ok := lv.(*ssa.Call); ok && lc.Call.IsInvoke() && lc.Call.Value == x {
							fromX = true
						}
						sub, ok := rv.(*ssa.BinOp)
						if !fromX || !ok || sub.Op != token.SUB {
							continue
						}
						if k, isC := constInt(sub.Y); !isC || k <= 0 {
							continue
						}
						pr := w.prov(sub.X, provOpts{})
						fromRecv := false
						for _, rt := range pr.Roots {
							if rt.Kind == RField {
								fromRecv = true
							}
							if rt.Kind == RParam && rt.Param == recv {
								fromRecv = true
							}
						}
						if bt, isB := sub.X.Type().Underlying().(*types.Basic); !isB || bt.Info()&types.IsUnsigned == 0 {
							fromRecv = false
						}
						if fromRecv && edgeDominates(b, okIdx, c.Block()) && blockLeadsToErrorReturn(b.Succs[1-okIdx], 0) {
							guarded = true
						}
					}
				}
				if !guarded {
					allGuarded = false
				}
			}
			if allGuarded {
				bounded = "level field of the receiver: each nested node must be exactly one level lower"
			}
		}
		r.Check(bounded != "", "C18-h", name, "recursion is bounded", w.relFile(f.Pos()), bounded,
			"this function can call itself again (directly or through the functions it calls) and none of its parameters bounds the recursion (no counter that is compared with a limit and passed on changed by a constant, no list of ancestors extended and searched): a symbolic link that leads back to itself, or a directory that contains one of its ancestors, recurses until the goroutine stack overflows, which kills the process")
	}
	if len(rec) == 0 {
		r.Ok("C18-h", "filesystem readers", "no recursive function in the reader scope", "filesystem", "")
	}
}

func sameCycleOrSelf(reaches map[*ssa.Function]map[*ssa.Function]bool, a, b *ssa.Function) bool {
	return a == b || (reaches[a][b] && reaches[b][a])
}

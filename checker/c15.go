package main

// C15 — reading a partition table from untrusted bytes cannot crash (structural clauses).

import (
	"fmt"
	"strings"

	"golang.org/x/tools/go/ssa"
)

func init() {
	register("C15", runC15, `Structural clauses of robust partition-table reading, decided statically over the functions reachable from partition.Read (packages partition, gpt, mbr).
C15-a every table returned lists only partitions decoded from CRC-valid data: the CRC equality edges dominate every success return of the functions that compute a CRC, the checksummed buffer is the decoded one and the header CRC range covers the decoded header bytes (same rules as C09-f).
C15-b every device-derived value (decoded by encoding/binary or loaded from a byte buffer, propagated through arithmetic, fields and calls) that reaches a make length, a divisor, a slice bound, an index, or the step of a slice-shrinking loop is guarded: a dominating comparison bounds it on the edge taken, all its device-derived operands are guarded, it is loaded from a field validated where it is stored, or its type and constant operands bound it below 2^24 (16 MiB).
Untainted bounds cannot depend on the device contents and are exercised by the valid-image tests. Does not decide termination or absence of panics in general.`)
}

func partitionReaderScope(w *World) []*ssa.Function {
	root := w.Func("partition", "Read")
	reach := w.reachableFrom([]*ssa.Function{root}, func(f *ssa.Function) bool {
		p := w.pkgOf(f)
		return p == "partition" || p == "partition/gpt" || p == "partition/mbr"
	})
	return sortedFns(reach)
}

func runC15(w *World, r *Report) {
	// C15-a = C09-f under this property's name
	sub := newReport("C15", r.Tier)
	c09Reader(w, sub, w.Func("partition/gpt", "Read"))
	for _, o := range sub.Obls {
		o.Rule = "C15-a"
		r.Obls = append(r.Obls, o)
		r.seen[o.Key()] = o
		r.Analysed[o.Function] = true
	}
	fns := partitionReaderScope(w)
	b := newBounds(w, fns, false)
	boundsReport(w, r, b, "C15-b", map[string]bool{"make": true, "divide": true, "slice": true, "index": true, "step": true})
	r.Extra["functions_in_scope"] = len(fns)
	r.Extra["tainted_values"] = len(b.tv)
	var tf []string
	for f := range b.tf {
		tf = append(tf, f.Name())
	}
	r.Extra["tainted_fields"] = strings.Join(uniq(tf), ",")
	r.Floor("C15-a", r.countRule("C15-a"), 4)
	r.Floor("C15-b", r.countRule("C15-b"), 3)
	r.Floor("C15 scope", len(fns), 10)
}

func boundsReport(w *World, r *Report, b *boundsAn, rule string, kinds map[string]bool) {
	seen := map[string]int{}
	for _, s := range b.sinks(kinds) {
		key := b.sinkKey(s)
		seen[fnName(s.fn)+key]++
		cons := key
		if n := seen[fnName(s.fn)+key]; n > 1 {
			cons = fmt.Sprintf("%s #%d", key, n)
		}
		b.noWidth = s.kind == "slice" || s.kind == "index"
		// validated-field verdicts depend on noWidth: keep separate caches
		if b.noWidth {
			b.fieldOK, b.fieldOKIdx = b.fieldOKIdx, b.fieldOK
		}
		ok := b.isGuarded(s.operand, s.ins.Block(), s.need, 0)
		if b.noWidth {
			b.fieldOK, b.fieldOKIdx = b.fieldOKIdx, b.fieldOK
		}
		b.noWidth = false
		what := map[string]string{
			"make":   "allocation sized by device data without an upper bound: a few header bytes make the process allocate (or panic on) an arbitrary length",
			"divide": "division by a device-derived value that is not proven non-zero: a zero field panics",
			"slice":  "slice bound taken from device data without a dominating comparison against the slice length: out-of-range panic",
			"index":  "index taken from device data without a dominating bound check: out-of-range panic",
			"step":   "a loop advances through a slice by a device-derived step that is not proven positive: a zero step never terminates",
		}[s.kind]
		r.Check(ok, rule, fnName(s.fn), cons, w.relFile(instrPos(s.ins)), s.describe(b), what+" — "+s.describe(b))
	}
}

package main

// C15 — reading a partition table from untrusted bytes cannot crash (structural clauses).

import (
	"fmt"
	"go/token"
	"go/types"
	"strings"

	"golang.org/x/tools/go/ssa"
)

func init() {
	register("C15", runC15, `Structural clauses of robust partition-table reading, decided statically over the functions reachable from partition.Read (packages partition, gpt, mbr).
C15-a every table returned lists only partitions decoded from CRC-valid data: the CRC equality edges dominate every success return of the functions that compute a CRC, the checksummed buffer is the decoded one and the header CRC range covers the decoded header bytes (same rules as C09-f).
C15-b every device-derived value (decoded by encoding/binary or loaded from a byte buffer, propagated through arithmetic, fields and calls) that reaches a make length, a divisor, a slice bound, an index, or the step of a slice-shrinking loop is guarded: a dominating comparison bounds it on the edge taken, all its device-derived operands are guarded, it is loaded from a field validated where it is stored, or its type and constant operands bound it below 2^24 (16 MiB).
C15-c a loop whose every exit depends on a device read it contains cannot return to that read after a non-nil error (io.EOF included) without having received bytes (no retry-forever on a short device).
C15-d a pointer returned by an in-package decoder together with an error (the decoder returns nil for it on its error paths) is dereferenced only where the error is known to be nil: every field access through it is dominated by the nil edge of the error test.
Untainted bounds cannot depend on the device contents and are exercised by the valid-image tests. Does not decide termination or absence of panics in general.`)
}

func partitionReaderScope(w *World) []*ssa.Function {
	root := w.Func("partition", "Read")
	reach := w.reachableFrom([]*ssa.Function{root}, func(f *ssa.Function) bool {
		p := w.pkgOf(f)
		return p == "partition" || p == "partition/gpt" || p == "partition/mbr"
	})
	return sortedFns(reach)
}

func runC15(w *World, r *Report) {
	// C15-a = C09-f under this property's name
	sub := newReport("C15", r.Tier)
	c09Reader(w, sub, w.Func("partition/gpt", "Read"))
	for _, o := range sub.Obls {
		o.Rule = "C15-a"
		r.Obls = append(r.Obls, o)
		r.seen[o.Key()] = o
		r.Analysed[o.Function] = true
	}
	fns := partitionReaderScope(w)
	b := newBounds(w, fns, false)
	boundsReport(w, r, b, "C15-b", map[string]bool{"make": true, "divide": true, "slice": true, "index": true, "step": true})
	nloops := readLoopsProgress(w, r, "C15-c", fns)
	r.Extra["read_loops_examined"] = nloops
	if nloops == 0 {
		r.Ok("C15-c", "partition readers", "no loop whose only exits depend on a device read", "partition", fmt.Sprintf("%d functions", len(fns)))
	}
	nd := nilAfterError(w, r, "C15-d", fns)
	r.Extra["decoder_results_examined"] = nd
	r.Floor("C15-d", nd, 5)
	r.Extra["functions_in_scope"] = len(fns)
	r.Extra["tainted_values"] = len(b.tv)
	var tf []string
	for f := range b.tf {
		tf = append(tf, f.Name())
	}
	r.Extra["tainted_fields"] = strings.Join(uniq(tf), ",")
	r.Floor("C15-a", r.countRule("C15-a"), 4)
	r.Floor("C15-b", r.countRule("C15-b"), 3)
	r.Floor("C15 scope", len(fns), 10)
}

func boundsReport(w *World, r *Report, b *boundsAn, rule string, kinds map[string]bool) {
	seen := map[string]int{}
	for _, s := range b.sinks(kinds) {
		key := b.sinkKey(s)
		seen[fnName(s.fn)+key]++
		cons := key
		if n := seen[fnName(s.fn)+key]; n > 1 {
			cons = fmt.Sprintf("%s #%d", key, n)
		}
		b.noWidth = s.kind == "slice" || s.kind == "index"
		// validated-field verdicts depend on noWidth: keep separate caches
		if b.noWidth {
			b.fieldOK, b.fieldOKIdx = b.fieldOKIdx, b.fieldOK
		}
		ok := b.isGuarded(s.operand, s.ins.Block(), s.need, 0)
		if s.kind == "lenconst" {
			c, _ := constInt(s.operand)
			ok = b.lenAtLeast(s.ins.(*ssa.Slice).X, s.ins.Block(), 0) >= c
		}
		if ok && s.kind == "index" && indexesLocallyGrownSlice(s.ins) {
			// a bound on the counter is not a bound on a slice this function grows itself: decide by the append
			// discipline or by a test of the slice's own length
			ok = indexIntoGrownSlice(s.ins, s.operand) || b.lenGuardsIndex(s.ins, s.operand)
		}
		if !ok && (s.kind == "slice" || s.kind == "index") {
			// the operand's type and constant operands keep it below the proven minimum length of the container
			var cont ssa.Value
			switch x := s.ins.(type) {
			case *ssa.Slice:
				cont = x.X
			case *ssa.IndexAddr:
				cont = x.X
			case *ssa.Index:
				cont = x.X
			}
			if cont != nil {
				if bitsN := b.maxBits(s.operand, 0); bitsN < 40 {
					max := int64(1)<<uint(bitsN) - 1
					l := b.lenAtLeast(cont, s.ins.Block(), 0)
					if (s.kind == "slice" && max <= l) || (s.kind == "index" && max < l) {
						ok = true
					}
				}
			}
		}
		if !ok && s.kind == "index" {
			ok = b.indexFitsArray(s.ins, s.operand) || indexIntoGrownSlice(s.ins, s.operand)
		}
		if b.noWidth {
			b.fieldOK, b.fieldOKIdx = b.fieldOKIdx, b.fieldOK
		}
		b.noWidth = false
		what := map[string]string{
			"make":     "allocation sized by device data without an upper bound: a few header bytes make the process allocate (or panic on) an arbitrary length",
			"divide":   "division by a device-derived value that is not proven non-zero: a zero field panics",
			"slice":    "slice bound taken from device data without a dominating comparison against the slice length: out-of-range panic",
			"index":    "index taken from device data without a dominating bound check: out-of-range panic",
			"lenconst": "constant slice bound on a buffer whose length is device data, without a dominating test that the buffer is that long: a short buffer panics",
			"step":     "a loop advances through a slice by a device-derived step that is not proven positive: a zero step never terminates",
		}[s.kind]
		r.Check(ok, rule, fnName(s.fn), cons, w.relFile(instrPos(s.ins)), s.describe(b), what+" — "+s.describe(b))
	}
}

// readLoopsProgress (C15-c / C18-d): a loop whose every exit depends on the results of a device read it contains
// (typically "until the buffer is full") must not be able to come back to that read after an error without having
// received bytes: a device shorter than a corrupted field claims answers (0, io.EOF) forever.
// Loops that also have an exit independent of the read (a counter, a list length) are bounded otherwise and pass.
func readLoopsProgress(w *World, r *Report, rule string, fns []*ssa.Function) int {
	n := 0
	for _, fn := range fns {
		if fn.Blocks == nil {
			continue
		}
		for _, cc := range calls(fn, false, func(c ssa.CallInstruction) bool {
			return isReadAt(c) || methodCallSig(c, "Read", 1, 2) || isStdCall(c, "io.ReadFull") || isStdCall(c, "io.ReadAtLeast")
		}) {
			c, ok := cc.(*ssa.Call)
			if !ok {
				continue
			}
			start := c.Block()
			// the loop: blocks reachable from start that reach start
			fwd := map[*ssa.BasicBlock]bool{}
			var st []*ssa.BasicBlock
			for _, s := range start.Succs {
				st = append(st, s)
			}
			for len(st) > 0 {
				b := st[len(st)-1]
				st = st[:len(st)-1]
				if fwd[b] {
					continue
				}
				fwd[b] = true
				st = append(st, b.Succs...)
			}
			if !fwd[start] {
				continue // not in a loop
			}
			bwd := map[*ssa.BasicBlock]bool{}
			st = append(st[:0], start.Preds...)
			for len(st) > 0 {
				b := st[len(st)-1]
				st = st[:len(st)-1]
				if bwd[b] {
					continue
				}
				bwd[b] = true
				st = append(st, b.Preds...)
			}
			loop := map[*ssa.BasicBlock]bool{start: true}
			for b := range fwd {
				if bwd[b] {
					loop[b] = true
				}
			}
			dependsOnRead := func(v ssa.Value) bool {
				for _, rt := range w.prov(v, provOpts{throughExternal: true}).Roots {
					if rt.Kind == RCall && rt.Call == ssa.CallInstruction(c) {
						return true
					}
				}
				return false
			}
			independentExit := false
			exits := 0
			for b := range loop {
				iff, ok := lastInstr(b).(*ssa.If)
				if !ok {
					continue
				}
				if loop[b.Succs[0]] && loop[b.Succs[1]] {
					continue
				}
				exits++
				if !dependsOnRead(iff.Cond) {
					independentExit = true
				}
			}
			if independentExit || exits == 0 {
				continue
			}
			n++
			var cnt, errv ssa.Value
			for _, u := range *c.Referrers() {
				if ex, ok := u.(*ssa.Extract); ok {
					if ex.Index == 0 {
						cnt = ex
					} else {
						errv = ex
					}
				}
			}
			// edges that imply the count is > 0
			progress := func(b *ssa.BasicBlock, idx int) bool {
				iff, ok := lastInstr(b).(*ssa.If)
				if !ok || cnt == nil {
					return false
				}
				cond, tIdx := boolCondEdge(iff)
				bin, ok := cond.(*ssa.BinOp)
				if !ok {
					return false
				}
				x, y, op := stripConv(bin.X), stripConv(bin.Y), bin.Op
				if y == cnt && x != cnt {
					x, y = y, x
					op = map[token.Token]token.Token{token.LSS: token.GTR, token.GTR: token.LSS, token.LEQ: token.GEQ, token.GEQ: token.LEQ, token.EQL: token.EQL, token.NEQ: token.NEQ}[op]
				}
				if x != cnt {
					return false
				}
				k, isC := constInt(y)
				if !isC {
					return false
				}
				onTrue := idx == tIdx
				switch {
				case op == token.GTR && k >= 0, op == token.GEQ && k >= 1, op == token.NEQ && k == 0:
					return onTrue
				case op == token.LEQ && k >= 0, op == token.LSS && k >= 1, op == token.EQL && k == 0:
					return !onTrue
				}
				return false
			}
			// starting points: the non-nil edge of the error test (or the read itself when the error is never nil-tested)
			var from []*ssa.BasicBlock
			for b := range loop {
				iff, ok := lastInstr(b).(*ssa.If)
				if !ok || errv == nil {
					continue
				}
				x, trueIsNonNil, ok := nilTest(iff.Cond)
				if !ok || stripConv(x) != errv {
					continue
				}
				idx := 1
				if trueIsNonNil {
					idx = 0
				}
				if loop[b.Succs[idx]] {
					from = append(from, b.Succs[idx])
				}
				// tested: an edge leaving the loop needs no exploration
				if !loop[b.Succs[idx]] {
					from = append(from, nil)
				}
			}
			if len(from) == 0 {
				for i, s := range start.Succs {
					if loop[s] && !progress(start, i) {
						from = append(from, s)
					}
				}
			}
			back := false
			seen := map[*ssa.BasicBlock]bool{}
			var stack []*ssa.BasicBlock
			for _, f := range from {
				if f != nil {
					stack = append(stack, f)
				}
			}
			for len(stack) > 0 && !back {
				b := stack[len(stack)-1]
				stack = stack[:len(stack)-1]
				if b == start {
					back = true
					break
				}
				if seen[b] || !loop[b] {
					continue
				}
				seen[b] = true
				for i, s := range b.Succs {
					if !progress(b, i) {
						stack = append(stack, s)
					}
				}
			}
			name := callMethodName(c)
			if name == "" && c.Call.StaticCallee() != nil {
				name = c.Call.StaticCallee().Name()
			}
			r.Check(!back, rule, fnName(fn), "read loop stops on an error without progress: "+name+" #"+ordinal(fn, c), w.relFile(c.Pos()), "every exit of the loop depends on this read",
				"every exit of this loop depends on the results of "+name+", and after a non-nil error (io.EOF included) the loop can come back to the read without having received a byte: on a device shorter than the (possibly corrupted) length asks for, it reads (0, EOF) forever")
		}
	}
	return n
}

// nilAfterError (C15-d / C18-f): p, err := g(...) where the in-module g returns a nil pointer on (some of) its error
// paths: every dereference of p (field address, element address, load, store) must be dominated by the edge on which
// err is nil. Returns the number of call results examined.
func nilAfterError(w *World, r *Report, rule string, fns []*ssa.Function) int {
	n := 0
	for _, fn := range fns {
		if fn.Blocks == nil {
			continue
		}
		for _, cc := range calls(fn, false, func(c ssa.CallInstruction) bool {
			g := c.Common().StaticCallee()
			return g != nil && g.Blocks != nil && w.inModule(g) && errResultIndex(g.Signature) > 0
		}) {
			c, ok := cc.(*ssa.Call)
			if !ok {
				continue
			}
			g := c.Call.StaticCallee()
			ei := errResultIndex(g.Signature)
			for i := 0; i < g.Signature.Results().Len(); i++ {
				if i == ei {
					continue
				}
				if _, isPtr := g.Signature.Results().At(i).Type().Underlying().(*types.Pointer); !isPtr {
					continue
				}
				// g returns nil at position i on an error path
				nilOnErr := false
				for _, ret := range returnsOf(g) {
					if i < len(ret.Results) && isNilConst(ret.Results[i]) && classifyReturn(ret) != RetSuccess {
						nilOnErr = true
					}
				}
				if !nilOnErr {
					continue
				}
				var p ssa.Value
				for _, ref := range *c.Referrers() {
					if ex, ok := ref.(*ssa.Extract); ok && ex.Index == i {
						p = ex
					}
				}
				if p == nil {
					continue
				}
				iff, nilIdx := errNilEdge(fn, c)
				n++
				bad := ""
				for _, ref := range *p.Referrers() {
					deref := false
					switch x := ref.(type) {
					case *ssa.FieldAddr:
						deref = x.X == p
					case *ssa.IndexAddr:
						deref = x.X == p
					case *ssa.UnOp:
						deref = x.Op == token.MUL && x.X == p
					case *ssa.Store:
						deref = x.Addr == p
					}
					if !deref {
						continue
					}
					if iff == nil || !edgeDominates(iff.Block(), nilIdx, ref.Block()) {
						bad = w.relFile(instrPos(ref))
					}
				}
				r.Check(bad == "", rule, fnName(fn), "result of "+g.Name()+" used only when its error is nil #"+ordinal(fn, c), w.relFile(c.Pos()), "",
					"the pointer returned by "+fnName(g)+" (nil on its error paths) is dereferenced at "+bad+" on a path where the error may be non-nil: a record the decoder rejects makes the reader panic instead of returning an error")
			}
		}
	}
	return n
}

// lenGuardsIndex: a dominating comparison of (an alias of) the index with len() of the indexed container bounds it.
func (b *boundsAn) lenGuardsIndex(ins ssa.Instruction, idx ssa.Value) bool {
	ia, ok := ins.(*ssa.IndexAddr)
	if !ok {
		return false
	}
	in := map[ssa.Value]bool{}
	for _, a := range b.aliases(idx) {
		in[a] = true
	}
	for _, blk := range ia.Parent().Blocks {
		iff, ok := lastInstr(blk).(*ssa.If)
		if !ok {
			continue
		}
		bin, ok := iff.Cond.(*ssa.BinOp)
		if !ok {
			continue
		}
		for _, mOnX := range []bool{true, false} {
			m, other := bin.X, bin.Y
			if !mOnX {
				m, other = bin.Y, bin.X
			}
			if !in[m] && !b.derivedFrom(m, in, 0) {
				continue
			}
			o := stripConv(other)
			for k := 0; k < 3; k++ { // len(s) +/- const
				if bo, ok := o.(*ssa.BinOp); ok && (bo.Op == token.ADD || bo.Op == token.SUB) {
					if _, isC := constInt(bo.Y); isC {
						o = stripConv(bo.X)
						continue
					}
				}
				break
			}
			lc, ok := o.(*ssa.Call)
			if !ok {
				continue
			}
			bi, ok := lc.Call.Value.(*ssa.Builtin)
			if !ok || bi.Name() != "len" || !(lc.Call.Args[0] == ia.X || sameBase(lc.Call.Args[0], ia.X)) {
				continue
			}
			up, _ := cmpEdges(bin, mOnX, other)
			if up >= 0 && edgeDominates(blk, up, ia.Block()) {
				return true
			}
		}
	}
	return false
}

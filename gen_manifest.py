#!/usr/bin/env python3
"""Generates MANIFEST.json from the table below (kept in one place so it is always valid)."""
import json, os

HERE = os.path.dirname(os.path.abspath(__file__))

# id -> (technique, level text, level note, design ref)
CLAIMS = {
 "C09": ("typestate (must-pass-through) over go/ssa CFG + value provenance",
         "Decides the mechanism the property attributes atomicity to: every device write of gpt.Table.Write is classified by provenance and must occur in the order backup array, backup header, primary array, primary header, each followed by a call reaching Sync() whose error is propagated; in the reader every success return is dominated by the header-CRC and entries-CRC equality edges, content errors are wrapped in the type gpt.Read tests, and on that edge the backup at (size/lbs)-1 is read and, once it validated, returned (no error return lies behind its success edge). The behaviour follows from these premises by the written argument in the evidence; the run-time behaviour itself is not executed or model-checked.",
         "Assumes sector-atomic writes, Sync() as a durability barrier, CRC-32 collision freedom, go/ssa + CHA soundness. Path-insensitive: a guard that is infeasible at run time is not seen.",
         "DESIGN.md §4 C09"),
 "C11": ("call-graph reachability (CHA) with constant-actual folding + provenance of write receivers + dominance of gate tests",
         "Decides the mechanism: every device WriteAt receiver comes from Storage.Writable(); Writable() implementations return a file only on the !readOnly edge; ReadOnly maps to flags without write bits and reaches the backend's readOnly field; every Writable() error is propagated; every iso9660/squashfs mutator (incl. OpenFile for each write flag, Finalize, File.Write) explored with the workspace != \"\" edges refused reaches no host/device mutation and no success return; from ~80 reading entry points (derived from the FileSystem/File/Table/Partition interfaces, OpenFile folded with O_RDONLY) no WriteAt/Writable()/os mutation is reachable; every constructor and Disk.Partition/WritePartitionContents passes Writable() before success. Does not decide byte equality of the image; says nothing about no-op mutators on FAT/ext4 that succeed without writing.",
         "Assumes CHA soundness (no reflection/unsafe reaching writes), that a caller-supplied Storage honours its own mode, and that io.Writer arguments of reading functions are the caller's sink. Path-insensitive except for constant folding.",
         "DESIGN.md §4 C11"),
 "C14": ("call-graph reachability (CHA) with constant folding of reproducible=true + forward slice of the start offset",
         "Decides the mechanism: from the three FAT constructors explored with reproducible=true, every exported method of the FAT FileSystem/File types and gpt/mbr Table.Write, no clock/RNG/UUID/env/pid/tempdir/goroutine/select/map-range is reachable except through timestamp.GetTime (whose clock read is shown unreachable when SOURCE_DATE_EPOCH parses) and on the GUID==\"\" edge; the volume's start offset flows only into I/O offsets; Disk.CreateFilesystem passes spec.Reproducible. Does not compare bytes of two runs.",
         "Assumes non-module callees other than the listed sources are deterministic functions of their arguments; CHA soundness.",
         "DESIGN.md §4 C14"),
 "C03": ("value provenance of I/O offsets and receivers (additive decomposition, backend.Sub wrapping) + dominance of bounds tests",
         "Decides structural necessary conditions of range confinement: each of the ~100 device ReadAt/WriteAt sites of the six filesystem packages is start-relative (start added exactly once across phis, helpers and callers, or receiver wrapped by backend.Sub with the raw backend only on the start==0 edge); MBR entry-area writes are confined to [446,512) and GPT region offsets depend on table geometry only; the partition stream's size test dominates its WriteAt and the offset is start+running total; SubStorage forwards offset+own offset; Finalize of iso9660/squashfs must consult the range size (squashfs does not: one known finding; iso9660 was repaired). Breaking any of these breaks the behaviour for some input; holding them does not establish it (FAT32 cluster-count overrun and ext4 allocator bounds are arithmetic and not covered).",
         "go/ssa provenance is field-based and flow-insensitive across functions; host (workspace) files are told from the device by provenance (os.Open* vs backend values).",
         "DESIGN.md §4 C03"),
 "C13": ("type-width check on the def-use chains of Start/Size/End + dominance of size tests + provenance of slice bounds",
         "Decides structural necessary conditions for both part.Partition implementations: no sub-64-bit multiply/add/shift or narrowing on values derived from Start/Size/End in WriteContents/ReadContents/GetStart/GetSize; the size test dominates the device write and success requires total == size; the bytes handed to the output writer are clamped by the remaining size (or chunk and sector size are the same constant); every chunk read from the source is handled and the caller's reader is passed through unwrapped; the size test compares the byte total itself (no division, shift or mask on that side) and the running total advances only by bytes that went through the device write; verifyBlockCopy turns digest inequality into an error, covers the whole expected size (no floor division without the remainder) and CopyPartitionRaw propagates read/write/verify errors. Does not decide which bytes are moved.",
         "Path-insensitive; the mbr clamp exemption relies on deep provenance showing chunk length and sector multiplier are the same constant.",
         "DESIGN.md §4 C13"),
 "C10": ("SSA analysis of the whence switch, dominance of closed/negative guards, per-addend provenance (data + selecting-condition dependence) of the returned count",
         "Decides structural necessary conditions for all four filesystem.File implementations, cross-checked as siblings: Seek arms are offset / cursor+offset / size+offset with no subtraction; a negative target is rejected before the cursor store; Close stores a sentinel that Read and Seek test before any other field access; every addend of Read's returned count and every placement into the caller's buffer depends on both size and cursor (so it cannot exceed what remains by construction of a min/clamp); io.EOF is selected by a size/cursor comparison that precedes every failure decided from the cursor, and the cursor advances by the count's addends; in ext4's extent loops the device offset of each transfer depends on the advancing cursor. Does not decide which bytes are returned.",
         "Dependence is data flow plus the conditions selecting phi values; a clamp that is present but arithmetically wrong (e.g. off by one) is not seen.",
         "DESIGN.md §4 C10"),
 "C01": ("typestate over go/ssa CFG with callee summaries (dirty directory => write-back), provenance of released chain heads, never-after on the out-of-space return",
         "Decides structural necessary conditions of the FAT reference-model property: Remove/Rename-over/O_TRUNC hand the dropped entry's first cluster to a function that marks clusters unused; in all exported FAT FileSystem/File mutators every change of a directory's entry list or of an existing entry's fields is followed on every success path by the write of that same directory; the allocator's out-of-space return precedes any FAT mutation; the allocator's free-cluster scan starts at a constant or at a hint that every cluster-releasing function rewinds (a start taken from anything else - the end of the chain being extended - is a violation unless a second scan starts at a constant); writeDirectoryEntries writes every cluster of the directory's chain. Does not decide equality of listings/contents with a reference model, name aliasing or cluster arithmetic.",
         "Path-insensitive; directory identity is by SSA value within a function with one level of helper parameters.",
         "DESIGN.md §4 C01"),
 "C08": ("typestate over go/ssa CFG (FAT dirty => WriteFat, link => end-of-chain), SSA value identity of mirrored buffers, store/dominance checks for hooks, encoder/decoder layout agreement",
         "Decides structural necessary conditions of on-disk FAT soundness: secondary FAT, backup boot sector and backup FSInfo are written from the very same buffer as the primary; every SetCluster is followed by WriteFat() (error propagated) before success; both fat32 constructors install WriteBootSectorFn/AfterWriteFAT and WriteFat invokes the hook; dropped entries' chains are released; allocator links are terminated with EOCMarker() and freed clusters get UnusedMarker(); a BPB sector number becomes a byte offset only through the volume's own sector size (never a literal 512/4096, also not through a helper's fallback); the three FAT encoders start from a buffer allocated or cleared by the call; every error return behind a successful fresh allocation (mkFile/mkSubdir) passes a cluster release (one defect repaired: a refused create or mkdir leaked a cluster each time). Geometry formulas (FAT32 maxCluster overrun) and chain well-formedness over histories are not covered.",
         "Path-insensitive; mirror sites are recognised by 'secondary'/'backup' in the field or accessor the offset derives from.",
         "DESIGN.md §4 C08"),
 "C12": ("dominance/edge analysis of probe results, reachability of signature comparisons with error propagation, interval extraction of cluster-count thresholds",
         "Decides structural necessary conditions of recognition: GPT before MBR with each table returned on its own nil-error edge; GetFilesystem probes every FileSystem implementer and returns a probe's result exactly (and at once) on its nil-error edge, otherwise an error; the readers of fat12/fat32/iso9660/squashfs/ext4 compare decoded bytes with the format signature, reject on mismatch and the rejection is propagated to Read; FAT12/FAT16 Create and Read accept the same, adjacent, disjoint cluster-count intervals (4085, 65525) and round the cluster count the same way, and every FAT-type threshold is applied to a cluster count whose sector total subtracts the FAT area; Disk.CreateFilesystem zeroes the head of the target range (at least 34816 bytes: FAT boot sector, ext4 superblock, first ISO9660 descriptor, squashfs superblock) on every feasible path to a filesystem Create, so that the signature of an earlier filesystem cannot be recognised afterwards (one defect repaired: FAT16 then ext4 on one range was reported as FAT16); no rejection in the six readers depends on the start offset. fat16.Read has no signature test today and is exempted with that reason. Does not decide label/content round trips.",
         "Signature constants are specification facts held in the checker. Path-insensitive.",
         "DESIGN.md §4 C12"),
 "C16": ("error-flow check per call site + condition-to-error-return checks on the compare closures + SSA identity of copied buffers",
         "Decides structural necessary conditions in package sync: no error from the source, destination, opened files or io.* is dropped in the copy (Chtimes/Close are the listed best-effort exceptions); each difference kind (missing path, kind, size, content, extra path, read-count, byte mismatch) controls an error return; copy and both compare walks consult the same exclusion table (also through helpers), index it by the entry's own name only and never use it other than by exact lookup; bytes delivered together with io.EOF are written before the copy can succeed and are compared before compareFileContents can answer equal (the bytes.Equal call dominates every nil return reachable from the Reads); fs.SkipDir is returned only for directories; directories are created and recursed into, files copied from the very bytes read, short writes are errors. Does not decide tree equality at run time.",
         "Path-insensitive; recognises the package's current idioms (fs.WalkDir closures, bytes.Equal on [0:n) windows).",
         "DESIGN.md §4 C16"),
 "C17": ("lockset dataflow (entry locksets of helpers by intersection over call sites), lock-order and reachability analysis of fetch closures, freshness analysis of stores in reader-reachable functions",
         "Decides the mechanism of reader concurrency safety for squashfs: guarded-by discipline of lru/lruBlock fields, Lock/Unlock pairing on all paths, only lru.mu -> block.mu nesting with nothing but list/map helpers under lru.mu, fetch closures re-enter no lock or cache, every store in the ~120 functions reachable from the reading API targets memory allocated on that path (except per-handle File fields and the lock-guarded cache), cache key = fetch offset and get returns only fetch output/cached data. From these, race freedom, termination and cache transparency follow by the argument in the evidence; no interleaving is executed.",
         "Assumes the backend's ReadAt and third-party decompressors are safe for concurrent use; freshness is decided per allocation site (no pointer analysis).",
         "DESIGN.md §4 C17"),
 "C15": ("taint of device-derived values (go/ssa, field-based, interprocedural) x dominating-comparison guards x type width, plus CRC must-pass-through",
         "Decides structural necessary conditions over the 26 functions reachable from partition.Read: every success return of the CRC-computing readers lies behind the CRC equality edge over the decoded bytes; every device-derived value reaching a make length, divisor, slice bound, index or the step of a slice-shrinking loop is bounded by a dominating comparison (directly, through its operands, through the validation at the store of the field it is loaded from, or - for lengths only - by a type of at most 16 bits). Loop counters compared with a device-derived bound inherit its taint. A comparison on a value computed from the bounded one counts only if that computation is monotone in it and cannot wrap in its integer type (a 32-bit product of two header fields bounds neither factor). A loop whose every exit depends on a device read cannot return to that read after an error without progress. A pointer returned by an in-package decoder together with an error is dereferenced only where the error is known to be nil. Does not prove termination or panic-freedom in general: untainted indices and arithmetic overflow inside guarded ranges are out of scope.",
         "Taint is flow-insensitive across functions and field-based; a guard is a comparison with an untainted value or len() on the bounding edge - whether the constant is small enough is not judged.",
         "DESIGN.md §4 C15"),
 "C18": ("taint of device-derived values x dominating guards x value-range width, over the ~450 functions reachable (with constant folding of read-only flags) from the six readers; checksum-verified decoders are not taint sources under the property's single-field corruption model",
         "Decides structural necessary conditions: a device-derived make length whose range exceeds 16 MiB is bounded by a dominating comparison (on it, on a value computed from it, on its operands, at the store of the field it is loaded from, or by a validator call); every device-derived divisor is proven non-zero; slice-shrinking loop steps are proven positive; FAT cluster-chain walks carry a link-count bound; read loops whose only exits depend on the read cannot retry forever; library allocators (slices.Grow, bytes.Repeat, ...) are allocation sinks; every device-derived index and every device-derived slice bound is bounded (dominating comparison with len() or a bounded value, min/clamp, type width below the proven minimum length, append discipline for slices the function grows itself), constant bounds on buffers of device-derived length need a proven minimum length, and decoder results are dereferenced only where the decoder's error is nil. Five allocation sites (iso9660 x4, squashfs) violate the allocation rule and are listed as known findings with the corrupted field that triggers each; seven slice sites whose bound is relational are trusted with a written reason (listed in the evidence); more than forty reader defects (panics, endless walks, oversized reads) were repaired in /repo while the rules were built. Decompression bombs and time bounds are not covered.",
         "Whether a bounding constant is small enough is not judged (only that a bound exists); taint is field-based and flow-insensitive across functions.",
         "DESIGN.md §4 C18"),
 "C02": ("byte-layout extraction (abstract interpretation of encoder/decoder over go/ssa: field x significance x mask per byte) + ordering of CRC computation against stores + width check on geometry conversions",
         "Decides structural necessary conditions of the GPT/MBR round trip: for the GPT header, GPT entry and MBR entry every byte the parser maps to a field is written by the encoder from the same field with the same significance (and vice versa); the header CRC is computed over [0:92] after every other store into that range and stored at [16:20], the reader verifies the same range, the array CRC is computed from the array encoder's output; narrowing conversions of geometry into on-disk fields are range-tested or saturated (one defect repaired: protective MBR size); a sector count is scaled only by the table's own sector size; a disk GUID drawn while encoding is kept so that both header copies carry one identity (one defect repaired); partition names go through the utf16 package on both sides (the encoder never narrows a rune to one unit, the decoder never widens a single unit to a rune); the error discipline of Table.Write is shared with C09. Does not decide numeric equality of a written and re-read table, UTF-16 name handling, or CHS values.",
         "The extractor models constant offsets, binary.*Endian, copy, append, shifts/masks and helper inlining; bytes it cannot resolve are counted as unresolved, and each pair has a floor on agreeing bytes (exit 2 if the extractor stops understanding a pair).",
         "DESIGN.md §4 C02"),
 "C06": ("byte-layout extraction for the volume descriptors + provenance of device I/O offsets/receivers (backend.Sub wrapping)",
         "Decides structural necessary conditions of the ISO9660 round trip: the image is written and read at one translation (every device I/O of package iso9660 goes through the backend.Sub-wrapped backend); primary and supplementary volume descriptor encoders and parsers agree byte by byte on field, significance and both-endian duplication. Directory records, SUSP/Rock Ridge entries, name mangling, sector layout and extent non-overlap are not covered.",
         "The directory-record pair is not resolved by the extractor (encoder returns record lists) and is not claimed.",
         "DESIGN.md §4 C06"),
 "C07": ("byte-layout extraction for 14 squashfs structures + switch exhaustiveness over type constants + provenance of cache results",
         "Decides structural necessary conditions of the squashfs round trip: superblock, inode header, 11 inode bodies, directory header/entry and fragment entry encoders and parsers agree byte by byte; parseInodeBody has a case for every inodeType constant and newCompressor for every compression constant; lru.get returns only what fetch produced (results cannot depend on cache size) and lru.pop is only called behind a non-emptiness test (cache size 0). Block/fragment packing, compressor behaviour, directory ordering and Finalize cursor arithmetic are not covered.",
         "The extended device inode pair is unresolved (floor 0) and contributes nothing.",
         "DESIGN.md §4 C07"),
 "C19": ("byte-layout extraction incl. bit masks and split fields + frame conditions (set of stored fields per mutator) + switch exhaustiveness of type tables",
         "Decides structural necessary conditions of metadata preservation: ext4 inode (split uid/gid/size halves, seconds+extra timestamp pairs), ext4 directory entry, FAT 8.3 record (attribute/case bits with masks, date/time words, split cluster) and squashfs inode header encoders and parsers agree byte by byte; ext4 Chmod/Chown/Chtimes and the FAT attribute setters store only their own fields; the file-type-to-mode tables of ext4 and squashfs are total and every comparison of a mode with an os.Mode* type constant looks at type bits only; the packed DOS date/time words are decoded with the shifts and field widths the encoder uses; the FAT attribute and case bytes can hold every combination of the caller-settable flag bits (the encoder does not set them in mutually exclusive branches). Representable ranges, the symlink inline boundary and host metadata collection are not covered.",
         "Frame conditions are over field stores reached through in-package callees up to depth 4, excluding write-back helpers.",
         "DESIGN.md §4 C19"),
 "C04": ("typestate (dirty/flush) over go/ssa CFGs with callee summaries + frame conditions (stored-field sets) + linear-form comparison of bitmap indices + nil-guard dominance + loop-coverage of block writes",
         "Decides structural necessary conditions of the ext4 tree behaviour: stores to fields of an inode loaded from disk are followed by writeInode on every success path of Chmod/Chown/Chtimes/Truncate/Symlink/mkDirEntry/File.Write/Remove (the 'size or blocks changed' guarded flush of File.Write is recognised); Chmod/Chown/Chtimes store only their own fields; allocation and release address the same bitmap bit and group (shared with C05-c); method calls on the extent tree of an arbitrary entry's inode are nil-guarded; Remove rewrites every block of the parent directory; Symlink, the inode encoder and the inode decoder split symlink lengths at the same value, 60 (shared with C05-h, C20-b). Two defects were repaired (Remove of an in-inode symlink panicked; stale directory blocks after Remove). Equality with a reference tree, extent mapping arithmetic, directory packing and path walking are not decided.",
         "One dirty bit for all inodes of a function (Symlink/mkDirEntry handle two); path-insensitive except for the listed idioms.",
         "DESIGN.md §4 C04"),
 "C05": ("typestate (dirty/flush) over go/ssa CFGs with callee summaries for group descriptors and superblock + ordering of checksum computation against stores + linear-form comparison of bitmap indices and group quotients + provenance of counter deltas + byte-layout extraction",
         "Decides structural preconditions of e2fsck acceptance (the external checker is not run by the check): group-descriptor and superblock changes and bitmap-checksum refreshes are flushed by writeGDT/writeSuperblock before every success return of the public API; the three checksummed encoders store nothing after the checksum; every Set/Clear/IsSet on an on-disk bitmap uses ino-ipg*g-1 resp. block-(firstDataBlock+g*bpg) and group numbers are (ino-1)/ipg resp. (block-firstDataBlock)/bpg; free-block counters change by block counts, never inode.blocks; superblock, group descriptor, inode and directory-entry encoders and parsers agree byte by byte; Remove marks the removed inode deleted and writes it; a per-element flush inside a loop must be the last thing that touches the descriptor in an iteration; every computation of the inode-table size in blocks rounds up. Four defects in Remove/blockGroupForBlock were repaired and demonstrated with e2fsck. Layout at mkfs time (an incorrect resize-inode size with non-default BlocksPerGroup was observed and is not covered), link counts, extent-tree metadata blocks, directory packing and the state after a refused operation are not decided.",
         "Assumes a range loop that flushes per element runs at least once when something was dirtied (collections filled alongside), that incrGD* helpers are the flush points for preceding bitmap writes, and that in-package callees that never mention io.EOF cannot return it.",
         "DESIGN.md §4 C05"),
 "C20": ("dominance of nil tests over interface method calls on the extent tree of inodes decoded from the image",
         "Decides one structural necessary condition of 'an image using a feature the library does not support is refused or the affected file fails with an error': an inode decoded from the image has no extent tree when it maps blocks the ext2/ext3 way (mke2fs without the extent feature), is a symlink stored in the inode or a special file, and every method call on inode.extents of such an inode (readInode / inodeFromBytes results; 6 sites) is dominated by a nil test; the decoder (and encoder and Symlink) split symlink lengths at 60, as the reference tools do, so a 60-byte target is read from its block. One defect was repaired (ReadDir/ReadFile/ReadLink on an mke2fs -O ^extent image panicked). That decoded trees, contents and attributes equal what e2fsprogs wrote (hashed directories, interior extent nodes, holes, xattrs) is NOT decided: it needs the reference implementation as an oracle.",
         "Inodes reaching a use through a parameter or a File handle are covered only at the point where they were decoded.",
         "DESIGN.md §4 C20"),
}

NOT_APPLICABLE = {
}

PENDING = "static check not built yet (see DESIGN.md §8 build order); not claimed"

def main():
    props = [json.loads(l)["id"] for l in open(os.path.join(HERE, "properties.jsonl"))]
    checks = []
    na = []
    for pid in props:
        if pid in CLAIMS:
            tech, text, note, ref = CLAIMS[pid]
            checks.append({
                "property_id": pid,
                "quick_cmd": "./check.sh %s quick" % pid,
                "thorough_cmd": "./check.sh %s thorough" % pid,
                "evidence_file": "/verif/evidence/%s.json" % pid,
                "replay_cmd_template": "cat {path}; ./check.sh %s quick" % pid,
                "engine": "dfscheck",
                "level_claimed": {"category": "other", "text": text, "design_ref": ref},
                "level_note": note,
                "technique": "static analysis: " + tech,
            })
        else:
            na.append({"property_id": pid, "reason": NOT_APPLICABLE.get(pid, PENDING)})
    m = {
        "version": 1,
        "setup_cmd": "./build.sh",
        "hooks": {
            "guard": "verif",
            "enable": "none needed: the checks analyse /repo's source statically, nothing in /repo is instrumented",
            "baseline_off_cmd": "cd /repo && go test -vet=off -count=1 ./...",
            "source_commits": [],
            "add_only": True,
        },
        "engines": [{
            "name": "dfscheck",
            "path": "/verif/checker",
            "serves_properties": sorted(CLAIMS),
            "kind_free_text": "repository-specific static analyser over go/packages + go/ssa + CHA call graph (typestate, provenance, reachability, bounds/taint, codec layout agreement, lockset); never executes go-diskfs",
        }],
        "checks": checks,
        "not_applicable": na,
        "notes": "All checks are static analysis of /repo's current working tree (exit 0 held; 1 violation, with a VIOLATION line; 2 the analysis could not run or an obligation is UNDECIDED because the code has a shape a rule cannot interpret - no violation is claimed then). Thorough = quick + other GOOS/GOARCH configurations + seeded-edit self-test of the checker on scratch copies under /var/tmp (removed afterwards).",
    }
    json.dump(m, open(os.path.join(HERE, "MANIFEST.json"), "w"), indent=1)
    print("MANIFEST.json: %d checks, %d not_applicable" % (len(checks), len(na)))

if __name__ == "__main__":
    main()
